#!/usr/bin/env python3
"""Writes MANIFEST.json from the table below (kept in one place so that it stays valid)."""
import json, os
ROOT = os.path.dirname(os.path.abspath(__file__))
BASE = json.load(open("/root/.vp/BASELINE.json"))["cmd"] if os.path.exists("/root/.vp/BASELINE.json") else ""

CHECKS = {
 "C05": dict(technique="property-based testing (rapid): stateful API programs over an aliased variable pool vs. twin execution on unaliased copies; op x aliasing table",
             text="Generated search: random programs of point/scalar API calls with every aliasing pattern, on all exposed groups, compared step by step with an unaliased twin execution; a finite op x aliasing-pattern table is enumerated per group with sampled operand values. Exploration, not proof: absence of a violation is only claimed for the explored programs.",
             note="Trusted: MarshalBinary/UnmarshalBinary round trip (C03) is used to re-create unaliased operands; rapid v1.3.0; unsupported methods (documented panics) are not generated.", ref="4/C05"),
}
NOT_YET = {}

def main():
    props = [json.loads(l) for l in open(os.path.join(ROOT, "properties.jsonl"))]
    checks, na = [], []
    for p in props:
        pid = p["id"]
        if pid in CHECKS:
            c = CHECKS[pid]
            checks.append({
                "property_id": pid,
                "quick_cmd": "./check %s --tier quick" % pid,
                "thorough_cmd": "./check %s --tier thorough" % pid,
                "evidence_file": "evidence/%s.json" % pid,
                "replay_cmd_template": "./check %s --replay {path}" % pid,
                "engine": "harness",
                "level_claimed": {"category": "exploration", "text": c["text"], "design_ref": "DESIGN.md §" + c["ref"]},
                "level_note": c["note"],
                "technique": c["technique"],
            })
        else:
            na.append({"property_id": pid, "reason": NOT_YET.get(pid, "check not built yet in this session (work in progress); property-based testing applies, see DESIGN.md §4")})
    m = {
        "version": 1,
        "setup_cmd": "./setup.sh",
        "hooks": {"guard": "verif", "enable": "go test -tags verif (the harness test binaries are always built with -tags verif)",
                  "baseline_off_cmd": BASE, "source_commits": [], "add_only": True},
        "engines": [{"name": "harness", "path": "harness/", "serves_properties": sorted(CHECKS),
                     "kind_free_text": "one Go test package driven by ./check: pgregory.net/rapid v1.3.0 properties and state machines, native go fuzz targets (thorough C04), Go race detector (C20); reference models in math/big, crypto/ed25519, x/crypto"}],
        "checks": checks,
        "notes": "All checks: ./check <id> --tier quick|thorough; VERIF_SEED selects the rapid seeds; exit 0 held / 1 VIOLATION / 2 infrastructure. Known findings: known_findings.json.",
        "not_applicable": na,
    }
    json.dump(m, open(os.path.join(ROOT, "MANIFEST.json"), "w"), indent=1)

if __name__ == "__main__":
    main()
