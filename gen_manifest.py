#!/usr/bin/env python3
"""Writes MANIFEST.json from the table below (kept in one place so that it stays valid)."""
import json, os
ROOT = os.path.dirname(os.path.abspath(__file__))
BASE = json.load(open("/root/.vp/BASELINE.json"))["cmd"] if os.path.exists("/root/.vp/BASELINE.json") else ""

CHECKS = {
 "C05": dict(technique="property-based testing (rapid): stateful API programs over an aliased variable pool vs. twin execution on unaliased copies; op x aliasing table",
             text="Generated search: random programs of point/scalar API calls with every aliasing pattern, on all exposed groups, compared step by step with an unaliased twin execution; a finite op x aliasing-pattern table is enumerated per group with sampled operand values. Exploration, not proof: absence of a violation is only claimed for the explored programs.",
             note="Trusted: MarshalBinary/UnmarshalBinary round trip (C03) is used to re-create unaliased operands; rapid v1.3.0; unsupported methods (documented panics) are not generated.", ref="4/C05"),
}
CHECKS["C01"] = dict(technique="property-based testing (rapid): metamorphic group/scalar-action identities over edge-biased operands in all exposed groups + differential against math/big curve models",
  text="Generated search over (group, scalars, points): 24 algebraic identities per case, each computed along two API paths and compared by Equal and by encoding, plus comparison with an independent arbitrary-precision Edwards/Weierstrass model for Ed25519 (6 instances), P-256, BN256/BN254 G1 and BLS12-381 G1 (3 back-ends). Exploration only.",
  note="Trusted: math/big; the harness' curve constants (self-checked against the library generators at start-up); rapid. GT/G2 of the pairing groups have no independent model - only the identities.", ref="4/C01")
CHECKS["C02"] = dict(technique="property-based testing (rapid): model-based lock-step programs of scalar operations against math/big, in the default and the constantTime build",
  text="Generated programs over three scalar registers run in lock-step with a math/big model of Z_q for every scalar implementation (Ed25519 limbs, mod.Int over big.Int and over bigmod for 8 moduli x both byte orders, CIRCL, gnark, all group scalar types incl. composite-order 8q); canonical encoding and Equal are checked after every step; Pick is checked for range, repeatability and dependence on consumed bytes only. Exploration only.",
  note="Trusted: math/big, rapid. Inv/Div only for invertible divisors. Runs the same test file under -tags constantTime.", ref="4/C02")
CHECKS["C03"] = dict(technique="property-based testing (rapid): encode/decode round trips, Equal-iff-bytes on pairs equal/different by construction, stream and hex helper agreement, value-preservation twin",
  text="Generated points (all construction routes incl. non-normalised internals) and reduced edge scalars of every group are checked for fixed length, canonical round trip, byte-identical re-encoding, MarshalTo/UnmarshalFrom/hex helper agreement with MarshalBinary, Equal <=> identical encodings (both directions), and that encoding does not change the value (twin made through bytes, continued arithmetic). Exploration only.",
  note="Trusted: rapid; math/big rendering of scalars. Quantifies over reduced scalars only.", ref="4/C03")
CHECKS["C04"] = dict(technique="property-based testing (rapid) with structure-aware hostile byte generators + math/big membership models over Fp and Fp2; native go fuzzing of the decoders in the thorough tier",
  text="Byte strings (random, boundary sizes, mutated valid encodings, structure-aware hostile inputs per decoder family) are decoded in every group: no panic, input unmodified, and for accepted values: later operations do not panic, the value is a member of the promised set according to independent models (curve equation over Fp/Fp2, r*P=O for BLS12-381 G1/G2, Euler criterion for QR-512), and its re-encoding decodes to an Equal value. Composite parsers (signatures, proofs, ciphertexts, deals) are driven with mutated honest objects and raw bytes and must return, never panic. Exploration only.",
  note="Trusted: math/big models (self-checked against generators), rapid, Go's fuzzing engine. GT membership is not promised by the property and not checked.", ref="4/C04")
CHECKS["C06"] = dict(technique="property-based testing (rapid): metamorphic pairing identities on generated G1/G2 points and scalars; differential ValidatePairing vs Pair equality on 11 quadruple shapes",
  text="For each of the five pairing suites, generated scalars and G1/G2 points (identity, generators, multiples, hashed, sums with projective internals) are pushed through bilinearity, additivity, negation, identity-argument, order and non-degeneracy identities compared by Equal and GT encoding, and ValidatePairing is compared with Pair(..).Equal(Pair(..)) on quadruples that are equal by construction, unrelated, negated or contain identities. Exploration only.",
  note="Trusted: rapid. No independent pairing model: an error shared by Pair and GT arithmetic that preserves all identities would be invisible (cross-back-end comparison is C18).", ref="4/C06")
CHECKS["C07"] = dict(technique="property-based testing (rapid): model-based (math/big Horner/Lagrange) checks of share generation and recovery over generated subsets, orders, holes and duplicates; exhaustive subset enumeration for small n",
  text="Generated (group, t, n, coefficients incl. zero secret/leading coefficient, base, share list with permutation, nil holes, duplicates, too few shares): share values, secret, commitment, full private and public polynomial are compared with a math/big model; refusal below t; Check accepts exactly shares on the polynomial; polynomial addition/multiplication commute with evaluation and commitment; all subsets are enumerated for n<=5 (thorough 7). Exploration only.",
  note="Trusted: math/big, rapid; group arithmetic itself is C01's subject.", ref="4/C07")
CHECKS["C19"] = dict(technique="property-based testing (rapid): stateful model-based testing of the three XOFs against a single-shot golang.org/x/crypto reference; metamorphic tests of random.New; exhaustive bias enumeration for random.Int",
  text="A state machine over Write/Read/XORKeyStream/Reseed/Clone/Reset on a growing set of XOF instances compares every output with a from-scratch single-shot reference on x/crypto (chunk independence, determinism, XOR = Read, clone tracking, reseed, reset). random.New is checked metamorphically (deterministic, consumed bytes only, every reader matters, survives failing readers); random.Bits/Int for range, exactness and dependence on consumed bytes; modulo bias is decided exhaustively over all 1-/2-byte stream prefixes for a list of moduli. Exploration, with the bias sub-space enumerated completely.",
  note="Trusted: golang.org/x/crypto blake2b/blake2s XOF and SHAKE256; rapid. Documented panics (Write after Read, all readers failing, Bits(0,exact)) are outside the generated domain.", ref="4/C19")
CHECKS["C17"] = dict(technique="property-based testing (rapid): adversarial-stream generators for Pick/Embed, model membership, replay-of-consumed-bytes determinism, Embed/Data round trip, differential hash-to-curve (RFC 9380 math/big model for edwards25519, cross-back-end for BLS12-381)",
  text="Generated (group, stream incl. retry-forcing prefixes, data lengths around EmbedLen, messages, DSTs up to 300 bytes): produced points are group members in the library and in the math/big models, are functions of exactly the consumed bytes / (message, DST), differ for different messages and tags, Embed/Data is lossless up to EmbedLen before and after encode/decode, Data never panics, the Ed25519 hash equals an RFC 9380 model validated on the RFC vectors, and BLS12-381 hashes agree across Kilic/CIRCL/gnark. Exploration only.",
  note="Trusted: math/big curve and RFC 9380 models (validated on the RFC's own vectors at start-up), rapid. Empty DST is outside the domain (RFC 9380 3.1).", ref="4/C17")
CHECKS["C08"] = dict(technique="property-based testing (rapid): sign/verify round trips with decode-classified mutations; differential against crypto/ed25519 and an Edwards model; linkage metamorphic relations for ring signatures",
  text="Generated keys/messages/mutations for Schnorr over every group with a base point (mutations classified identical/equivalent/different by decoding), canonicity predicates vs integer comparison and the Edwards model on boundary strings, EdDSA byte-identical to crypto/ed25519 with adversarial triples (s+kL, torsion-shifted R/A, small-order, non-canonical) where kyber-accept must imply stdlib-accept and the malleability classes must be rejected, and ring signatures (sizes 1..8, all positions, linkable or not) with ring/message/scope/signature mutations and tag linkage relations. Exploration only.",
  note="Trusted: crypto/ed25519, math/big Edwards model, rapid. Soundness is only tested against the listed mutation families.", ref="4/C08")
CHECKS["C09"] = dict(technique="property-based testing (rapid): generated partial-signature lists with injected invalid/duplicate partials against the unique-signature oracle; BDN aggregates against reference sums; CoSi mask state machine against a bit-set model",
  text="For the 8 (suite, signature group) combinations: BLS sign/verify with key/message/signature mutations; threshold BLS recovery from arbitrary orders of valid, invalid and duplicate partials must equal bls.Sign(secret) exactly or be refused below t; BDN aggregates over masks built by five routes equal harness-computed reference sums, verify under exactly their mask and no neighbouring mask; CoSi collective signatures verify iff the policy holds and every semantically different mutation is rejected; the CoSi mask is compared with a bit-set model after every SetBit/SetMask. Exploration only.",
  note="Trusted: rapid; the BDN coefficient derivation (blake2s XOF over the key list) is re-implemented from its specification; pairing correctness itself is C06.", ref="4/C09")
CHECKS["C13"] = dict(technique="property-based testing (rapid): honest PVSS pipelines over generated parameters with subset/order recovery, plus single-field / cross-trustee / parameter mutations that must all fail",
  text="Generated (group, n, t, secret, H, keys): honest encrypted and decrypted shares verify singly and in batches, recovery from any >= t verified shares in any order returns secret*G and is refused below t; one mutation per case out of 11 families (each field of an encrypted or decrypted share, swapped trustees, wrong key, wrong commitment, altered polynomial coefficient, wrong H, wrong global challenge), applied only if the value really differs, must fail verification, be excluded from batch results and be refused by DecShare; DLEQ proofs verify and fail under 9 component/point mutations. Exploration only.",
  note="Trusted: rapid. Soundness only against the listed mutation families; the positional share index is not bound by the scheme and not mutated.", ref="4/C13")
CHECKS["C16"] = dict(technique="property-based testing (rapid): encrypt/decrypt round trips with high-entropy plaintexts, plaintext-block-in-clear detector, tamper families per ciphertext region",
  text="Generated messages (boundary lengths), keys, identities and recipient sets for ECIES (5 groups x 3 hashes), IBE CCA/CPA on both group assignments for every suite with a hashable identity group, and anonymous-set encryption (4 suites, sets of 1..6, every index): round trip, no 16-byte plaintext block at its offset in an accepted ciphertext, refusal of messages the scheme cannot protect, and errors (never panics, never another plaintext) for wrong keys/identities/indices and for bit flips, truncation and extension in every ciphertext region. Exploration only.",
  note="Trusted: rapid. ECIES/IBE nonces come from crypto/rand and cannot be injected (properties hold for every nonce). Known design weakness, tolerated: IBE-CCA's FO randomiser sigma has only |msg| bytes, so for messages < 16 bytes a wrong identity key can pass the check with probability 2^(-8|msg|) and then returns the same plaintext.", ref="4/C16")
CHECKS["C12"] = dict(technique="property-based testing (rapid): generated delivery sequences of valid and injected invalid partial signatures per participant, against a set model of accepted partials and four independent verifiers",
  text="Generated (n, t, distributed keys, message, per-participant subsets/orders of partial signatures with ten kinds of injected invalid partials): invalid ones are refused and never contribute, EnoughPartialSig matches the model count, Signature is refused below t and otherwise verifies with dss, eddsa, schnorr and crypto/ed25519 under the distributed key and is byte-identical at every participant. Exploration only.",
  note="Trusted: crypto/ed25519, rapid. Distributed keys come from harness dealer polynomials (quick) and additionally from real Pedersen/Rabin DKG runs (thorough).", ref="4/C12")
CHECKS["C14"] = dict(technique="property-based testing (rapid): grammar-based generation of Or-of-And-of-Rep predicate trees with shared variables; completeness + ten negative families; interactive deniable prover driven in lock step by a harness relay",
  text="Generated predicate trees (up to 4 Or-branches x 4 Reps x 3 terms, shared scalar/base names), satisfying assignments, branch choices, optional truth of other branches, three groups: HashProve/HashVerify must accept; a falsified secret, any single bit flip, any truncation, replaced points/bases, dropped terms, reordered branches, another protocol name and spliced honest proofs must be rejected; the deniable clique protocol with 2..4 participants accepts honest proofs and rejects a participant with a falsified secret. Exploration only.",
  note="Trusted: rapid. Soundness only against the listed families (no knowledge extractor); a 'falsified' assignment that still satisfies the statement (cancelling bases) is recognised and skipped.", ref="4/C14")
CHECKS["C15"] = dict(technique="property-based testing (rapid): honest shuffles over generated permutations (all permutations enumerated for small k) + adversarial output families + a malicious prover forging transcripts against the verifier's equations",
  text="Pair shuffle, Shuffle, SequencesShuffle, Biffle and SimpleShuffle are proven and verified on generated ElGamal vectors; 14 tamper families on outputs, parameters and proof bytes must be rejected; a harness-written malicious prover produces transcripts satisfying the pair-shuffle verifier's linear checks for outputs that are sums, scalar multiples or arbitrary invertible linear images of the input and must be rejected; all k! permutations are enumerated for k<=4 (thorough 5). Exploration only.",
  note="Trusted: rapid; the forger relies on harness structs mirroring the proof message layout. Soundness is only claimed against the listed adversary families.", ref="4/C15")
CHECKS["C10"] = dict(technique="property-based testing (rapid): model-based generated protocol histories (faulty deals through the real encryption path, valid/forged/Byzantine responses, good/bad justifications, timeouts) with invariants evaluated after every step on every party",
  text="For both VSS variants the harness plays dealer, network and Byzantine parties: per-verifier deal faults (11 kinds) are encrypted by the dealer's own code, responses of 8 kinds and justifications of 5 kinds are delivered in generated orders with duplicates and timeouts; a harness model of each party's accepted history decides, independently of the library's return values, which messages are valid; after every step: approvals only for valid deals, certified => >= t valid approvals/justified complaints and no incorrect justification, documented completeness, certified => recoverable; plus all-honest runs with generated delivery orders. Exploration only.",
  note="Trusted: rapid; the harness' own polynomial/commitment check (self-checked on an honest deal at start-up). No hook was needed: Dealer.PlaintextDeal returns the dealer's own deal, which is edited before EncryptedDeal. Justification signatures are not authenticated by the VSS layer and are not in the fault menu.", ref="4/C10")
CHECKS["C11"] = dict(technique="property-based testing (rapid): generated Byzantine fault assignments and per-node delivery permutations for Pedersen DKG (generator level, resharing, Protocol driver under a harness-owned scheduler) and Rabin DKG, with an agreement/consistency oracle on the honest outputs",
  text="Three harnesses share one output oracle (identical commitments and QUAL, shares on the agreed polynomial, t shares reconstruct the key, key = sum of QUAL contributions / unchanged after resharing, cheating or malformed dealers out of QUAL, honest dealers in, all-honest => everybody completes): (a) Pedersen DistKeyGenerator with up to n-t Byzantine nodes rewriting their bundles from an 18-entry menu and per-node delivery permutations, fresh and resharing to five group shapes, fast-sync on/off; (b) the Protocol driver run under a harness Board/Phaser that hands one packet or tick to one node at a time (barrier via the no-op InitPhase tick), with forged, equivocating, duplicated packets; (c) Rabin DKG message passing with Byzantine dealers built from the public VSS API. Exploration only.",
  note="Trusted: rapid; synchrony assumption (packets of a phase reach everybody before the next tick); a 30 s wall-clock guard only yields 'inconclusive'. Two open known findings are excluded by configuration and reported as KNOWN-FINDING (fast-sync equivocation order dependence; Rabin unjustified complaint keeps dealer in QUAL).", ref="4/C11")
NOT_YET = {}

def main():
    props = [json.loads(l) for l in open(os.path.join(ROOT, "properties.jsonl"))]
    checks, na = [], []
    for p in props:
        pid = p["id"]
        if pid in CHECKS:
            c = CHECKS[pid]
            checks.append({
                "property_id": pid,
                "quick_cmd": "./check %s --tier quick" % pid,
                "thorough_cmd": "./check %s --tier thorough" % pid,
                "evidence_file": "evidence/%s.json" % pid,
                "replay_cmd_template": "./check %s --replay {path}" % pid,
                "engine": "harness",
                "level_claimed": {"category": "exploration", "text": c["text"], "design_ref": "DESIGN.md §" + c["ref"]},
                "level_note": c["note"],
                "technique": c["technique"],
            })
        else:
            na.append({"property_id": pid, "reason": NOT_YET.get(pid, "check not built yet in this session (work in progress); property-based testing applies, see DESIGN.md §4")})
    m = {
        "version": 1,
        "setup_cmd": "./setup.sh",
        "hooks": {"guard": "verif", "enable": "go test -tags verif (the harness test binaries are always built with -tags verif)",
                  "baseline_off_cmd": BASE, "source_commits": [], "add_only": True},
        "engines": [{"name": "harness", "path": "harness/", "serves_properties": sorted(CHECKS),
                     "kind_free_text": "one Go test package driven by ./check: pgregory.net/rapid v1.3.0 properties and state machines, native go fuzz targets (thorough C04), Go race detector (C20); reference models in math/big, crypto/ed25519, x/crypto"}],
        "checks": checks,
        "notes": "All checks: ./check <id> --tier quick|thorough; VERIF_SEED selects the rapid seeds; exit 0 held / 1 VIOLATION / 2 infrastructure. Known findings: known_findings.json.",
        "not_applicable": na,
    }
    json.dump(m, open(os.path.join(ROOT, "MANIFEST.json"), "w"), indent=1)

if __name__ == "__main__":
    main()
