package harness

// C01 — abelian-group and scalar-action laws in every exposed group; each identity is computed
// along two different API paths, and (where a model exists) compared with the reference model.

import (
	"bytes"
	"fmt"
	"math/big"
	"testing"

	"go.dedis.ch/kyber/v4"
	"pgregory.net/rapid"
)

type lawCtx struct {
	t   *rapid.T
	ev  *evProp
	gi  *GroupInfo
	ctx string
}

// eq asserts x == y by Equal (both directions) and by identical encodings.
func (l *lawCtx) eq(law string, x, y kyber.Point) {
	bx, by := mustMarshal(l.t, x), mustMarshal(l.t, y)
	if !x.Equal(y) || !y.Equal(x) || !bytes.Equal(bx, by) {
		violationOrKnown(l.t, l.ev, fmt.Sprintf("C01/%s/%s", l.gi.Name, law),
			"law %s broken: lhs=%x rhs=%x Equal=%v/%v\n%s", law, bx, by, x.Equal(y), y.Equal(x), l.ctx)
	}
}

func (l *lawCtx) ref(law string, got kyber.Point, want []byte) {
	if b := mustMarshal(l.t, got); !bytes.Equal(b, want) {
		violationOrKnown(l.t, l.ev, fmt.Sprintf("C01/%s/model.%s", l.gi.Name, law),
			"%s disagrees with the reference model: library=%x model=%x\n%s", law, b, want, l.ctx)
	}
}

func c01Case(t *rapid.T, ev *evProp, gi *GroupInfo) {
	g := gi.G
	a, b := genScalar(t, gi, "a"), genScalar(t, gi, "b")
	P, Q, R := genPoint(t, gi, "P"), genPoint(t, gi, "Q"), genPoint(t, gi, "R")
	if rapid.IntRange(0, 5).Draw(t, "same") == 0 {
		Q = PVal{P: markVT(gi, P.P.Clone()), Class: "same", Desc: P.Desc, Edge: true}
	}
	l := &lawCtx{t: t, ev: ev, gi: gi}
	l.ctx = fmt.Sprintf("group=%s a=%s b=%s P=%s Q=%s R=%s", gi.Name, a, b, P.Desc, Q.Desc, R.Desc)
	// receivers: fresh, or "used" - already holding an unrelated non-identity value, which every
	// operation must overwrite completely (an early return that leaves the receiver alone, or an
	// accumulation that starts from the receiver's old content, only shows there)
	used := rapid.IntRange(0, 2).Draw(t, "usedreceivers") == 0
	l.ctx += fmt.Sprintf(" usedReceivers=%v", used)
	junk := []kyber.Point{R.P, Q.P, P.P}
	nrecv := 0
	pt := func() kyber.Point {
		p := markVT(gi, g.Point())
		if used {
			nrecv++
			if nrecv%3 == 0 {
				// a receiver that got its old value by decoding
				if b, err := junk[nrecv%len(junk)].MarshalBinary(); err == nil && p.UnmarshalBinary(b) == nil {
					return p
				}
			}
			p.Set(junk[nrecv%len(junk)])
			p.Add(p, junk[(nrecv+1)%len(junk)])
		}
		return p
	}
	O := nullPoint(gi)
	B := basePoint(gi)

	// identity, inverses
	l.eq("P+O=P", pt().Add(P.P, O), P.P)
	l.eq("O+P=P", pt().Add(O, P.P), P.P)
	l.eq("P-P=O", pt().Sub(P.P, P.P), O)
	negP := pt().Neg(P.P)
	l.eq("P+(-P)=O", pt().Add(P.P, negP), O)
	l.eq("-(-P)=P", pt().Neg(negP), P.P)
	l.eq("-O=O", pt().Neg(O), O)
	// commutativity, associativity
	pq := pt().Add(P.P, Q.P)
	l.eq("P+Q=Q+P", pq, pt().Add(Q.P, P.P))
	l.eq("(P+Q)+R=P+(Q+R)", pt().Add(pq, R.P), pt().Add(P.P, pt().Add(Q.P, R.P)))
	l.eq("P-Q=P+(-Q)", pt().Sub(P.P, Q.P), pt().Add(P.P, pt().Neg(Q.P)))
	// doubling inside addition
	two, three := g.Scalar().SetInt64(2), g.Scalar().SetInt64(3)
	pp := pt().Add(P.P, P.P)
	l.eq("P+P=2P", pp, pt().Mul(two, P.P))
	l.eq("P+P+P=3P", pt().Add(pp, P.P), pt().Mul(three, P.P))
	// scalar action
	aP, bP := pt().Mul(a.S, P.P), pt().Mul(b.S, P.P)
	l.eq("(a+b)P=aP+bP", pt().Mul(g.Scalar().Add(a.S, b.S), P.P), pt().Add(aP, bP))
	l.eq("a(bP)=(ab)P", pt().Mul(a.S, bP), pt().Mul(g.Scalar().Mul(a.S, b.S), P.P))
	l.eq("a(P+Q)=aP+aQ", pt().Mul(a.S, pq), pt().Add(aP, pt().Mul(a.S, Q.P)))
	l.eq("(-a)P=-(aP)", pt().Mul(g.Scalar().Neg(a.S), P.P), pt().Neg(aP))
	l.eq("0P=O", pt().Mul(g.Scalar().Zero(), P.P), O)
	l.eq("1P=P", pt().Mul(g.Scalar().One(), P.P), P.P)
	l.eq("aO=O", pt().Mul(a.S, O), O)
	if gi.PrimeOrder {
		qm1 := scalarFromBig(g, new(big.Int).Sub(gi.Order, big1))
		l.eq("(q-1)P=-P", pt().Mul(qm1, P.P), negP)
	}
	if gi.MulNil {
		l.eq("Mul(a,nil)=Mul(a,Base)", pt().Mul(a.S, nil), pt().Mul(a.S, B))
	}
	// the same laws with the receiver aliasing an operand (documented use: "P.Add(P, Q)")
	// (the aliased receiver is a clone of P, or an object that obtained P's value by DECODING its
	// encoding - an implementation that keeps something from the decoding, e.g. the wire bytes, must
	// drop it in every operation that changes the value)
	encP := mustMarshal(t, P.P)
	aliasDecoded := rapid.Bool().Draw(t, "aliasdecoded")
	l.ctx += fmt.Sprintf(" aliasDecoded=%v", aliasDecoded)
	al := func() kyber.Point {
		if aliasDecoded {
			p := markVT(gi, g.Point())
			if err := p.UnmarshalBinary(encP); err == nil {
				return p
			}
		}
		return markVT(gi, P.P.Clone())
	}
	var r1 kyber.Point
	r1 = al()
	l.eq("r=P; r.Add(r,Q)", r1.Add(r1, Q.P), pq)
	r1 = al()
	l.eq("r=P; r.Add(Q,r)", r1.Add(Q.P, r1), pq)
	pmq, qmp := pt().Add(P.P, pt().Neg(Q.P)), pt().Add(Q.P, negP)
	r1 = al()
	l.eq("r=P; r.Sub(r,Q)", r1.Sub(r1, Q.P), pmq)
	r1 = al()
	l.eq("r=P; r.Sub(Q,r)", r1.Sub(Q.P, r1), qmp)
	r1 = al()
	l.eq("r=P; r.Add(r,r)", r1.Add(r1, r1), pp)
	r1 = al()
	l.eq("r=P; r.Sub(r,r)", r1.Sub(r1, r1), O)
	r1 = al()
	l.eq("r=P; r.Neg(r)", r1.Neg(r1), negP)
	r1 = al()
	l.eq("r=P; r.Mul(a,r)", r1.Mul(a.S, r1), aP)
	// reference model
	if r := refFor(gi); r != nil {
		mp, err1 := r.Decode(mustMarshal(t, P.P))
		mq, err2 := r.Decode(mustMarshal(t, Q.P))
		if err1 != nil || err2 != nil {
			violationOrKnown(t, ev, fmt.Sprintf("C01/%s/model.decode", gi.Name), "the model cannot decode a library point: %v %v\n%s", err1, err2, l.ctx)
		} else {
			l.ref("P+Q", pq, r.Encode(r.Add(mp, mq)))
			l.ref("-P", negP, r.Encode(r.Neg(mp)))
			l.ref("aP", aP, r.Encode(r.Mul(a.V, mp)))
			l.ref("2P", pp, r.Encode(r.Add(mp, mp)))
			if gi.MulNil && r.HasBase() {
				l.ref("aB", pt().Mul(a.S, nil), r.Encode(r.Mul(a.V, r.Base())))
			}
		}
	}
	nontrivial := isEdgeClass(a.Class) || isEdgeClass(b.Class) || P.Edge || Q.Edge || R.Edge || P.NonN || Q.NonN || R.NonN || Q.Class == "same"
	if why := constantsIntact(gi); why != "" {
		violationOrKnown(t, ev, "C01/"+gi.Name+"/constant-corrupted", "a group constant has changed: %s\n%s", why, l.ctx)
	}
	ev.Case(nontrivial, l.ctx, "group:"+gi.Name, "a:"+a.Class, "b:"+b.Class, "P:"+P.Class, "Q:"+Q.Class)
}

const c01Rule = "case = (group, scalars a,b from edge-biased classes {0,1,2,q-1,q-2,(q±1)/2,2^k,2^k±1 on limb/window boundaries,leading-zero,short,window patterns,uniform}, " +
	"points P,Q,R from {O,B,-B,k*B,a*B,Pick,Embed,Hash,decoded,sum/diff/double/multiple of earlier points, pairing outputs for GT}, Q=P forced in 1/6 of cases); " +
	"24 identities (+8 with the receiver aliasing an operand; in 1/3 of the cases every receiver already holds an unrelated value) are evaluated per case, each asserted by Equal in both directions and by identical encodings, plus 5 comparisons with the math/big reference model where one exists. " +
	"non-trivial = an operand is an edge value, P=Q, or an operand is the result of earlier arithmetic (non-normalised internals); distinct = distinct rendered case" +
	" Added after the sensitivity rounds: registry includes a cofactor-R>2 residue group and 'short coordinate' multiples of B; after every case values obtained from Base()/Null() are overwritten in place and the constants are compared with encodings recorded at process start."

func TestC01_Laws(t *testing.T) {
	ev := evFor("C01")
	ev.Rule(c01Rule)
	ev.Assume("points are compared through Equal and MarshalBinary; unsupported operations (Kilic GT Base/Pick/Mul(nil)) are not generated; (q-1)P=-P only asserted for prime-order instances")
	groups := Groups(tier() == "thorough")
	for i, gi := range groups {
		if !mine(i) {
			continue
		}
		gi := gi
		q, th := 250, 5000
		if gi.Role == 3 {
			q, th = 60, 800 // GT exponentiations are milliseconds each
		} else if gi.Role == 2 || gi.Family == "qr512" || gi.Extra {
			q, th = 120, 2000
		}
		t.Run(gi.Name, func(t *testing.T) {
			rcheck(t, q*shards(), th*shards(), func(t *rapid.T) { c01Case(t, ev, gi) })
		})
	}
}

// TestC01_ModelSelf: start-up self check of the reference models against the library generators
// (a mismatch is a harness error, not a violation).
func TestC01_ModelSelf(t *testing.T) {
	for _, gi := range Groups(true) {
		r := refFor(gi)
		if r == nil || !r.HasBase() {
			continue
		}
		if !r.OnCurve(r.Base()) || !r.InSubgroup(r.Base()) {
			fmt.Printf("HARNESS-ERROR: model generator of %s is not on the curve / in the subgroup\n", gi.Name)
			t.Fatalf("model self-check failed for %s", gi.Name)
		}
		if gi.HasBase {
			if got := mustMarshal(t, gi.G.Point().Base()); !bytes.Equal(got, r.Encode(r.Base())) {
				fmt.Printf("HARNESS-ERROR: model generator encoding of %s differs from the library's: %x vs %x\n", gi.Name, r.Encode(r.Base()), got)
				t.Fatalf("model self-check failed for %s", gi.Name)
			}
		}
	}
}
