package harness

// C02 (extension after the coverage survey of round 10): the methods of mod.Int beyond the
// kyber.Scalar interface that the anchors name (LittleEndian / reverse) or that compute
// on residues (SetUint64, Exp, Sqrt, Cmp, Nonzero, Uint64 / Int64 when representable), against
// math/big.  Jacobi is deliberately absent: it stores -1 unreduced for a non-residue; BigEndian is not asserted either (DESIGN §6.3).
// Everything is reached through interface assertions, so the file compiles in the constantTime
// flavour too, where only the methods that exist there are exercised.

import (
	"bytes"
	"fmt"
	"math"
	"math/big"
	"testing"

	"go.dedis.ch/kyber/v4"
	"go.dedis.ch/kyber/v4/compatible"
	"go.dedis.ch/kyber/v4/group/mod"
	"pgregory.net/rapid"
)

func c02Extras(t *rapid.T, ev *evProp, si *scalarImpl) {
	q := si.Q
	mk := func(v *big.Int) *mod.Int {
		s := si.New().SetBytes(bigToBytes(v, si.Len, si.LE))
		return s.(*mod.Int)
	}
	av, acls := genBig(t, q, "a")
	bv, _ := genBig(t, q, "b")
	a, b := mk(av), mk(bv)
	r := mk(bv) // a USED receiver
	op := rapid.SampledFrom([]string{"SetUint64", "Exp", "Exp", "Sqrt", "Cmp", "Endian", "Endian", "Int64"}).Draw(t, "xop")
	ctx := fmt.Sprintf("%s %s a=%x b=%x", si.Name, op, av, bv)
	fail := func(format string, args ...any) {
		violationOrKnown(t, ev, fmt.Sprintf("C02/%s/%s/extras-%s", buildFlavour, si.Name, op), format+"\n"+ctx, args...)
	}
	val := func(s kyber.Scalar) *big.Int { return scalarToBig(s) }
	pn := safelyCT(func() {
		switch op {
		case "SetUint64":
			v := rapid.SampledFrom([]uint64{0, 1, math.MaxUint64, math.MaxUint64 - 1, 1 << 63, 1<<63 - 1, 1 << 32, 1<<32 - 1, 255, 256}).Draw(t, "u64")
			if rapid.Bool().Draw(t, "u64any") {
				v = rapid.Uint64().Draw(t, "u64v")
			}
			ret := r.SetUint64(v)
			want := new(big.Int).Mod(new(big.Int).SetUint64(v), q)
			if val(r).Cmp(want) != 0 || val(ret).Cmp(want) != 0 {
				fail("SetUint64(%d) = %x, want %x", v, val(r), want)
			}
			if want.IsUint64() && r.Uint64() != want.Uint64() {
				fail("Uint64() = %d for residue %x", r.Uint64(), want)
			}
		case "Int64":
			if av.IsInt64() && a.Int64() != av.Int64() {
				fail("Int64() = %d for residue %x", a.Int64(), av)
			}
			if av.IsUint64() && a.Uint64() != av.Uint64() {
				fail("Uint64() = %d for residue %x", a.Uint64(), av)
			}
			if a.Nonzero() != (av.Sign() != 0) {
				fail("Nonzero() = %v for residue %x", a.Nonzero(), av)
			}
		case "Cmp":
			if got, want := a.Cmp(b), av.Cmp(bv); got != want {
				fail("Cmp = %d, want %d", got, want)
			}
			if a.Cmp(mk(av)) != 0 {
				fail("Cmp with an equal value is not 0")
			}
		case "Exp":
			if buildFlavour != "default" {
				return // the exponent type of the constantTime build has its own domain
			}
			var e *big.Int
			switch rapid.SampledFrom([]string{"edge", "edge", "q-1", "q", "q+1", "long"}).Draw(t, "ecls") {
			case "edge":
				e = big.NewInt(int64(rapid.SampledFrom([]int{0, 1, 2, 3, 4, 16, 255, 256, 65537}).Draw(t, "esmall")))
			case "q-1":
				e = new(big.Int).Sub(q, big1)
			case "q":
				e = new(big.Int).Set(q)
			case "q+1":
				e = new(big.Int).Add(q, big1)
			default:
				e = new(big.Int).SetBytes(rapid.SliceOfN(rapid.Byte(), 1, 80).Draw(t, "ebytes"))
			}
			want := new(big.Int).Exp(av, e, q)
			ce := compatible.FromBigInt(new(big.Int).Set(e), a.GroupOrder())
			ret := r.Exp(a, ce)
			if val(r).Cmp(want) != 0 || val(ret).Cmp(want) != 0 {
				fail("Exp(a, %x) = %x, want %x", e, val(r), want)
			}
			// in place: a = a^e
			a.Exp(a, ce)
			if val(a).Cmp(want) != 0 {
				fail("a.Exp(a, %x) = %x, want %x", e, val(a), want)
			}
			if ce.ToBigInt().Cmp(e) != 0 {
				fail("Exp changed its exponent argument")
			}
		case "Sqrt":
			sq, ok := any(r).(interface{ Sqrt(kyber.Scalar) bool })
			if !ok || !si.Prime || q.Bit(0) == 0 {
				return
			}
			// half of the cases: a known square
			if rapid.Bool().Draw(t, "square") {
				av = new(big.Int).Mod(new(big.Int).Mul(bv, bv), q)
				a = mk(av)
			}
			isSq := av.Sign() == 0 || big.Jacobi(av, q) == 1
			got := sq.Sqrt(a)
			if got != isSq {
				fail("Sqrt(%x) reports %v, Euler criterion says %v", av, got, isSq)
			} else if got {
				rv := val(r)
				if rv.Cmp(q) >= 0 || new(big.Int).Mod(new(big.Int).Mul(rv, rv), q).Cmp(av) != 0 {
					fail("Sqrt(%x) = %x, whose square is not the argument", av, rv)
				}
			}
			if val(a).Cmp(av) != 0 {
				fail("Sqrt changed its argument")
			}
		case "Endian":
			minB := rapid.IntRange(0, si.Len+9).Draw(t, "min")
			// (BigEndian is not asserted: it left-aligns values shorter than the modulus - value 1 over a
			// 32-byte modulus comes out as 01 00..00 - on the pinned tree and upstream alike; it is not
			// used by the library and is outside C02's statement, see DESIGN 6.3)
			le := a.LittleEndian(minB, 0)
			rev := append([]byte(nil), le...)
			reverseBytes(rev)
			if new(big.Int).SetBytes(rev).Cmp(av) != 0 || len(le) < minB {
				fail("LittleEndian(%d,0) = %x", minB, le)
			}
			// the returned slice is the caller's
			for i := range le {
				le[i] ^= 0xff
			}
			if val(a).Cmp(av) != 0 {
				fail("overwriting the slice returned by LittleEndian changed the value")
			}
			if le2 := a.LittleEndian(si.Len, si.Len); len(le2) != si.Len {
				fail("LittleEndian(%d,%d) has %d bytes", si.Len, si.Len, len(le2))
			}
			enc, _ := a.MarshalBinary()
			want := bigToBytes(av, si.Len, si.LE)
			if !bytes.Equal(enc, want) {
				fail("MarshalBinary = %x, want %x", enc, want)
			}
		}
	})
	if pn != "" {
		fail("panicked: %s", pn)
	}
	ev.Case(isEdgeClass(acls), ctx, "modint-extra:"+op, "impl:"+si.Name)
}

func TestC02_ModIntExtras(t *testing.T) {
	ev := evFor("C02")
	var impls []*scalarImpl
	for _, si := range scalarImpls() {
		if _, ok := si.New().(*mod.Int); ok {
			impls = append(impls, si)
		}
	}
	if len(impls) == 0 {
		t.Skip("no mod.Int implementation in this build")
	}
	rcheck(t, 4000, 400000, func(t *rapid.T) {
		c02Extras(t, ev, impls[uniformInt(t, 0, len(impls)-1, "impl")])
	})
}
