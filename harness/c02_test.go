package harness

// C02 — every scalar implementation behaves exactly as Z_q.  A generated program over three
// registers runs in lock-step with a math/big model; after every step every register must encode
// the model residue in canonical form and Equal must coincide with residue equality.
// This file carries no build tag: it runs in the default and in the constantTime flavour.

import (
	"bytes"
	"crypto/cipher"
	"fmt"
	"math"
	"math/big"
	"strings"
	"sync"
	"testing"

	"go.dedis.ch/kyber/v4"
	"go.dedis.ch/kyber/v4/compatible/compatiblemod"
	"go.dedis.ch/kyber/v4/group/mod"
	"pgregory.net/rapid"
)

type scalarImpl struct {
	Name  string
	New   func() kyber.Scalar
	Q     *big.Int
	LE    bool
	Len   int
	Prime bool
	Extra bool
}

var (
	simplOnce sync.Once
	simpls    []*scalarImpl
)

func scalarImpls() []*scalarImpl {
	simplOnce.Do(func() {
		seen := map[string]bool{}
		for _, gi := range Groups(true) {
			gi := gi
			s := gi.G.Scalar()
			key := fmt.Sprintf("%T/%s/%v", s, gi.Order.String(), scalarLE(s))
			if seen[key] {
				continue
			}
			seen[key] = true
			simpls = append(simpls, &scalarImpl{Name: "group:" + gi.Name, New: gi.G.Scalar, Q: gi.Order, LE: gi.LE,
				Len: gi.G.ScalarLen(), Prime: gi.PrimeOrder, Extra: gi.Extra})
		}
		p521 := new(big.Int).Sub(pow2(521), big1)
		p25519 := new(big.Int).Sub(pow2(255), big.NewInt(19))
		p128 := hexBig("ffffffffffffffffffffffffffffff61") // 2^128 - 159, prime
		for _, m := range []struct {
			n string
			q *big.Int
		}{{"7", big.NewInt(7)}, {"65537", big.NewInt(65537)}, {"p128", p128}, {"p521", p521}, {"2^255-19", p25519},
			{"ed25519-L", ordEd25519}, {"p256-N", ordP256}, {"bls-r", ordBLS}} {
			for _, le := range []bool{false, true} {
				q, le := m.q, le
				bo := kyber.BigEndian
				nm := "mod.Int[" + m.n + ",BE]"
				if le {
					bo = kyber.LittleEndian
					nm = "mod.Int[" + m.n + ",LE]"
				}
				simpls = append(simpls, &scalarImpl{Name: nm, Q: q, LE: le, Len: (q.BitLen() + 7) / 8, Prime: true,
					New: func() kyber.Scalar {
						return mod.NewIntBytes(nil, compatiblemod.FromBigInt(new(big.Int).Set(q)), bo)
					}})
			}
		}
	})
	var out []*scalarImpl
	for _, s := range simpls {
		if s.Extra && tier() != "thorough" {
			continue
		}
		out = append(out, s)
	}
	return out
}

// recStream records the key-stream bytes an implementation actually consumed.
type recStream struct {
	inner    cipher.Stream
	consumed []byte
}

func (r *recStream) XORKeyStream(dst, src []byte) {
	in := append([]byte(nil), src...)
	r.inner.XORKeyStream(dst, src)
	for i := range in {
		r.consumed = append(r.consumed, dst[i]^in[i])
	}
}

// replayStream yields the given bytes and then zeros.
type replayStream struct {
	buf []byte
	pos int
}

func (r *replayStream) XORKeyStream(dst, src []byte) {
	for i := range src {
		var k byte
		if r.pos < len(r.buf) {
			k = r.buf[r.pos]
		}
		r.pos++
		dst[i] = src[i] ^ k
	}
}

// prefixStream yields a fixed adversarial prefix and then the tail stream.
type prefixStream struct {
	prefix []byte
	pos    int
	tail   cipher.Stream
}

func (p *prefixStream) XORKeyStream(dst, src []byte) {
	i := 0
	for ; i < len(src) && p.pos < len(p.prefix); i++ {
		dst[i] = src[i] ^ p.prefix[p.pos]
		p.pos++
	}
	if i < len(src) {
		p.tail.XORKeyStream(dst[i:], src[i:])
	}
}

func genStream(t *rapid.T, label string, q *big.Int) (func() cipher.Stream, string) {
	seed := genSeed(t, label+".seed")
	kind := rapid.SampledFrom([]string{"xof", "xof", "zeros+xof", "ff+xof", "q+xof", "ff00+xof"}).Draw(t, label+".kind")
	n := rapid.IntRange(1, 200).Draw(t, label+".plen")
	var prefix []byte
	switch kind {
	case "zeros+xof":
		prefix = make([]byte, n)
	case "ff+xof":
		prefix = bytes.Repeat([]byte{0xff}, n)
	case "ff00+xof":
		// every 16th byte 0xff, zeros between: candidates whose top byte is maximal while the raw draw
		// is far below the modulus (a range check on the raw bytes passes, one on the final candidate
		// with data spliced in would not)
		prefix = make([]byte, n)
		for i := 0; i < n; i += 16 {
			prefix[i] = 0xff
		}
	case "q+xof":
		// repeated big-endian encodings of q + small k: forces the rejection loops to retry
		k := rapid.IntRange(0, 3).Draw(t, label+".k")
		enc := new(big.Int).Add(q, big.NewInt(int64(k))).Bytes()
		for len(prefix) < n {
			prefix = append(prefix, enc...)
		}
	}
	desc := fmt.Sprintf("%s(seed=%x,prefix=%d)", kind, seed, len(prefix))
	return func() cipher.Stream {
		if prefix == nil {
			return xofStream(seed)
		}
		return &prefixStream{prefix: prefix, tail: xofStream(seed)}
	}, desc
}

func genSetBytesInput(t *rapid.T, si *scalarImpl, label string) ([]byte, string) {
	kind := rapid.SampledFrom([]string{"empty", "random", "random", "canonical", "padded", "overlong", "ff", "short", "q", "q±"}).Draw(t, label+".kind")
	var be []byte // big-endian rendering; reversed at the end for LE implementations
	switch kind {
	case "empty":
	case "random":
		n := rapid.IntRange(0, 96).Draw(t, label+".n")
		be = rapid.SliceOfN(rapid.Byte(), n, n).Draw(t, label+".b")
	case "canonical":
		v, _ := genBig(t, si.Q, label+".v")
		be = bigToBytes(v, si.Len, false)
	case "padded":
		v, _ := genBig(t, si.Q, label+".v")
		pad := rapid.IntRange(1, 96-si.Len).Draw(t, label+".pad")
		be = append(make([]byte, pad), bigToBytes(v, si.Len, false)...)
	case "overlong":
		v, _ := genBig(t, si.Q, label+".v")
		k := new(big.Int).SetBytes(rapid.SliceOfN(rapid.Byte(), 1, 24).Draw(t, label+".k"))
		w := new(big.Int).Add(v, new(big.Int).Mul(k, si.Q))
		be = w.Bytes()
		if len(be) > 96 {
			be = be[len(be)-96:]
		}
	case "ff":
		n := rapid.IntRange(1, 96).Draw(t, label+".n")
		be = bytes.Repeat([]byte{0xff}, n)
	case "short":
		n := rapid.IntRange(1, max(1, si.Len-1)).Draw(t, label+".n")
		be = rapid.SliceOfN(rapid.Byte(), n, n).Draw(t, label+".b")
	case "q":
		be = si.Q.Bytes()
	case "q±":
		d := rapid.IntRange(-2, 2).Draw(t, label+".d")
		be = new(big.Int).Add(si.Q, big.NewInt(int64(d))).Bytes()
	}
	b := append([]byte(nil), be...)
	if si.LE {
		reverseBytes(b)
	}
	return b, kind
}

var int64Edges = []int64{0, 1, -1, 2, -2, math.MaxInt64, math.MinInt64, math.MaxInt64 - 1, math.MinInt64 + 1, 1 << 32, -(1 << 32), 1<<31 - 1, -(1 << 31), 1 << 62, 255, 256, -255, -256}

func c02Program(t *rapid.T, ev *evProp, si *scalarImpl) {
	const nreg = 3
	regs := make([]kyber.Scalar, nreg)
	model := make([]*big.Int, nreg)
	for i := range regs {
		regs[i] = si.New()
		v, _ := genBig(t, si.Q, fmt.Sprintf("init%d", i))
		regs[i].SetBytes(bigToBytes(v, si.Len, si.LE))
		model[i] = v
	}
	history := []string{fmt.Sprintf("init %x %x %x", model[0], model[1], model[2])}
	ops := []string{"SetBytes", "SetBytes", "SetInt64", "Zero", "One", "Set", "Clone", "Add", "Sub", "Neg", "Mul", "Div", "Inv", "Pick", "Add", "Sub", "Mul"}
	nsteps := rapid.IntRange(1, 8).Draw(t, "nsteps")
	var kept []keptEnc
	nontrivial := false
	var labels []string
	ri := func(l string) int { return rapid.IntRange(0, nreg-1).Draw(t, l) }
	q := si.Q
	fail := func(op string, format string, args ...any) bool {
		return violationOrKnown(t, ev, fmt.Sprintf("C02/%s/%s/%s", buildFlavour, si.Name, op),
			format+"\nprogram:\n  "+strings.Join(history, "\n  "), args...)
	}
	for step := 0; step < nsteps; step++ {
		op := rapid.SampledFrom(ops).Draw(t, "op")
		r := ri("r")
		var desc string
		func() {
			defer func() {
				if p := recover(); p != nil {
					if isRapidPanic(p) {
						panic(p)
					}
					history = append(history, desc+" <- PANIC")
					if fail(op, "%s panicked: %v", op, p) {
						for i := range regs {
							regs[i] = si.New().SetBytes(bigToBytes(model[i], si.Len, si.LE))
						}
					}
				}
			}()
			switch op {
			case "SetBytes":
				b, kind := genSetBytesInput(t, si, "sb")
				want := new(big.Int).Mod(bytesToBig(b, si.LE), q)
				in := append([]byte(nil), b...)
				ret := regs[r].SetBytes(b)
				model[r] = want
				desc = fmt.Sprintf("R%d.SetBytes[%s](%x)", r, kind, in)
				if !bytes.Equal(in, b) {
					history = append(history, desc)
					fail(op, "SetBytes modified its input slice: %x -> %x", in, b)
				}
				for j := range b { // the slice is the caller's again: the scalar must not have kept it
					b[j] ^= 0xff
				}
				if ret != regs[r] {
					// value semantics are C05's business; here only the value matters
					_ = ret
				}
				if len(b) != si.Len {
					nontrivial = true
				}
				labels = append(labels, "setbytes:"+kind)
			case "SetInt64":
				var v int64
				if rapid.Bool().Draw(t, "edge") {
					v = rapid.SampledFrom(int64Edges).Draw(t, "v")
					nontrivial = true
				} else {
					v = rapid.Int64().Draw(t, "v")
				}
				regs[r].SetInt64(v)
				model[r] = new(big.Int).Mod(big.NewInt(v), q)
				desc = fmt.Sprintf("R%d.SetInt64(%d)", r, v)
			case "Zero":
				regs[r].Zero()
				model[r] = big.NewInt(0)
				desc = fmt.Sprintf("R%d.Zero()", r)
			case "One":
				regs[r].One()
				model[r] = new(big.Int).Mod(big1, q)
				desc = fmt.Sprintf("R%d.One()", r)
			case "Set":
				a := ri("a")
				regs[r].Set(regs[a])
				model[r] = new(big.Int).Set(model[a])
				desc = fmt.Sprintf("R%d.Set(R%d)", r, a)
			case "Clone":
				a := ri("a")
				regs[r] = regs[a].Clone()
				model[r] = new(big.Int).Set(model[a])
				desc = fmt.Sprintf("R%d=R%d.Clone()", r, a)
			case "Add", "Sub", "Mul", "Div":
				a, b := ri("a"), ri("b")
				if op == "Div" && !isUnit(model[b], q) {
					op = "Mul"
				}
				var w *big.Int
				switch op {
				case "Add":
					regs[r].Add(regs[a], regs[b])
					w = new(big.Int).Add(model[a], model[b])
				case "Sub":
					regs[r].Sub(regs[a], regs[b])
					w = new(big.Int).Sub(model[a], model[b])
				case "Mul":
					regs[r].Mul(regs[a], regs[b])
					w = new(big.Int).Mul(model[a], model[b])
				case "Div":
					regs[r].Div(regs[a], regs[b])
					w = new(big.Int).Mul(model[a], new(big.Int).ModInverse(model[b], q))
				}
				model[r] = w.Mod(w, q)
				desc = fmt.Sprintf("R%d.%s(R%d,R%d)", r, op, a, b)
			case "Neg", "Inv":
				a := ri("a")
				if op == "Inv" && !isUnit(model[a], q) {
					op = "Neg"
				}
				if op == "Neg" {
					regs[r].Neg(regs[a])
					model[r] = new(big.Int).Mod(new(big.Int).Neg(model[a]), q)
				} else {
					regs[r].Inv(regs[a])
					model[r] = new(big.Int).ModInverse(model[a], q)
				}
				desc = fmt.Sprintf("R%d.%s(R%d)", r, op, a)
			case "Pick":
				mk, sdesc := genStream(t, "st", q)
				rec := &recStream{inner: mk()}
				regs[r].Pick(rec)
				got := scalarToBig(regs[r])
				desc = fmt.Sprintf("R%d.Pick(%s)", r, sdesc)
				history = append(history, desc)
				if got.Cmp(q) >= 0 {
					fail(op, "Pick returned %x >= q", got)
				}
				again := si.New().Pick(mk())
				if scalarToBig(again).Cmp(got) != 0 {
					fail(op, "two picks from equal streams differ: %x vs %x", got, scalarToBig(again))
				}
				rep := si.New().Pick(&replayStream{buf: rec.consumed})
				if scalarToBig(rep).Cmp(got) != 0 {
					fail(op, "Pick is not a function of the %d bytes it consumed: %x vs %x on replay", len(rec.consumed), got, scalarToBig(rep))
				}
				model[r] = new(big.Int).Mod(got, q)
				history = history[:len(history)-1]
				if sdesc[:3] != "xof" {
					nontrivial = true
				}
				labels = append(labels, "pick:"+strings.SplitN(sdesc, "(", 2)[0])
			}
		}()
		history = append(history, desc)
		labels = append(labels, "op:"+op)
		// encodings handed out after earlier steps are the caller's: later operations on the registers
		// must not have changed them
		for _, k := range kept {
			if !bytes.Equal(k.enc, k.snap) {
				fail(op, "after step %d (%s): the encoding %x returned by MarshalBinary after step %d now reads %x", step, desc, k.snap, k.step, k.enc)
				copy(k.enc, k.snap)
			}
		}
		// invariants on every register
		for i := range regs {
			enc, err := regs[i].MarshalBinary()
			if err != nil {
				fail(op, "MarshalBinary of R%d failed: %v", i, err)
				continue
			}
			kept = append(kept, keptEnc{enc, append([]byte(nil), enc...), step})
			if len(enc) != si.Len || regs[i].MarshalSize() != si.Len {
				fail(op, "R%d encodes to %d bytes (MarshalSize %d), ScalarLen is %d", i, len(enc), regs[i].MarshalSize(), si.Len)
			}
			got := bytesToBig(enc, si.LE)
			if got.Cmp(model[i]) != 0 {
				if violationOrKnownC02(t, ev, si, op, history, "after step %d (%s): R%d = %x, model says %x (q=%x)", step, desc, i, got, model[i], q) {
					regs[i] = si.New().SetBytes(bigToBytes(model[i], si.Len, si.LE))
				}
			}
			for _, m := range model {
				c := m.Cmp(big0) == 0 || m.Cmp(new(big.Int).Sub(q, big1)) == 0 || m.Cmp(big1) == 0
				if c {
					nontrivial = true
				}
			}
		}
		for i := 0; i < nreg; i++ {
			for j := 0; j < nreg; j++ {
				if eq, want := regs[i].Equal(regs[j]), model[i].Cmp(model[j]) == 0; eq != want {
					fail(op, "after step %d (%s): R%d.Equal(R%d)=%v but residues %x and %x", step, desc, i, j, eq, model[i], model[j])
				}
			}
		}
	}
	// ... and the caller may do with them what it wants: overwriting every encoding obtained so far
	// leaves the registers at the model's values
	for _, k := range kept {
		for j := range k.enc {
			k.enc[j] ^= 0xa5
		}
	}
	for i := range regs {
		if enc, err := regs[i].MarshalBinary(); err != nil || bytesToBig(enc, si.LE).Cmp(model[i]) != 0 {
			violationOrKnownC02(t, ev, si, "MarshalBinary", history, "after the caller overwrote the encodings it had been given, R%d = %x, model says %x", i, enc, model[i])
		}
	}
	ev.Case(nontrivial, si.Name+"/"+buildFlavour+": "+strings.Join(history, "; "), append(labels, "impl:"+si.Name+"/"+buildFlavour)...)
}

type keptEnc struct {
	enc, snap []byte
	step      int
}

func violationOrKnownC02(t *rapid.T, ev *evProp, si *scalarImpl, op string, history []string, format string, args ...any) bool {
	return violationOrKnown(t, ev, fmt.Sprintf("C02/%s/%s/%s", buildFlavour, si.Name, op),
		format+"\nprogram:\n  "+strings.Join(history, "\n  "), args...)
}

const c02Rule = "case = (scalar implementation, program of 1..8 steps over 3 registers from {SetBytes(len 0..96: empty/random/canonical/zero-padded/v+k*q/0xff../short/q/q±d), " +
	"SetInt64(edge or random int64), Zero, One, Set, Clone, Add, Sub, Neg, Mul, Div, Inv (invertible divisors), Pick(seeded XOF, optionally behind an all-00/all-ff/q+k prefix)}), " +
	"run in lock-step with math/big; after every step every register must encode (in ByteOrder) exactly the model residue with ScalarLen bytes and Equal must equal residue equality; " +
	"encodings returned after earlier steps stay unchanged and may be overwritten by the caller; Pick must be < q, repeatable and reproducible from exactly the bytes it consumed. non-trivial = a SetBytes whose length differs from ScalarLen, an edge int64, an adversarial stream, or a register holding 0, 1 or q-1; distinct = distinct (impl, program text)" +
	" Added: the slice given to SetBytes is overwritten by the caller afterwards."

func TestC02_Programs(t *testing.T) {
	ev := evFor("C02")
	ev.Rule(c02Rule)
	ev.Assume("Inv/Div are only generated for invertible divisors; random.Bits/Int bias is C19's subject; build flavour " + buildFlavour)
	impls := scalarImpls()
	for i, si := range impls {
		if !mine(i) {
			continue
		}
		si := si
		t.Run(si.Name, func(t *testing.T) {
			rcheck(t, 1500*shards(), 60000*shards(), func(t *rapid.T) { c02Program(t, ev, si) })
		})
	}
}
