//go:build !constantTime

package harness

// C03 (added after sensitivity round 12): the advertised lengths of EVERY shipped curve
// configuration - five parameter sets x {projective, extended} x {prime-order subgroup, full group}
// - agree with the encodings.  The registry carries the Ed25519 configurations in full and the
// other parameter sets in the thorough tier only; a length that is derived from the wrong modulus
// shows on exactly one of the twenty configurations (E-521 full group: Q has 519 bits, 4Q has 521).
// Enumerated, not sampled: it is a finite table.

import (
	"bytes"
	"fmt"
	"math/big"
	"testing"

	"go.dedis.ch/kyber/v4"
	"go.dedis.ch/kyber/v4/group/edwards25519vartime"
)

func TestC03_CurveConfigurations(t *testing.T) {
	ev := evFor("C03")
	params := []func() *edwards25519vartime.Param{edwards25519vartime.ParamEd25519, edwards25519vartime.Param1174,
		edwards25519vartime.ParamE382, edwards25519vartime.Param41417, edwards25519vartime.ParamE521}
	idx := 0
	for _, mk := range params {
		for _, ext := range []bool{false, true} {
			for _, full := range []bool{false, true} {
				idx++
				if !mine(idx) {
					continue
				}
				p := mk()
				var g kyber.Group
				if ext {
					g = new(edwards25519vartime.ExtendedCurve).InitCurve(p, full)
				} else {
					g = new(edwards25519vartime.ProjectiveCurve).Init(p, full)
				}
				name := fmt.Sprintf("%s ext=%v full=%v", p.Name, ext, full)
				key := "C03/edvar-config/" + name
				st := xofStream([]byte("config-" + name))
				order := libOrder(g)
				scalars := []kyber.Scalar{g.Scalar().Zero(), g.Scalar().One(), g.Scalar().Pick(st), g.Scalar().Pick(st),
					scalarFromBig(g, new(big.Int).Sub(order, big1))}
				for _, s := range scalars {
					enc, err := s.MarshalBinary()
					if err != nil || len(enc) != g.ScalarLen() || s.MarshalSize() != g.ScalarLen() {
						violationOrKnown(t, ev, key, "%s: scalar encodes to %d bytes (err=%v), MarshalSize %d, the group advertises ScalarLen %d", name, len(enc), err, s.MarshalSize(), g.ScalarLen())
						continue
					}
					u := g.Scalar()
					if err := u.UnmarshalBinary(enc); err != nil || !u.Equal(s) {
						violationOrKnown(t, ev, key, "%s: scalar round trip failed: %v", name, err)
					}
					// a record of exactly ScalarLen bytes, as a protocol would cut it from a message
					rec := make([]byte, g.ScalarLen())
					copy(rec, enc)
					if err := g.Scalar().UnmarshalBinary(rec); err != nil {
						violationOrKnown(t, ev, key, "%s: a %d-byte (= ScalarLen) record is refused: %v", name, len(rec), err)
					}
				}
				for _, P := range []kyber.Point{g.Point().Null(), g.Point().Base(), g.Point().Pick(st), g.Point().Mul(scalars[2], nil)} {
					enc, err := P.MarshalBinary()
					if err != nil || len(enc) != g.PointLen() || P.MarshalSize() != g.PointLen() {
						violationOrKnown(t, ev, key, "%s: point encodes to %d bytes (err=%v), MarshalSize %d, PointLen %d", name, len(enc), err, P.MarshalSize(), g.PointLen())
						continue
					}
					Q := g.Point()
					if err := Q.UnmarshalBinary(enc); err != nil || !Q.Equal(P) {
						violationOrKnown(t, ev, key, "%s: point round trip failed: %v", name, err)
					} else if re, _ := Q.MarshalBinary(); !bytes.Equal(re, enc) {
						violationOrKnown(t, ev, key, "%s: re-encoding differs", name)
					}
				}
				ev.Case(true, "curve configuration "+name, "edvar-config:"+p.Name)
				ev.Exhaustive("edwards25519vartime curve configurations (5 parameter sets x projective/extended x subgroup/full group): advertised vs actual encoding lengths")
			}
		}
	}
}
