package harness

// C03 — encodings are fixed-length, canonical and round-trip; Equal <=> identical encodings;
// MarshalTo/UnmarshalFrom and the hex helpers carry exactly MarshalBinary's bytes; encoding does
// not change the value.

import (
	"bytes"
	"encoding/hex"
	"fmt"
	"io"
	"math/big"
	"strings"
	"testing"

	"go.dedis.ch/kyber/v4"
	kenc "go.dedis.ch/kyber/v4/util/encoding"
	"pgregory.net/rapid"
)

func c03Fail(t *rapid.T, ev *evProp, gi *GroupInfo, what string, format string, args ...any) {
	violationOrKnown(t, ev, fmt.Sprintf("C03/%s/%s", gi.Name, what), format, args...)
}

func c03Point(t *rapid.T, ev *evProp, gi *GroupInfo) {
	g := gi.G
	P := genPoint(t, gi, "P")
	ctx := fmt.Sprintf("group=%s P=%s", gi.Name, P.Desc)
	// a twin made through bytes BEFORE any encoding-related method touches P... the twin itself
	// needs one encoding, so take it from a clone and keep P untouched until then.
	twinBytes := mustMarshal(t, P.P.Clone())
	twin := g.Point()
	if err := twin.UnmarshalBinary(twinBytes); err != nil {
		c03Fail(t, ev, gi, "roundtrip", "decode of own encoding failed: %v\n%s enc=%x", err, ctx, twinBytes)
		return
	}
	markVT(gi, twin)
	// 1. lengths
	enc := mustMarshal(t, P.P)
	if len(enc) != P.P.MarshalSize() || len(enc) != g.PointLen() {
		c03Fail(t, ev, gi, "length", "len(MarshalBinary)=%d MarshalSize=%d PointLen=%d\n%s", len(enc), P.P.MarshalSize(), g.PointLen(), ctx)
	}
	if !bytes.Equal(enc, twinBytes) {
		c03Fail(t, ev, gi, "clone-encoding", "P and P.Clone() encode differently: %x vs %x\n%s", enc, twinBytes, ctx)
	}
	// 2. round trip - into a fresh receiver or into one that already holds another value (a decoder
	// that only overwrites some of the receiver's fields works on fresh receivers only)
	usedRecv := func(label string) kyber.Point {
		if rapid.Bool().Draw(t, label+".used") {
			old := genPoint(t, gi, label+".old")
			if rapid.Bool().Draw(t, label+".projective") {
				// a result of arithmetic: not in the affine/normalised form a decoder produces
				return markVT(gi, g.Point().Add(old.P, g.Point().Mul(g.Scalar().SetInt64(3), basePoint(gi))))
			}
			return markVT(gi, old.P.Clone())
		}
		return g.Point()
	}
	Q := usedRecv("Qrecv")
	qin := append([]byte(nil), enc...)
	defer func() {
		// (checked at the end of the case) the decoder must not keep a reference to its input: the
		// caller overwrites the buffer and the decoded point keeps its value
		for j := range qin {
			qin[j] ^= 0xff
		}
		if re := mustMarshal(t, Q); !bytes.Equal(re, enc) && !t.Failed() {
			c03Fail(t, ev, gi, "decoder-keeps-input", "after the caller overwrote the decoded buffer the point encodes %x, was %x\n%s", re, enc, ctx)
		}
	}()
	if err := Q.UnmarshalBinary(qin); err != nil {
		c03Fail(t, ev, gi, "roundtrip", "UnmarshalBinary(MarshalBinary(P)) failed: %v\n%s enc=%x", err, ctx, enc)
		return
	}
	if !Q.Equal(P.P) || !P.P.Equal(Q) {
		c03Fail(t, ev, gi, "roundtrip", "decoded point is not Equal to the original\n%s enc=%x", ctx, enc)
	}
	if re := mustMarshal(t, Q); !bytes.Equal(re, enc) {
		c03Fail(t, ev, gi, "roundtrip", "re-encoding differs: %x vs %x\n%s", re, enc, ctx)
	}
	// encoding twice gives the same bytes (encoding must not change the value)
	if again := mustMarshal(t, P.P); !bytes.Equal(again, enc) {
		c03Fail(t, ev, gi, "stable", "second MarshalBinary differs: %x vs %x\n%s", again, enc, ctx)
	}
	_ = P.P.String()
	if gi.HasEmbed {
		_, _ = P.P.Data()
	}
	// 4. MarshalTo / UnmarshalFrom
	var w bytes.Buffer
	n, err := P.P.MarshalTo(&w)
	if err != nil || n != len(enc) || !bytes.Equal(w.Bytes(), enc) {
		c03Fail(t, ev, gi, "MarshalTo", "MarshalTo wrote %x (n=%d, err=%v), MarshalBinary gives %x\n%s", w.Bytes(), n, err, enc, ctx)
	}
	trailer := rapid.SliceOfN(rapid.Byte(), 0, 9).Draw(t, "trailer")
	rd := bytes.NewReader(append(append([]byte(nil), enc...), trailer...))
	R := usedRecv("Rrecv")
	rmode := rapid.SampledFrom(readerModes).Draw(t, "reader")
	n, err = R.UnmarshalFrom(&shortReader{r: rd, mode: rmode, max: 1 + rapid.IntRange(0, len(enc)).Draw(t, "chunk")})
	if err != nil || n != len(enc) || rd.Len() != len(trailer) || !R.Equal(P.P) {
		c03Fail(t, ev, gi, "UnmarshalFrom", "UnmarshalFrom (reader delivering %s): n=%d err=%v unread=%d (trailer %d) equal=%v\n%s", rmode, n, err, rd.Len(), len(trailer), err == nil && R.Equal(P.P), ctx)
	}
	// 5. hex helpers
	hs, err := kenc.PointToStringHex(g, P.P)
	if err != nil || hs != hex.EncodeToString(enc) {
		c03Fail(t, ev, gi, "hex", "PointToStringHex=%q err=%v want %x\n%s", hs, err, enc, ctx)
	}
	hp, err := kenc.StringHexToPoint(g, hex.EncodeToString(enc))
	if err != nil || !hp.Equal(P.P) || !bytes.Equal(mustMarshal(t, hp), enc) {
		c03Fail(t, ev, gi, "hex", "StringHexToPoint failed: err=%v\n%s", err, ctx)
	}
	var hw bytes.Buffer
	if err := kenc.WriteHexPoint(&hw, P.P); err != nil || hw.String() != hex.EncodeToString(enc) {
		c03Fail(t, ev, gi, "hex", "WriteHexPoint wrote %q err=%v want %x\n%s", hw.String(), err, enc, ctx)
	}
	hr := strings.NewReader(hex.EncodeToString(enc) + "abcd")
	hp2, err := kenc.ReadHexPoint(g, hr)
	if err != nil || !hp2.Equal(P.P) || hr.Len() != 4 {
		c03Fail(t, ev, gi, "hex", "ReadHexPoint: err=%v unread=%d\n%s", err, hr.Len(), ctx)
	}
	// 6. the value did not change: still Equal to the twin, and arithmetic continues identically
	if !P.P.Equal(twin) || !bytes.Equal(mustMarshal(t, P.P), twinBytes) {
		c03Fail(t, ev, gi, "value-changed", "after Marshal/String/MarshalTo/Data the point differs from its twin\n%s", ctx)
	}
	k := genScalar(t, gi, "k")
	o := genPoint(t, gi, "O")
	r1 := g.Point().Add(g.Point().Mul(k.S, P.P), o.P)
	r2 := g.Point().Add(g.Point().Mul(k.S, twin), o.P)
	if !r1.Equal(r2) || !bytes.Equal(mustMarshal(t, r1), mustMarshal(t, r2)) {
		c03Fail(t, ev, gi, "value-changed", "arithmetic on the marshalled object and on its untouched twin disagree: %s vs %s\n%s k=%s O=%s", pointHex(r1), pointHex(r2), ctx, k, o.Desc)
	}
	// 7. an encoding is a snapshot owned by the caller: writing into the returned bytes does not touch the
	// value, and updating the value in place does not touch bytes handed out earlier
	snap := append([]byte(nil), enc...)
	mine1 := mustMarshal(t, P.P)
	for i := range mine1 {
		mine1[i] ^= 0xa5
	}
	if again := mustMarshal(t, P.P); !bytes.Equal(again, snap) {
		c03Fail(t, ev, gi, "encoding-aliases-value", "overwriting the bytes returned by MarshalBinary changed the point: now %x, was %x\n%s", again, snap, ctx)
	}
	held := mustMarshal(t, P.P)
	heldCopy := append([]byte(nil), held...)
	P.P.Add(P.P, basePoint(gi))
	if !bytes.Equal(held, heldCopy) {
		c03Fail(t, ev, gi, "encoding-aliases-value", "an in-place update of the point changed an encoding returned earlier: %x became %x\n%s", heldCopy, held, ctx)
	}
	lead0 := len(enc) > 0 && (enc[0] == 0 || (gi.Family == "p256" && len(enc) > 1 && (enc[1] == 0 || enc[33] == 0)))
	ev.Case(P.Edge || P.NonN || lead0, ctx, "group:"+gi.Name, "P:"+P.Class, fmt.Sprintf("lead0:%v", lead0))
}

// c03Pairs: Equal <=> identical encodings, on pairs equal by construction along different paths
// and on pairs built to differ.
func c03Pairs(t *rapid.T, ev *evProp, gi *GroupInfo) {
	g := gi.G
	P, Q := genPoint(t, gi, "P"), genPoint(t, gi, "Q")
	a, b := genScalar(t, gi, "a"), genScalar(t, gi, "b")
	kind := rapid.SampledFrom([]string{"aP+bP=(a+b)P", "(P+Q)-Q=P", "decoded=computed", "a(bP)=b(aP)", "P+Q vs P+Q+B", "P vs P+B", "aP vs (a+1)P"}).Draw(t, "kind")
	var x, y kyber.Point
	wantEq := true
	B := basePoint(gi)
	switch kind {
	case "aP+bP=(a+b)P":
		x = g.Point().Add(g.Point().Mul(a.S, P.P), g.Point().Mul(b.S, P.P))
		y = g.Point().Mul(g.Scalar().Add(a.S, b.S), P.P)
	case "(P+Q)-Q=P":
		x = g.Point().Sub(g.Point().Add(P.P, Q.P), Q.P)
		y = P.P
	case "decoded=computed":
		x = g.Point().Add(P.P, Q.P)
		y = g.Point()
		if err := y.UnmarshalBinary(mustMarshal(t, x.Clone())); err != nil {
			c03Fail(t, ev, gi, "roundtrip", "decode failed: %v", err)
			return
		}
	case "a(bP)=b(aP)":
		x = g.Point().Mul(a.S, g.Point().Mul(b.S, P.P))
		y = g.Point().Mul(b.S, g.Point().Mul(a.S, P.P))
	case "P+Q vs P+Q+B":
		x = g.Point().Add(P.P, Q.P)
		y = g.Point().Add(x, B)
		wantEq = false
	case "P vs P+B":
		x, y, wantEq = P.P, g.Point().Add(P.P, B), false
	case "aP vs (a+1)P":
		// differs unless P has order dividing 1, i.e. P = O
		x = g.Point().Mul(a.S, P.P)
		y = g.Point().Mul(g.Scalar().Add(a.S, g.Scalar().One()), P.P)
		wantEq = P.P.Equal(nullPoint(gi))
	}
	ex, ey := mustMarshal(t, x), mustMarshal(t, y)
	eq1, eq2, beq := x.Equal(y), y.Equal(x), bytes.Equal(ex, ey)
	ctx := fmt.Sprintf("group=%s pair=%s P=%s Q=%s a=%s b=%s", gi.Name, kind, P.Desc, Q.Desc, a, b)
	if eq1 != eq2 || eq1 != beq || eq1 != wantEq {
		c03Fail(t, ev, gi, "equal-iff-bytes", "Equal=%v/%v, encodings identical=%v, expected equal=%v\n x=%x\n y=%x\n%s", eq1, eq2, beq, wantEq, ex, ey, ctx)
	}
	ev.Case(true, ctx, "group:"+gi.Name, "pair:"+kind)
}

func c03Scalar(t *rapid.T, ev *evProp, gi *GroupInfo) {
	g := gi.G
	s := genScalar(t, gi, "s")
	ctx := fmt.Sprintf("group=%s s=%s", gi.Name, s)
	enc := mustMarshal(t, s.S)
	le := scalarLE(s.S)
	if len(enc) != g.ScalarLen() || s.S.MarshalSize() != g.ScalarLen() {
		c03Fail(t, ev, gi, "scalar.length", "len=%d MarshalSize=%d ScalarLen=%d\n%s", len(enc), s.S.MarshalSize(), g.ScalarLen(), ctx)
	}
	if want := bigToBytes(s.V, g.ScalarLen(), le); !bytes.Equal(enc, want) {
		c03Fail(t, ev, gi, "scalar.canonical", "encoding %x is not the canonical fixed-length encoding %x\n%s", enc, want, ctx)
	}
	usedRecv := func(label string) kyber.Scalar {
		if rapid.Bool().Draw(t, label+".used") {
			return genScalar(t, gi, label+".old").S.Clone()
		}
		return g.Scalar()
	}
	u := usedRecv("urecv")
	uin := append([]byte(nil), enc...)
	defer func() {
		for j := range uin {
			uin[j] ^= 0xff
		}
		if re := mustMarshal(t, u); !bytes.Equal(re, enc) && !t.Failed() {
			c03Fail(t, ev, gi, "scalar.decoder-keeps-input", "after the caller overwrote the decoded buffer the scalar encodes %x, was %x\n%s", re, enc, ctx)
		}
	}()
	if err := u.UnmarshalBinary(uin); err != nil {
		c03Fail(t, ev, gi, "scalar.roundtrip", "UnmarshalBinary failed: %v\n%s", err, ctx)
		return
	}
	if !u.Equal(s.S) || !s.S.Equal(u) || !bytes.Equal(mustMarshal(t, u), enc) {
		c03Fail(t, ev, gi, "scalar.roundtrip", "decoded scalar differs: %x vs %x\n%s", mustMarshal(t, u), enc, ctx)
	}
	var w bytes.Buffer
	n, err := s.S.MarshalTo(&w)
	if err != nil || n != len(enc) || !bytes.Equal(w.Bytes(), enc) {
		c03Fail(t, ev, gi, "scalar.MarshalTo", "MarshalTo wrote %x n=%d err=%v want %x\n%s", w.Bytes(), n, err, enc, ctx)
	}
	trailer := rapid.SliceOfN(rapid.Byte(), 0, 9).Draw(t, "trailer")
	rd := bytes.NewReader(append(append([]byte(nil), enc...), trailer...))
	v := usedRecv("vrecv")
	rmode := rapid.SampledFrom(readerModes).Draw(t, "reader")
	n, err = v.UnmarshalFrom(&shortReader{r: rd, mode: rmode, max: 1 + rapid.IntRange(0, len(enc)).Draw(t, "chunk")})
	if err != nil || n != len(enc) || rd.Len() != len(trailer) || !v.Equal(s.S) {
		c03Fail(t, ev, gi, "scalar.UnmarshalFrom", "reader delivering %s: n=%d err=%v unread=%d (trailer %d)\n%s", rmode, n, err, rd.Len(), len(trailer), ctx)
	}
	hs, err := kenc.ScalarToStringHex(g, s.S)
	if err != nil || hs != hex.EncodeToString(enc) {
		c03Fail(t, ev, gi, "scalar.hex", "ScalarToStringHex=%q err=%v\n%s", hs, err, ctx)
	}
	hv, err := kenc.StringHexToScalar(g, hs)
	if err != nil || !hv.Equal(s.S) {
		c03Fail(t, ev, gi, "scalar.hex", "StringHexToScalar err=%v\n%s", err, ctx)
	}
	var hw bytes.Buffer
	if err := kenc.WriteHexScalar(g, &hw, s.S); err != nil || hw.String() != hex.EncodeToString(enc) {
		c03Fail(t, ev, gi, "scalar.hex", "WriteHexScalar wrote %q err=%v\n%s", hw.String(), err, ctx)
	}
	hv2, err := kenc.ReadHexScalar(g, strings.NewReader(hw.String()))
	if err != nil || !hv2.Equal(s.S) {
		c03Fail(t, ev, gi, "scalar.hex", "ReadHexScalar err=%v\n%s", err, ctx)
	}
	// Equal <=> bytes, on a second scalar that is equal by construction or different
	o := genScalar(t, gi, "o")
	var y kyber.Scalar
	wantEq := true
	if rapid.Bool().Draw(t, "same") {
		y = g.Scalar().Sub(g.Scalar().Add(s.S, o.S), o.S)
	} else {
		y = g.Scalar().Add(s.S, g.Scalar().One())
		wantEq = gi.Order.Cmp(big1) == 0
	}
	ey := mustMarshal(t, y)
	if eq := s.S.Equal(y); eq != wantEq || eq != bytes.Equal(enc, ey) || y.Equal(s.S) != eq {
		c03Fail(t, ev, gi, "scalar.equal-iff-bytes", "Equal=%v, identical encodings=%v, expected %v: %x vs %x\n%s o=%s", eq, bytes.Equal(enc, ey), wantEq, enc, ey, ctx, o)
	}
	// value unchanged by encoding
	if again := mustMarshal(t, s.S); !bytes.Equal(again, enc) || scalarToBig(s.S).Cmp(s.V) != 0 {
		c03Fail(t, ev, gi, "scalar.value-changed", "scalar changed by encoding: %x vs %x\n%s", again, enc, ctx)
	}
	// an encoding is a snapshot owned by the caller (see c03Point, 7.)
	snap := append([]byte(nil), enc...)
	mine1 := mustMarshal(t, s.S)
	for i := range mine1 {
		mine1[i] ^= 0xa5
	}
	if again := mustMarshal(t, s.S); !bytes.Equal(again, snap) {
		c03Fail(t, ev, gi, "scalar.encoding-aliases-value", "overwriting the bytes returned by MarshalBinary changed the scalar: now %x, was %x\n%s", again, snap, ctx)
	}
	held := mustMarshal(t, s.S)
	heldCopy := append([]byte(nil), held...)
	s.S.Add(s.S, g.Scalar().One())
	if !bytes.Equal(held, heldCopy) {
		c03Fail(t, ev, gi, "scalar.encoding-aliases-value", "an in-place update of the scalar changed an encoding returned earlier: %x became %x\n%s", heldCopy, held, ctx)
	}
	msb := new(big.Int).Rsh(s.V, uint(8*(g.ScalarLen()-1)))
	lead0 := msb.Sign() == 0
	ev.Case(isEdgeClass(s.Class) || lead0, ctx, "group:"+gi.Name, "s:"+s.Class, fmt.Sprintf("slead0:%v", lead0))
}

const c03Rule = "three generated families per group: (points) a point from {O,B,-B,k*B,a*B,Pick,Embed,Hash,decoded,sums/differences/doubles/multiples with non-normalised internals,pairing outputs} is checked for " +
	"fixed length, round trip, byte-identical re-encoding, MarshalTo/UnmarshalFrom with a random trailer through readers that deliver whole requests / one byte / half / generated chunks / data together with EOF, the four hex helpers, and value preservation against a twin created through bytes beforehand (incl. continued arithmetic); " +
	"(pairs) two points equal by construction along different API paths, or different by construction, must satisfy Equal <=> identical encodings; (scalars) reduced scalars from edge classes: canonical fixed-length encoding equal to the math/big rendering, round trip, stream and hex helpers, Equal <=> bytes. " +
	"non-trivial = identity/edge operand, non-normalised internals, an encoding with a leading zero byte, or any pair case; distinct = distinct rendered case" +
	" Added after the sensitivity rounds: decoding into fresh / used / arithmetic-result receivers; the caller overwrites returned encodings and decoded input buffers and updates values in place (an encoding is a snapshot)."

func TestC03_Encodings(t *testing.T) {
	ev := evFor("C03")
	ev.Rule(c03Rule)
	ev.Assume("only reduced scalars are quantified over (Ed25519 UnmarshalBinary accepts unreduced strings: C04's subject)")
	groups := Groups(tier() == "thorough")
	for i, gi := range groups {
		if !mine(i) {
			continue
		}
		gi := gi
		q, th := 300, 6000
		if gi.Role == 3 {
			q, th = 60, 800
		} else if gi.Role == 2 || gi.Extra {
			q, th = 150, 2500
		}
		t.Run(gi.Name, func(t *testing.T) {
			rcheck(t, q*shards(), th*shards(), func(t *rapid.T) {
				switch rapid.IntRange(0, 2).Draw(t, "family") {
				case 0:
					c03Point(t, ev, gi)
				case 1:
					c03Pairs(t, ev, gi)
				default:
					c03Scalar(t, ev, gi)
				}
			})
		})
	}
}

// shortReader: an io.Reader that is allowed to deliver less than asked for (a network connection, a
// pipe, a bufio.Reader at a buffer boundary): whole requests, one byte at a time, at most half of the
// request, chunks of a generated maximum size, or the last bytes together with io.EOF.
var readerModes = []string{"whole", "whole", "one-byte", "half", "chunks", "data+EOF"}

type shortReader struct {
	r    *bytes.Reader
	mode string
	max  int
}

func (s *shortReader) Read(p []byte) (int, error) {
	if len(p) == 0 {
		return 0, nil
	}
	lim := len(p)
	switch s.mode {
	case "one-byte":
		lim = 1
	case "half":
		lim = max(1, len(p)/2)
	case "chunks":
		lim = min(len(p), s.max)
	}
	n, err := s.r.Read(p[:lim])
	if s.mode == "data+EOF" && err == nil && s.r.Len() == 0 {
		err = io.EOF
	}
	return n, err
}
