//go:build !constantTime

package harness

// C04 (part A) — decoding untrusted bytes as points and scalars: total (error or usable value,
// never a panic, also in later operations), and only members of the promised set are admitted.

import (
	"bytes"
	"fmt"
	"math/big"
	"testing"

	"go.dedis.ch/kyber/v4"
	"pgregory.net/rapid"
)

// safely runs f and reports a panic as a string.
func safely(f func()) (panicked string) {
	defer func() {
		if p := recover(); p != nil {
			if isRapidPanic(p) {
				panic(p)
			}
			panicked = fmt.Sprint(p)
		}
	}()
	f()
	return ""
}

func flipBits(t *rapid.T, b []byte, label string) []byte {
	out := append([]byte(nil), b...)
	if len(out) == 0 {
		return out
	}
	// distinct positions (flipping a bit twice would be the identity mutation), uniform over the input
	k := rapid.IntRange(1, min(3, len(out)*8)).Draw(t, label+".nbits")
	seen := map[int]bool{}
	for i := 0; i < k; i++ {
		p := uniformInt(t, 0, len(out)*8-1, label+".bit")
		if seen[p] {
			continue
		}
		seen[p] = true
		out[p/8] ^= 1 << uint(p%8)
	}
	return out
}

// structuredPointInput builds a hostile encoding aimed at the decoder of gi's family.
func structuredPointInput(t *rapid.T, gi *GroupInfo, valid []byte) ([]byte, string) {
	size := len(valid)
	fieldEdit := func(p *big.Int, coords int, clen int, off int) ([]byte, string) {
		// replace one coordinate by p+k, p-1, 0 or add 1 to it
		out := append([]byte(nil), valid...)
		ci := rapid.IntRange(0, coords-1).Draw(t, "coord")
		lo, hi := off+ci*clen, off+(ci+1)*clen
		kind := rapid.SampledFrom([]string{"=p", "p+k", "p-1", "zero", "+1", "-1", "max", "+p", "+p"}).Draw(t, "edit")
		v := new(big.Int).SetBytes(out[lo:hi])
		switch kind {
		case "=p":
			v.Set(p)
		case "p+k":
			v.Add(p, big.NewInt(int64(rapid.IntRange(1, 40).Draw(t, "k"))))
		case "p-1":
			v.Sub(p, big1)
		case "zero":
			v.SetInt64(0)
		case "+1":
			v.Add(v, big1)
		case "-1":
			if v.Sign() > 0 {
				v.Sub(v, big1)
			}
		case "max":
			v.Sub(pow2(8*clen), big1)
		case "+p":
			// the same residue, not reduced: a second encoding of the SAME valid point if it fits in the
			// coordinate's bytes (it must be refused: accepted, it is stored unreduced or is a second
			// accepted encoding)
			if w := new(big.Int).Add(v, p); w.BitLen() <= 8*clen {
				v = w
			} else {
				kind = "+p(does not fit)->p+k"
				v.Add(p, big.NewInt(int64(rapid.IntRange(1, 40).Draw(t, "k2"))))
			}
		}
		if v.BitLen() > 8*clen {
			v.Sub(pow2(8*clen), big1)
		}
		copy(out[lo:hi], bigToBytes(v, clen, false))
		return out, fmt.Sprintf("coord%d%s", ci, kind)
	}
	switch {
	case gi.Family == "ed25519" || gi.Family == "edvar":
		ref, _ := refFor(gi).(refEd)
		kind := rapid.SampledFrom([]string{"y>=p", "signflip", "smallorder", "y=p-1", "highbits"}).Draw(t, "skind")
		if gi.Family == "edvar" && ref.c == nil {
			return flipBits(t, valid, "f"), "bitflip"
		}
		p := modelEd25519.P
		switch kind {
		case "y>=p":
			// y in [p, 2^255): the 19 non-canonical y values
			k := rapid.IntRange(0, 18).Draw(t, "k")
			out := bigToBytes(new(big.Int).Add(p, big.NewInt(int64(k))), 32, true)
			if rapid.Bool().Draw(t, "sign") {
				out[31] |= 0x80
			}
			return out, kind
		case "signflip":
			out := append([]byte(nil), valid...)
			out[size-1] ^= 0x80
			return out, kind
		case "smallorder":
			ys := []*big.Int{big.NewInt(0), big.NewInt(1), new(big.Int).Sub(p, big1), p, new(big.Int).Add(p, big1),
				decBig("2707385501144840649318225287225658788936804267575313519463743609750303402022"),
				decBig("55188659117513257062467267217118295137698188065244968500265048394206261417927")}
			out := bigToBytes(rapid.SampledFrom(ys).Draw(t, "y"), 32, true)
			if rapid.Bool().Draw(t, "sign") {
				out[31] |= 0x80
			}
			return out, kind
		case "y=p-1":
			out := bigToBytes(new(big.Int).Sub(p, big.NewInt(int64(rapid.IntRange(1, 5).Draw(t, "k")))), 32, true)
			return out, kind
		default:
			out := bytes.Repeat([]byte{0xff}, size)
			out[rapid.IntRange(0, size-1).Draw(t, "pos")] = rapid.Byte().Draw(t, "b")
			return out, kind
		}
	case gi.Family == "p256":
		if rapid.Bool().Draw(t, "fmt") {
			out := append([]byte(nil), valid...)
			out[0] = rapid.SampledFrom([]byte{0, 1, 2, 3, 5, 6, 7, 0x84, 0xff}).Draw(t, "fb")
			return out, "formatbyte"
		}
		if rapid.IntRange(0, 4).Draw(t, "tiny") == 0 {
			out := make([]byte, 65)
			out[0] = 4
			out[32] = rapid.SampledFrom([]byte{0, 1, 2}).Draw(t, "x")
			out[64] = rapid.SampledFrom([]byte{0, 1, 2}).Draw(t, "y")
			return out, "tinycoords"
		}
		if rapid.IntRange(0, 3).Draw(t, "smallx") == 0 {
			// a curve point with a small x (x + p still fits in 32 bytes), encoded with x + p
			c := modelP256
			for x := int64(rapid.IntRange(1, 400).Draw(t, "x0")); ; x++ {
				bx := big.NewInt(x)
				if y := fsqrt(c.rhs(bx), c.P); y != nil {
					if rapid.Bool().Draw(t, "yneg") {
						y = fneg(y, c.P)
					}
					out := make([]byte, 65)
					out[0] = 4
					copy(out[1:33], bigToBytes(new(big.Int).Add(bx, c.P), 32, false))
					copy(out[33:], bigToBytes(y, 32, false))
					return out, "small-x+p"
				}
			}
		}
		return fieldEdit(modelP256.P, 2, 32, 1)
	case gi.Family == "bn256" || gi.Family == "bn254":
		p := modelBN256.P
		if gi.Family == "bn254" {
			p = modelBN254.P
		}
		if gi.Role == 3 {
			return fieldEdit(p, 12, 32, 0)
		}
		if gi.Role == 2 && size == 128 && rapid.IntRange(0, 2).Draw(t, "fp2half") == 0 {
			// G2 coordinates are elements u*i+v of Fp2 (i^2=-1).  Keep x, replace y by a y' whose square
			// agrees with y^2 (= x^3+b') in ONE of its two Fp coefficients only: y'^2 = (v'^2-u'^2) + 2u'v'*i.
			// A curve test that compares half of the field element accepts it.
			out := append([]byte(nil), valid...)
			u, v := new(big.Int).SetBytes(valid[64:96]), new(big.Int).SetBytes(valid[96:128])
			k := new(big.Int).SetInt64(int64(rapid.IntRange(2, 1000).Draw(t, "k")))
			kinv := new(big.Int).ModInverse(k, p)
			mul := func(a, b *big.Int) *big.Int { return new(big.Int).Mod(new(big.Int).Mul(a, b), p) }
			var u2, v2 *big.Int
			kind := rapid.SampledFrom([]string{"fp2-half:same-2uv", "fp2-half:same-v2-u2"}).Draw(t, "half")
			if kind == "fp2-half:same-2uv" {
				u2, v2 = mul(u, k), mul(v, kinv)
			} else {
				a, b := new(big.Int).Mod(new(big.Int).Sub(v, u), p), new(big.Int).Mod(new(big.Int).Add(v, u), p)
				ak, bk := mul(a, k), mul(b, kinv)
				half := new(big.Int).ModInverse(big.NewInt(2), p)
				v2 = mul(new(big.Int).Add(ak, bk), half)
				u2 = mul(new(big.Int).Mod(new(big.Int).Sub(bk, ak), p), half)
			}
			copy(out[64:96], bigToBytes(u2, 32, false))
			copy(out[96:128], bigToBytes(v2, 32, false))
			return out, kind
		}
		return fieldEdit(p, size/32, 32, 0)
	case gi.Family == "qr512":
		P := gi.Modulus
		kind := rapid.SampledFrom([]string{"zero", "one", "P-1", "P", "P+1", "nonresidue", "max", "small-square", "small-square"}).Draw(t, "skind")
		v := new(big.Int)
		switch kind {
		case "one":
			v.SetInt64(1)
		case "P-1":
			v.Sub(P, big1)
		case "P":
			v.Set(P)
		case "P+1":
			v.Add(P, big1)
		case "nonresidue":
			// -r is a non-residue when r is a residue (P = 3 mod 4)
			v.Sub(P, new(big.Int).SetBytes(valid))
		case "small-square":
			// k^2: always a quadratic residue, but in the order-Q subgroup only by accident when the
			// cofactor exceeds 2
			k := int64(rapid.IntRange(2, 60).Draw(t, "k"))
			v.SetInt64(k * k)
		case "max":
			v.Sub(pow2(8*size), big1)
		}
		return bigToBytes(v, size, false), kind
	case gi.Family == "bls-kilic" || gi.Family == "bls-circl" || gi.Family == "bls-gnark":
		kind := rapid.SampledFrom([]string{"flags", "x>=p", "notinsubgroup", "notinsubgroup", "infinity-variants", "offcurve-x", "uncompressed", "uncompressed"}).Draw(t, "skind")
		if gi.Role == 3 {
			return fieldEdit(modelBLSG1.P, 12, 48, 0)
		}
		// a point of the curve that is (almost surely) outside the prime-order subgroup: random x until
		// x^3+b is a square (compressed encoding)
		notInSub := func() []byte {
			if gi.Role == 1 {
				for i := 0; ; i++ {
					x := new(big.Int).SetBytes(rapid.SliceOfN(rapid.Byte(), 48, 48).Draw(t, fmt.Sprintf("x%d", i)))
					x.Mod(x, modelBLSG1.P)
					if y := fsqrt(modelBLSG1.rhs(x), modelBLSG1.P); y != nil {
						if rapid.Bool().Draw(t, "ysign") {
							y = fneg(y, modelBLSG1.P)
						}
						return encBLSG1(wPoint{X: x, Y: y})
					}
				}
			}
			for i := 0; ; i++ {
				a := new(big.Int).SetBytes(rapid.SliceOfN(rapid.Byte(), 48, 48).Draw(t, fmt.Sprintf("xa%d", i)))
				b := new(big.Int).SetBytes(rapid.SliceOfN(rapid.Byte(), 48, 48).Draw(t, fmt.Sprintf("xb%d", i)))
				x := modelBLSG2.F.norm(f2{a, b})
				if y, ok := modelBLSG2.F.sqrt(modelBLSG2.rhs(x)); ok {
					if rapid.Bool().Draw(t, "ysign") {
						y = modelBLSG2.F.neg(y)
					}
					return encBLSG2(w2Point{X: x, Y: y})
				}
			}
		}
		switch kind {
		case "uncompressed":
			// the OTHER serialisation the underlying libraries understand: x||y at twice the size
			// (flag bits clear, or the infinity flag), of a member or of a curve point outside the
			// subgroup.  A decoder that starts accepting it must apply the same membership tests.
			inner, ik := valid, "member"
			if rapid.IntRange(0, 2).Draw(t, "uoff") > 0 {
				inner, ik = notInSub(), "notinsubgroup"
			}
			out := make([]byte, 2*size)
			if gi.Role == 1 {
				if pt, ok := decBLSG1(inner); ok && !pt.Inf {
					copy(out, bigToBytes(pt.X, 48, false))
					copy(out[48:], bigToBytes(pt.Y, 48, false))
				} else {
					out[0] = 0x40
				}
			} else {
				if pt, ok := decBLSG2(inner); ok && !pt.Inf {
					copy(out, bigToBytes(pt.X.B, 48, false))
					copy(out[48:], bigToBytes(pt.X.A, 48, false))
					copy(out[96:], bigToBytes(pt.Y.B, 48, false))
					copy(out[144:], bigToBytes(pt.Y.A, 48, false))
				} else {
					out[0] = 0x40
				}
			}
			if rapid.IntRange(0, 3).Draw(t, "uflag") == 0 {
				out[0] |= byte(rapid.IntRange(0, 7).Draw(t, "ufl")) << 5
			}
			return out, "uncompressed-" + ik
		case "flags":
			out := append([]byte(nil), valid...)
			out[0] = out[0]&0x1f | byte(rapid.IntRange(0, 7).Draw(t, "fl"))<<5
			return out, kind
		case "x>=p":
			out, k := fieldEdit(modelBLSG1.P, size/48, 48, 0)
			out[0] |= 0x80
			return out, "x" + k
		case "infinity-variants":
			out := make([]byte, size)
			out[0] = byte(rapid.IntRange(0, 7).Draw(t, "fl")) << 5
			if rapid.Bool().Draw(t, "dirty") {
				out[rapid.IntRange(1, size-1).Draw(t, "pos")] = 1
			}
			return out, kind
		case "notinsubgroup":
			return notInSub(), kind
		default:
			out := append([]byte(nil), valid...)
			out[size-1] ^= byte(rapid.IntRange(1, 255).Draw(t, "d"))
			return out, kind
		}
	}
	return flipBits(t, valid, "f"), "bitflip"
}

func genDecodeInput(t *rapid.T, gi *GroupInfo, size int, valid []byte, scalar bool) ([]byte, string) {
	kinds := []string{"random", "randomsize", "zeros", "ff", "valid", "bitflip", "bitflip", "byteedit", "truncate", "extend", "empty"}
	if !scalar {
		kinds = append(kinds, "structured", "structured", "structured", "structured")
	} else {
		kinds = append(kinds, "q+k", "q+k")
	}
	kind := rapid.SampledFrom(kinds).Draw(t, "ikind")
	switch kind {
	case "random":
		return rapid.SliceOfN(rapid.Byte(), size, size).Draw(t, "raw"), kind
	case "randomsize":
		n := rapid.IntRange(0, 2*size+40).Draw(t, "n")
		return rapid.SliceOfN(rapid.Byte(), n, n).Draw(t, "raw"), kind
	case "zeros", "ff":
		n := rapid.SampledFrom([]int{size, size, 0, 1, size - 1, size + 1, 2 * size, 2*size + 40}).Draw(t, "n")
		fill := byte(0)
		if kind == "ff" {
			fill = 0xff
		}
		return bytes.Repeat([]byte{fill}, n), kind
	case "valid":
		return append([]byte(nil), valid...), kind
	case "bitflip":
		return flipBits(t, valid, "f"), kind
	case "byteedit":
		out := append([]byte(nil), valid...)
		pos := rapid.IntRange(0, len(out)-1).Draw(t, "pos")
		out[pos] = rapid.SampledFrom([]byte{0, 0xff, 0x80, 0x7f, 1}).Draw(t, "val")
		return out, kind
	case "truncate":
		return append([]byte(nil), valid[:rapid.IntRange(0, len(valid)-1).Draw(t, "n")]...), kind
	case "extend":
		return append(append([]byte(nil), valid...), rapid.SliceOfN(rapid.Byte(), 1, 40).Draw(t, "ext")...), kind
	case "empty":
		if rapid.Bool().Draw(t, "nil") {
			return nil, kind
		}
		return []byte{}, kind
	case "q+k":
		k := rapid.IntRange(-2, 40).Draw(t, "k")
		v := new(big.Int).Add(gi.Order, big.NewInt(int64(k)))
		if v.BitLen() > 8*size {
			v.Sub(pow2(8*size), big1)
		}
		return bigToBytes(v, size, scalarLE(gi.G.Scalar())), kind
	default:
		return structuredPointInput(t, gi, valid)
	}
}

// c04Member decides, with the reference models only, whether the accepted point (given by its
// re-encoding) belongs to the set the group promises to validate.  ok=false means "no model".
func c04Member(gi *GroupInfo, reenc []byte) (member bool, why string, ok bool) {
	switch {
	case gi.Family == "ed25519" || (gi.Family == "edvar" && refFor(gi) != nil):
		r := refFor(gi)
		p, err := r.Decode(reenc)
		if err != nil {
			return false, "re-encoding is not a curve point in the model: " + err.Error(), true
		}
		return r.OnCurve(p), "not on the curve", true
	case gi.Name == "p256" || gi.Name == "bn256.G1" || gi.Name == "bn254.G1":
		r := refFor(gi)
		p, err := r.Decode(reenc)
		if err != nil {
			return false, err.Error(), true
		}
		return r.OnCurve(p), "not on the curve", true
	case gi.Name == "bn256.G2":
		return modelBN256G2.OnCurve(decBNG2(reenc)), "not on the twist curve", true
	case gi.Name == "bn254.G2":
		return modelBN254G2.OnCurve(decBNG2(reenc)), "not on the twist curve", true
	case gi.Role == 1 && refFor(gi) != nil: // BLS12-381 G1
		p, okd := decBLSG1(reenc)
		if !okd {
			return false, "re-encoding is not a valid compressed point", true
		}
		return modelBLSG1.OnCurve(p) && modelBLSG1.InSubgroup(p), "not in the prime-order subgroup", true
	case gi.Role == 2 && (gi.Family == "bls-kilic" || gi.Family == "bls-circl" || gi.Family == "bls-gnark"):
		p, okd := decBLSG2(reenc)
		if !okd {
			return false, "re-encoding is not a valid compressed point", true
		}
		return modelBLSG2.OnCurve(p) && modelBLSG2.InSubgroup(p), "not in the prime-order subgroup", true
	case gi.Family == "qr512":
		q := gi.Order
		P := gi.Modulus
		v := new(big.Int).SetBytes(reenc)
		if v.Sign() <= 0 || v.Cmp(P) >= 0 {
			return false, "not in [1,P)", true
		}
		return new(big.Int).Exp(v, q, P).Cmp(big1) == 0, "not in the order-Q subgroup (v^Q != 1)", true
	}
	return true, "", false
}

func c04PointCase(t *rapid.T, ev *evProp, gi *GroupInfo) {
	g := gi.G
	size := g.PointLen()
	src := genPointD(t, gi, "src", 1)
	valid := mustMarshal(t, src.P)
	in, kind := genDecodeInput(t, gi, size, valid, false)
	inCopy := append([]byte(nil), in...)
	ctx := fmt.Sprintf("group=%s kind=%s input=%x", gi.Name, kind, inCopy)
	key := func(w string) string { return fmt.Sprintf("C04/%s/%s", gi.Name, w) }
	// the receiver is fresh or already holds a (non-normalised) value: whatever an accepted input leaves
	// in it must be a group member
	p := g.Point()
	switch rapid.IntRange(0, 2).Draw(t, "recvkind") {
	case 1:
		p = markVT(gi, genPointD(t, gi, "recvold", 0).P.Clone())
	case 2:
		p = markVT(gi, g.Point().Add(basePoint(gi), g.Point().Mul(g.Scalar().SetInt64(5), basePoint(gi))))
	}
	var err error
	useFrom := rapid.Bool().Draw(t, "unmarshalFrom")
	if pn := safely(func() {
		if useFrom {
			_, err = p.UnmarshalFrom(bytes.NewReader(in))
		} else {
			err = p.UnmarshalBinary(in)
		}
	}); pn != "" {
		violationOrKnown(t, ev, key("decode-panic"), "decoding panicked: %s\n%s", pn, ctx)
		ev.Case(true, ctx, "group:"+gi.Name, "in:"+kind, "out:panic")
		return
	}
	if !bytes.Equal(in, inCopy) {
		violationOrKnown(t, ev, key("input-modified"), "decoder modified its input\n%s", ctx)
	}
	reaches := len(in) == size
	if err != nil {
		ev.Case(reaches, ctx, "group:"+gi.Name, "in:"+kind, "out:rejected")
		return
	}
	if useFrom && len(in) < size {
		violationOrKnown(t, ev, key("short-read-accepted"), "UnmarshalFrom accepted %d bytes (size %d)\n%s", len(in), size, ctx)
	}
	markVT(gi, p)
	// accepted: later operations must not panic, membership must hold, re-encoding round-trips
	var reenc []byte
	if pn := safely(func() {
		reenc = mustMarshal(t, p)
		_ = p.String()
		_ = p.Equal(p)
		c := p.Clone()
		B := basePoint(gi)
		_ = g.Point().Add(p, B)
		_ = g.Point().Sub(B, p)
		_ = g.Point().Neg(p)
		_ = mustMarshal(t, g.Point().Mul(g.Scalar().SetInt64(2), p))
		_ = mustMarshal(t, g.Point().Mul(scalarFromBig(g, new(big.Int).Sub(gi.Order, big1)), p))
		_ = mustMarshal(t, g.Point().Add(p, p))
		_ = c.Equal(p)
		if gi.HasEmbed {
			_, _ = p.Data()
		}
	}); pn != "" {
		violationOrKnown(t, ev, key("use-panic"), "an operation on an accepted value panicked: %s\n%s", pn, ctx)
		ev.Case(true, ctx, "group:"+gi.Name, "in:"+kind, "out:use-panic")
		return
	}
	if member, why, ok := c04Member(gi, reenc); ok && !member {
		violationOrKnown(t, ev, key("non-member-accepted"), "accepted a value outside the promised set (%s); re-encoding %x\n%s", why, reenc, ctx)
	}
	// an accepted value is a group element like any other: the same element reached through arithmetic
	// (p + O) must have the same encoding (a decoder that keeps an unreduced coordinate and an encoder
	// that trusts "already normalised" would hand the hostile bytes back)
	if pn := safely(func() {
		twin := newPoint(gi).Add(p, nullPoint(gi))
		if tb := mustMarshal(t, twin); twin.Equal(p) && !bytes.Equal(tb, reenc) {
			violationOrKnown(t, ev, key("reencode-noncanonical"), "an accepted point re-encodes as %x but the Equal point p+O encodes as %x\n%s", reenc, tb, ctx)
		}
	}); pn != "" {
		violationOrKnown(t, ev, key("use-panic"), "p+O on an accepted value panicked: %s\n%s", pn, ctx)
	}
	q := g.Point()
	if err := q.UnmarshalBinary(reenc); err != nil {
		violationOrKnown(t, ev, key("reencode-roundtrip"), "decoding the re-encoding %x of an accepted point fails: %v\n%s", reenc, err, ctx)
	} else if !q.Equal(p) || !p.Equal(q) {
		violationOrKnown(t, ev, key("reencode-roundtrip"), "decoding the re-encoding %x gives a point that is not Equal\n%s", reenc, ctx)
	}
	ev.Case(true, ctx, "group:"+gi.Name, "in:"+kind, "out:accepted")
}

func c04ScalarCase(t *rapid.T, ev *evProp, gi *GroupInfo) {
	g := gi.G
	size := g.ScalarLen()
	src := genScalar(t, gi, "src")
	valid := mustMarshal(t, src.S)
	in, kind := genDecodeInput(t, gi, size, valid, true)
	inCopy := append([]byte(nil), in...)
	ctx := fmt.Sprintf("group=%s scalar kind=%s input=%x", gi.Name, kind, inCopy)
	key := func(w string) string { return fmt.Sprintf("C04/%s/scalar.%s", gi.Name, w) }
	s := g.Scalar()
	var err error
	useFrom := rapid.Bool().Draw(t, "unmarshalFrom")
	if pn := safely(func() {
		if useFrom {
			_, err = s.UnmarshalFrom(bytes.NewReader(in))
		} else {
			err = s.UnmarshalBinary(in)
		}
	}); pn != "" {
		violationOrKnown(t, ev, key("decode-panic"), "decoding panicked: %s\n%s", pn, ctx)
		ev.Case(true, ctx, "group:"+gi.Name, "sin:"+kind, "sout:panic")
		return
	}
	if err != nil {
		ev.Case(len(in) == size, ctx, "group:"+gi.Name, "sin:"+kind, "sout:rejected")
		return
	}
	if pn := safely(func() {
		one := g.Scalar().One()
		_ = mustMarshal(t, g.Scalar().Add(s, one))
		_ = mustMarshal(t, g.Scalar().Mul(s, s))
		_ = mustMarshal(t, g.Scalar().Neg(s))
		_ = s.Equal(one)
		_ = s.String()
		_ = mustMarshal(t, s.Clone())
		_ = mustMarshal(t, g.Point().Mul(s, basePoint(gi)))
		// "usable": the accepted scalar acts as the residue its bytes denote
		// an accepted canonical encoding (exact size, value < q) must act as the residue it denotes;
		// for lenient decoders (over-long input, unreduced Ed25519 strings) only totality is demanded
		denoted := inCopy
		if useFrom && len(denoted) > size {
			denoted = denoted[:size] // UnmarshalFrom consumes exactly one encoding
		}
		v := bytesToBig(denoted, scalarLE(s))
		if len(denoted) != size || v.Cmp(gi.Order) >= 0 {
			return
		}
		ref := scalarFromBig(g, v)
		if got, want := mustMarshal(t, g.Scalar().Add(s, one)), mustMarshal(t, g.Scalar().Add(ref, one)); !bytes.Equal(got, want) {
			violationOrKnown(t, ev, key("accepted-value"), "accepted scalar + 1 = %x, but the residue its bytes denote gives %x\n%s", got, want, ctx)
		}
		if got, want := mustMarshal(t, g.Point().Mul(s, basePoint(gi))), mustMarshal(t, g.Point().Mul(ref, basePoint(gi))); !bytes.Equal(got, want) {
			violationOrKnown(t, ev, key("accepted-value"), "accepted scalar * B = %x, but the residue its bytes denote gives %x\n%s", got, want, ctx)
		}
	}); pn != "" {
		violationOrKnown(t, ev, key("use-panic"), "an operation on an accepted scalar panicked: %s\n%s", pn, ctx)
	}
	ev.Case(true, ctx, "group:"+gi.Name, "sin:"+kind, "sout:accepted")
}

const c04Rule = "case = (group, byte string) with the string drawn from {random of the exact size, random of size 0..2*size+40, all-00/all-ff of boundary sizes, a valid encoding, 1-3 bit flips / byte edits / truncation / extension of a valid encoding, empty, " +
	"structure-aware hostile inputs: coordinate =p,p+k,p-1,0,±1,max; Ed25519 y in [p,2^255) with either sign, sign flips, small-order points; P-256 format bytes and tiny coordinates; every BLS12-381 flag combination, dirty infinity, curve points outside the prime-order subgroup built with the Fp/Fp2 model; QR-512 0,1,P-1,P,P+1,non-residues; scalars q+k}; " +
	"decoded through UnmarshalBinary or UnmarshalFrom. Oracle: no panic; input not modified; if accepted: 10 further operations do not panic, the re-encoding denotes a member of the promised set according to the math/big models (curve equation over Fp/Fp2, r*P=O for BLS12-381 G1/G2, Euler criterion for QR-512), and decoding the re-encoding gives an Equal value. " +
	"non-trivial = the input has exactly the expected size (reaches the arithmetic checks) or was accepted; distinct = distinct (group, input)" +
	" Added after the sensitivity rounds: receivers of the decoders are fresh, used or arithmetic results; an accepted value must encode like p+O; composite parsers additionally get every prefix, every suffix and every single byte forced to 00/ff of their honest message (thorough: every bit), and VSS deals are sent as arbitrary PLAINTEXT through the genuine sealed transport (verif hook)."

func TestC04_Decode(t *testing.T) {
	ev := evFor("C04")
	ev.Rule(c04Rule)
	ev.Assume("GT elements: no membership promise is checked (the property lists G1/G2 only); only one direction is demanded: accepted => member")
	groups := Groups(tier() == "thorough")
	for i, gi := range groups {
		if !mine(i) {
			continue
		}
		gi := gi
		q, th := 600, 20000
		if gi.Role == 3 {
			q, th = 80, 1500
		} else if gi.Role == 2 || gi.Extra {
			q, th = 200, 5000
		}
		t.Run(gi.Name, func(t *testing.T) {
			rcheck(t, q*shards(), th*shards(), func(t *rapid.T) {
				if rapid.IntRange(0, 4).Draw(t, "what") == 0 {
					c04ScalarCase(t, ev, gi)
				} else {
					c04PointCase(t, ev, gi)
				}
			})
		})
	}
}

var _ kyber.Point
