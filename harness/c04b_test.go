//go:build !constantTime

package harness

// C04 (part B) — composite messages parsed from untrusted bytes: signatures, proofs, ciphertexts,
// VSS deals.  Malformed input must produce an error, never a panic.  The same entry function is
// driven by rapid (structured mutations of honest objects + raw bytes) and by native fuzz targets.

import (
	"math/big"
	"bytes"
	"crypto/sha256"
	"fmt"
	"testing"

	"go.dedis.ch/kyber/v4"
	"go.dedis.ch/kyber/v4/encrypt/ecies"
	"go.dedis.ch/kyber/v4/group/edwards25519"
	"go.dedis.ch/kyber/v4/group/p256"
	"go.dedis.ch/kyber/v4/pairing/bn256"
	"go.dedis.ch/kyber/v4/proof"
	"go.dedis.ch/kyber/v4/share"
	pvss "go.dedis.ch/kyber/v4/share/vss/pedersen"
	rvss "go.dedis.ch/kyber/v4/share/vss/rabin"
	"go.dedis.ch/kyber/v4/shuffle"
	"go.dedis.ch/kyber/v4/sign/anon"
	"go.dedis.ch/kyber/v4/sign/bls"
	"go.dedis.ch/kyber/v4/sign/cosi"
	"go.dedis.ch/kyber/v4/sign/eddsa"
	"go.dedis.ch/kyber/v4/sign/schnorr"
	"pgregory.net/rapid"
)

// compositeTarget: a parser of untrusted bytes with one honest input to mutate.
type compositeTarget struct {
	name   string
	honest []byte
	parse  func(b []byte) // must not panic
}

func compositeTargets() []compositeTarget {
	ed := edwards25519.NewBlakeSHA256Ed25519WithRand(xofStream([]byte("c04b")))
	st := xofStream([]byte("c04b-keys"))
	x := ed.Scalar().Pick(st)
	X := ed.Point().Mul(x, nil)
	msg := []byte("c04b message")
	var ts []compositeTarget
	// Schnorr over several groups
	for _, name := range []string{"ed25519", "p256", "bn256.G1", "bls.kilic.G1", "bls.circl.G2", "qr512", "edvar.ext25519"} {
		gi := groupByName(name)
		g := gi.G
		k := g.Scalar().Pick(st)
		K := g.Point().Mul(k, nil)
		sig, _ := schnorr.Sign(randSuite{g, xofStream([]byte("n" + name))}, k, msg)
		kb := mustMarshalPlain(K)
		ts = append(ts, compositeTarget{"schnorr.Verify/" + name, sig, func(b []byte) { _ = schnorr.Verify(g, K, msg, b) }},
			compositeTarget{"schnorr.VerifyWithChecks(pub)/" + name, kb, func(b []byte) { _ = schnorr.VerifyWithChecks(g, b, msg, sig) }})
	}
	e := eddsa.NewEdDSA(&replayStream{buf: bytes.Repeat([]byte{7}, 32)})
	esig, _ := e.Sign(msg)
	epub := mustMarshalPlain(e.Public)
	ts = append(ts, compositeTarget{"eddsa.VerifyWithChecks(sig)", esig, func(b []byte) { _ = eddsa.VerifyWithChecks(epub, msg, b) }},
		compositeTarget{"eddsa.VerifyWithChecks(pub)", epub, func(b []byte) { _ = eddsa.VerifyWithChecks(b, msg, esig) }},
		compositeTarget{"eddsa.UnmarshalBinary", append(bytes.Repeat([]byte{7}, 32), epub...), func(b []byte) { var k eddsa.EdDSA; _ = k.UnmarshalBinary(b) }})
	// BLS / TBLS
	for _, c := range blsCombos() {
		c := c
		sch := c.scheme()
		a, A := sch.NewKeyPair(st)
		s, _ := sch.Sign(a, msg)
		ts = append(ts, compositeTarget{"bls.Verify/" + c.name, s, func(b []byte) { _ = sch.Verify(A, msg, b) }})
		tsch := c.tscheme()
		pri := share.NewPriPoly(c.key.G, 2, nil, st)
		pub := pri.Commit(c.key.G.Point().Base())
		p0, _ := tsch.Sign(pri.Eval(0), msg)
		p1, _ := tsch.Sign(pri.Eval(1), msg)
		ts = append(ts, compositeTarget{"tbls.VerifyPartial/" + c.name, p0, func(b []byte) { _ = tsch.VerifyPartial(pub, msg, b) }},
			compositeTarget{"tbls.Recover/" + c.name, p0, func(b []byte) { _, _ = tsch.Recover(pub, msg, [][]byte{b, p1, b}, 2, 3) }},
			compositeTarget{"tbls.IndexOf/" + c.name, p0, func(b []byte) { _, _ = tsch.IndexOf(b) }})
	}
	// CoSi
	{
		suite := cosiSuite{ed, xofStream([]byte("cosi"))}
		pubs := []kyber.Point{X, ed.Point().Mul(ed.Scalar().Pick(st), nil)}
		mask, _ := cosi.NewMask(suite, pubs, X)
		v, V := cosi.Commit(suite)
		ch, _ := cosi.Challenge(suite, V, mask.AggregatePublic, msg)
		r, _ := cosi.Response(suite, x, v, ch)
		sig, _ := cosi.Sign(suite, V, r, mask)
		ts = append(ts, compositeTarget{"cosi.Verify", sig, func(b []byte) { _ = cosi.Verify(suite, pubs, msg, b, cosi.NewThresholdPolicy(1)) }})
	}
	// ring signatures and anonymous-set encryption
	for name, s := range map[string]anon.Suite{"ed25519": edwards25519.NewBlakeSHA256Ed25519(), "p256": p256.NewBlakeSHA256P256(), "bn256.G1": bn256.NewSuiteG1()} {
		suite := anonSuiteRand{s, xofStream([]byte("anon" + name))}
		k0, k1 := suite.Scalar().Pick(st), suite.Scalar().Pick(st)
		set := anon.Set{suite.Point().Mul(k0, nil), suite.Point().Mul(k1, nil)}
		usig := anon.Sign(suite, msg, set, nil, 1, k1)
		lsig := anon.Sign(suite, msg, set, []byte("scope"), 0, k0)
		ct, _ := anon.Encrypt(suite, msg, set)
		ts = append(ts, compositeTarget{"anon.Verify(unlinkable)/" + name, usig, func(b []byte) { _, _ = anon.Verify(suite, msg, set, nil, b) }},
			compositeTarget{"anon.Verify(linkable)/" + name, lsig, func(b []byte) { _, _ = anon.Verify(suite, msg, set, []byte("scope"), b) }},
			compositeTarget{"anon.Decrypt/" + name, ct, func(b []byte) { _, _ = anon.Decrypt(suite, append([]byte(nil), b...), set, 1, k1) }})
	}
	// ECIES
	for _, name := range []string{"ed25519", "edvar.proj25519.full", "p256", "qr512"} {
		g := groupByName(name).G
		k := g.Scalar().Pick(st)
		ct, _ := ecies.Encrypt(g, g.Point().Mul(k, nil), msg, nil)
		ts = append(ts, compositeTarget{"ecies.Decrypt/" + name, ct, func(b []byte) { _, _ = ecies.Decrypt(g, k, b, nil) }})
	}
	// proofs: a fixed menu of predicates, and the shuffle verifiers
	for _, ps := range []struct {
		name string
		s    proof.Suite
		gi   string
	}{{"ed25519", edwards25519.NewBlakeSHA256Ed25519(), "ed25519"}, {"p256", p256.NewBlakeSHA256P256(), "p256"}} {
		suite := proofSuiteRand{ps.s, xofStream([]byte("proof" + ps.name))}
		g := groupByName(ps.gi).G
		B := g.Point().Base()
		x1, x2 := g.Scalar().Pick(st), g.Scalar().Pick(st)
		B2 := g.Point().Mul(g.Scalar().Pick(st), nil)
		pts := map[string]kyber.Point{"B": B, "B2": B2, "X": g.Point().Mul(x1, B), "Y": g.Point().Add(g.Point().Mul(x1, B), g.Point().Mul(x2, B2)), "Z": g.Point().Pick(st)}
		sec := map[string]kyber.Scalar{"x1": x1, "x2": x2}
		preds := map[string]proof.Predicate{
			"rep":       proof.Rep("X", "x1", "B"),
			"and":       proof.And(proof.Rep("X", "x1", "B"), proof.Rep("Y", "x1", "B", "x2", "B2")),
			"or-of-and": proof.Or(proof.Rep("Z", "x2", "B"), proof.And(proof.Rep("X", "x1", "B"), proof.Rep("Y", "x1", "B", "x2", "B2"))),
		}
		for pn, pred := range preds {
			pred := pred
			choice := map[proof.Predicate]int{pred: 1}
			prf, err := proof.HashProve(suite, "c04b", pred.Prover(suite, sec, pts, choice))
			if err != nil {
				continue
			}
			ts = append(ts, compositeTarget{"proof.HashVerify(" + pn + ")/" + ps.name, prf, func(b []byte) { _ = proof.HashVerify(suite, "c04b", pred.Verifier(suite, pts), b) }})
		}
		// pair shuffle and biffle
		k := 3
		H := g.Point().Mul(g.Scalar().Pick(st), nil)
		var Xs, Ys []kyber.Point
		for i := 0; i < k; i++ {
			r := g.Scalar().Pick(st)
			Xs = append(Xs, g.Point().Mul(r, nil))
			Ys = append(Ys, g.Point().Add(g.Point().Mul(r, H), g.Point().Pick(st)))
		}
		xb, yb, prover := shuffle.Shuffle(g, nil, H, Xs, Ys, xofStream([]byte("shuf"+ps.name)))
		if prf, err := proof.HashProve(suite, "PairShuffle", prover); err == nil {
			ts = append(ts, compositeTarget{"shuffle.Verifier/" + ps.name, prf, func(b []byte) {
				_ = proof.HashVerify(suite, "PairShuffle", shuffle.Verifier(g, nil, H, Xs, Ys, xb, yb), b)
			}})
		}
		X2, Y2 := [2]kyber.Point{Xs[0], Xs[1]}, [2]kyber.Point{Ys[0], Ys[1]}
		bx, by, bprover := shuffle.Biffle(suite, nil, H, X2, Y2, xofStream([]byte("biff"+ps.name)))
		if prf, err := proof.HashProve(suite, "Biffle", bprover); err == nil {
			ts = append(ts, compositeTarget{"shuffle.BiffleVerifier/" + ps.name, prf, func(b []byte) {
				_ = proof.HashVerify(suite, "Biffle", shuffle.BiffleVerifier(suite, nil, H, X2, Y2, bx, by), b)
			}})
		}
	}
	// VSS deals (protobuf) and encrypted deals
	{
		suite := vssSuite{ed, xofStream([]byte("vss"))}
		var vl []kyber.Scalar
		var vp []kyber.Point
		for i := 0; i < 3; i++ {
			l := ed.Scalar().Pick(st)
			vl, vp = append(vl, l), append(vp, ed.Point().Mul(l, nil))
		}
		if d, err := pvss.NewDealer(suite, x, ed.Scalar().Pick(st), vp, 2); err == nil {
			pd, _ := d.PlaintextDeal(1)
			if raw, err := pd.Marshal(); err == nil {
				ts = append(ts, compositeTarget{"pedersen.Deal.Unmarshal", raw, func(b []byte) {
					var dd pvss.Deal
					if dd.Unmarshal(b, suite) == nil {
						_, _ = dd.Marshal() // an accepted deal can be encoded again
					}
				}})
			}
			if enc, err := d.EncryptedDeal(1); err == nil {
				ts = append(ts, compositeTarget{"pedersen.ProcessEncryptedDeal(cipher)", enc.Cipher, func(b []byte) {
					v, _ := pvss.NewVerifier(suite, vl[1], X, vp)
					_, _ = v.ProcessEncryptedDeal(&pvss.EncryptedDeal{DHKey: enc.DHKey, Signature: enc.Signature, Cipher: b})
				}}, compositeTarget{"pedersen.ProcessEncryptedDeal(dhkey)", enc.DHKey, func(b []byte) {
					v, _ := pvss.NewVerifier(suite, vl[1], X, vp)
					_, _ = v.ProcessEncryptedDeal(&pvss.EncryptedDeal{DHKey: b, Signature: enc.Signature, Cipher: enc.Cipher})
				}})
			}
		}
		if d, err := rvss.NewDealer(suite, x, ed.Scalar().Pick(st), vp, 2); err == nil {
			pd, _ := d.PlaintextDeal(1)
			if raw, err := pd.Marshal(); err == nil {
				ts = append(ts, compositeTarget{"rabin.Deal.Unmarshal", raw, func(b []byte) {
					var dd rvss.Deal
					if dd.Unmarshal(b, suite) == nil {
						_, _ = dd.Marshal()
					}
				}})
			}
		}
		// A (Byzantine) dealer sends a malformed PLAINTEXT deal through the genuine transport: signed
		// ephemeral key + AEAD, sealed by the verif-tagged hook Dealer.SealDealBytes.  Verifier 0 matters:
		// a decoded deal without share carries index 0.
		for idx := 0; idx < 2; idx++ {
			idx := idx
			if d, err := pvss.NewDealer(suite, x, ed.Scalar().Pick(st), vp, 2); err == nil {
				pd, _ := d.PlaintextDeal(idx)
				if raw, err := pd.Marshal(); err == nil {
					ts = append(ts, compositeTarget{fmt.Sprintf("pedersen.ProcessEncryptedDeal(plaintext,v%d)", idx), raw, func(b []byte) {
						enc, err := d.SealDealBytes(idx, b)
						if err != nil {
							return
						}
						v, _ := pvss.NewVerifier(suite, vl[idx], X, vp)
						if r, err := v.ProcessEncryptedDeal(enc); err == nil && r != nil {
							_ = v.DealCertified()
							v.SetTimeout()
							_ = v.Deal()
						}
					}})
				}
			}
			if d, err := rvss.NewDealer(suite, x, ed.Scalar().Pick(st), vp, 2); err == nil {
				pd, _ := d.PlaintextDeal(idx)
				if raw, err := pd.Marshal(); err == nil {
					ts = append(ts, compositeTarget{fmt.Sprintf("rabin.ProcessEncryptedDeal(plaintext,v%d)", idx), raw, func(b []byte) {
						enc, err := d.SealDealBytes(idx, b)
						if err != nil {
							return
						}
						v, _ := rvss.NewVerifier(suite, vl[idx], X, vp)
						if r, err := v.ProcessEncryptedDeal(enc); err == nil && r != nil {
							_ = v.DealCertified()
							v.SetTimeout()
							_ = v.Deal()
						}
					}})
				}
			}
		}
	}
	_ = sha256.New
	_ = bls.NewSchemeOnG1
	return ts
}

func mustMarshalPlain(m kyber.Marshaling) []byte {
	b, err := m.MarshalBinary()
	if err != nil {
		panic(err)
	}
	return b
}

var compositeCache []compositeTarget

func getCompositeTargets() []compositeTarget {
	if compositeCache == nil {
		compositeCache = compositeTargets()
	}
	return compositeCache
}

func genCompositeInput(t *rapid.T, honest []byte) ([]byte, string) {
	kind := rapid.SampledFrom([]string{"honest", "bitflip", "bitflip", "byteset", "truncate", "truncate", "extend", "splice", "random", "empty", "zeros", "ff", "dup-prefix", "length-field"}).Draw(t, "ckind")
	switch kind {
	case "honest":
		return append([]byte(nil), honest...), kind
	case "bitflip":
		return flipBits(t, honest, "cf"), kind
	case "byteset":
		out := append([]byte(nil), honest...)
		if len(out) > 0 {
			out[uniformInt(t, 0, len(out)-1, "pos")] = rapid.SampledFrom([]byte{0, 0xff, 0x80, 0x7f, 1, 0xc0}).Draw(t, "val")
		}
		return out, kind
	case "truncate":
		if len(honest) == 0 {
			return nil, kind
		}
		return append([]byte(nil), honest[:uniformInt(t, 0, len(honest)-1, "tl")]...), kind
	case "extend":
		return append(append([]byte(nil), honest...), rapid.SliceOfN(rapid.Byte(), 1, 64).Draw(t, "ext")...), kind
	case "splice":
		if len(honest) < 2 {
			return nil, kind
		}
		a := uniformInt(t, 0, len(honest)-1, "a")
		b := uniformInt(t, a, len(honest), "b")
		return append(append([]byte(nil), honest[:a]...), honest[b:]...), kind
	case "random":
		n := rapid.IntRange(0, 2*len(honest)+8).Draw(t, "n")
		return rapid.SliceOfN(rapid.Byte(), n, n).Draw(t, "raw"), kind
	case "empty":
		return nil, kind
	case "zeros":
		return make([]byte, rapid.IntRange(0, 2*len(honest)+8).Draw(t, "n")), kind
	case "ff":
		return bytes.Repeat([]byte{0xff}, rapid.IntRange(0, 2*len(honest)+8).Draw(t, "n")), kind
	case "dup-prefix":
		n := uniformInt(t, 0, len(honest), "n")
		return append(append([]byte(nil), honest[:n]...), honest...), kind
	default: // protobuf-style length / varint fields set to huge values
		out := append([]byte(nil), honest...)
		if len(out) > 1 {
			p := uniformInt(t, 0, len(out)-2, "pos")
			out[p], out[p+1] = 0xff, 0xff
		}
		return out, kind
	}
}

func TestC04_Composite(t *testing.T) {
	ev := evFor("C04")
	targets := getCompositeTargets()
	for _, tg := range targets {
		// self-check: the honest input must be handled without panic
		if pn := safely(func() { tg.parse(tg.honest) }); pn != "" {
			violationOrKnown(t, ev, "C04/composite/"+tg.name, "the honest input makes %s panic: %s", tg.name, pn)
		}
	}
	rcheck(t, 40*len(targets), 1500*len(targets), func(t *rapid.T) {
		tg := targets[rapid.IntRange(0, len(targets)-1).Draw(t, "target")]
		in, kind := genCompositeInput(t, tg.honest)
		if pn := safely(func() { tg.parse(in) }); pn != "" {
			violationOrKnown(t, ev, "C04/composite/"+tg.name, "%s panicked on a %s input (%d bytes): %s\ninput=%x", tg.name, kind, len(in), pn, in)
		}
		ev.Case(kind != "honest", fmt.Sprintf("composite %s %s %x", tg.name, kind, in), "composite:"+tg.name, "composite-kind:"+kind)
	})
}

// TestC04_CompositeCuts: EVERY proper prefix and every proper suffix of the honest message of every
// composite parser (a truncation bug usually lives in a window of a few lengths: "header complete
// but fewer than 16 bytes follow"), and every single byte set to 0x00 / 0xff; thorough tier additionally every single bit flipped.
func TestC04_CompositeCuts(t *testing.T) {
	ev := evFor("C04")
	for i, tg := range getCompositeTargets() {
		if !mine(i) {
			continue
		}
		try := func(kind string, in []byte) {
			if pn := safely(func() { tg.parse(in) }); pn != "" {
				violationOrKnown(t, ev, "C04/composite/"+tg.name, "%s panicked on a %s input (%d bytes): %s\ninput=%x", tg.name, kind, len(in), pn, in)
			}
			ev.Case(true, fmt.Sprintf("composite %s %s len=%d", tg.name, kind, len(in)), "composite:"+tg.name, "composite-kind:"+kind)
		}
		for n := 0; n < len(tg.honest); n++ {
			try("prefix", append([]byte(nil), tg.honest[:n]...))
			if n > 0 {
				try("suffix", append([]byte(nil), tg.honest[n:]...))
			}
		}
		// every single byte forced to 0x00 / 0xff (padding bits of a trailing bit mask, length and flag
		// bytes); thorough: every single bit flipped
		for n := 0; n < len(tg.honest); n++ {
			for _, v := range []byte{0x00, 0xff} {
				if tg.honest[n] != v {
					in := append([]byte(nil), tg.honest...)
					in[n] = v
					try("byteset-enum", in)
				}
			}
			if tier() == "thorough" {
				for b := 0; b < 8; b++ {
					in := append([]byte(nil), tg.honest...)
					in[n] ^= 1 << uint(b)
					try("bitflip-enum", in)
				}
			}
		}
	}
}

// Native fuzz targets (thorough tier: coverage-guided; quick tier: the seed corpus is replayed as
// ordinary sub-tests).  Input layout: first byte selects the target, the rest is the message.
func FuzzC04_Composite(f *testing.F) {
	targets := getCompositeTargets()
	for i, tg := range targets {
		f.Add(append([]byte{byte(i)}, tg.honest...))
		if len(tg.honest) > 2 {
			f.Add(append([]byte{byte(i)}, tg.honest[:len(tg.honest)/2]...))
		}
	}
	f.Fuzz(func(t *testing.T, data []byte) {
		if len(data) == 0 {
			return
		}
		tg := targets[int(data[0])%len(targets)]
		tg.parse(data[1:]) // a panic is the fuzzer's crash signal
	})
}

// FuzzC04_Points: byte-level fuzzing of the point and scalar decoders of every group, with the
// membership oracle of part A inside the target.
func FuzzC04_Points(f *testing.F) {
	groups := Groups(false)
	for i, gi := range groups {
		f.Add(append([]byte{byte(i)}, mustMarshalPlain(basePoint(gi))...))
		f.Add(append([]byte{byte(i)}, mustMarshalPlain(nullPoint(gi))...))
		f.Add(append([]byte{byte(i)}, bytes.Repeat([]byte{0xff}, gi.G.PointLen())...))
		f.Add(append([]byte{byte(i | 0x80)}, mustMarshalPlain(gi.G.Scalar().One())...))
		if gi.Role == 1 && refFor(gi) != nil && gi.G.PointLen() == 48 {
			// BLS12-381 G1: the first curve point (smallest x) outside the prime-order subgroup, compressed
			// and in the uncompressed x||y form, and the generator in the uncompressed form
			for x := big.NewInt(1); ; x.Add(x, big1) {
				if y := fsqrt(modelBLSG1.rhs(x), modelBLSG1.P); y != nil {
					pt := wPoint{X: new(big.Int).Set(x), Y: y}
					if !modelBLSG1.InSubgroup(pt) {
						f.Add(append([]byte{byte(i)}, encBLSG1(pt)...))
						f.Add(append(append([]byte{byte(i)}, bigToBytes(pt.X, 48, false)...), bigToBytes(pt.Y, 48, false)...))
						break
					}
				}
			}
			if bp, ok := decBLSG1(mustMarshalPlain(basePoint(gi))); ok {
				f.Add(append(append([]byte{byte(i)}, bigToBytes(bp.X, 48, false)...), bigToBytes(bp.Y, 48, false)...))
			}
		}
	}
	f.Fuzz(func(t *testing.T, data []byte) {
		if len(data) == 0 {
			return
		}
		gi := groups[int(data[0]&0x7f)%len(groups)]
		in := data[1:]
		if data[0]&0x80 != 0 {
			s := gi.G.Scalar()
			if s.UnmarshalBinary(in) == nil {
				_ = gi.G.Scalar().Add(s, s)
				_ = gi.G.Point().Mul(s, basePoint(gi))
			}
			return
		}
		p := gi.G.Point()
		if p.UnmarshalBinary(in) != nil {
			return
		}
		re := mustMarshalPlain(p)
		_ = gi.G.Point().Add(p, basePoint(gi))
		_ = gi.G.Point().Mul(gi.G.Scalar().SetInt64(3), p)
		if member, why, ok := c04Member(gi, re); ok && !member {
			t.Fatalf("%s accepted %x which is outside the promised set (%s)", gi.Name, in, why)
		}
		q := gi.G.Point()
		if err := q.UnmarshalBinary(re); err != nil || !q.Equal(p) {
			t.Fatalf("%s: re-encoding %x of accepted input %x does not round-trip", gi.Name, re, in)
		}
	})
}
