//go:build !constantTime

package harness

// C05 — value semantics: receiver set, operands intact, aliasing safe, Clone/Set independent.
//
// Oracle: twin execution.  The reference state is the list of encodings of all pool variables.
// Every step is first executed on values re-created from those encodings (fresh objects, fresh
// receiver, no aliasing), which yields the expected encoding of the receiver; all other variables
// must keep theirs.  Then the step runs on the real, possibly aliased pool objects, and the
// encodings of ALL pool variables are compared with the reference.

import (
	"bytes"
	"fmt"
	"math/big"
	"strings"
	"testing"

	"go.dedis.ch/kyber/v4"
	"pgregory.net/rapid"
)

const (
	c05Points  = 4
	c05Scalars = 3
)

type c05State struct {
	gi   *GroupInfo
	pts  []kyber.Point
	scs  []kyber.Scalar
	penc [][]byte // reference encodings
	senc [][]byte
	// provenance: variable was produced by Clone/Set from another variable at some earlier step
	pDerived []bool
	sDerived []bool
}

func (s *c05State) freshPoint(t *rapid.T, i int) kyber.Point {
	p := s.gi.G.Point()
	if err := p.UnmarshalBinary(s.penc[i]); err != nil {
		t.Fatalf("harness: cannot re-create point %d from its own encoding %x: %v", i, s.penc[i], err)
	}
	return markVT(s.gi, p)
}

func (s *c05State) freshScalar(t *rapid.T, i int) kyber.Scalar {
	x := s.gi.G.Scalar()
	if err := x.UnmarshalBinary(s.senc[i]); err != nil {
		t.Fatalf("harness: cannot re-create scalar %d from its own encoding %x: %v", i, s.senc[i], err)
	}
	return x
}

func aliasPattern(r int, ops ...int) string {
	switch len(ops) {
	case 0:
		return "nullary"
	case 1:
		if r == ops[0] {
			return "r=a"
		}
		return "none"
	default:
		a, b := ops[0], ops[1]
		switch {
		case r == a && r == b:
			return "r=a=b"
		case r == a:
			return "r=a"
		case r == b:
			return "r=b"
		case a == b:
			return "a=b"
		}
		return "none"
	}
}

func c05Check(t *rapid.T, ev *evProp, s *c05State, op string, step int, history []string) {
	gi := s.gi
	for i, p := range s.pts {
		got := mustMarshal(t, p)
		if !bytes.Equal(got, s.penc[i]) {
			key := fmt.Sprintf("C05/%s/%s", gi.Name, op)
			if violationOrKnown(t, ev, key, "step %d %s: point var P%d encodes %x, unaliased reference says %x\nprogram:\n  %s",
				step, op, i, got, s.penc[i], strings.Join(history, "\n  ")) {
				s.resync(t)
				return
			}
		}
	}
	for i, x := range s.scs {
		got := mustMarshal(t, x)
		if !bytes.Equal(got, s.senc[i]) {
			key := fmt.Sprintf("C05/%s/scalar.%s", gi.Name, op)
			if violationOrKnown(t, ev, key, "step %d %s: scalar var S%d encodes %x, unaliased reference says %x\nprogram:\n  %s",
				step, op, i, got, s.senc[i], strings.Join(history, "\n  ")) {
				s.resync(t)
				return
			}
		}
	}
}

// resync replaces the real pool by fresh objects holding the reference values (used only to
// continue past a listed known finding).
func (s *c05State) resync(t *rapid.T) {
	for i := range s.pts {
		s.pts[i] = s.freshPoint(t, i)
	}
	for i := range s.scs {
		s.scs[i] = s.freshScalar(t, i)
	}
}

func c05Program(t *rapid.T, ev *evProp, gi *GroupInfo, maxSteps int) {
	g := gi.G
	s := &c05State{gi: gi}
	var init []string
	for i := 0; i < c05Points; i++ {
		pv := genPoint(t, gi, fmt.Sprintf("P%d", i))
		s.pts = append(s.pts, pv.P)
		s.penc = append(s.penc, mustMarshal(t, pv.P))
		init = append(init, fmt.Sprintf("P%d=%s", i, pv.Desc))
	}
	for i := 0; i < c05Scalars; i++ {
		sv := genScalar(t, gi, fmt.Sprintf("S%d", i))
		s.scs = append(s.scs, sv.S)
		s.senc = append(s.senc, mustMarshal(t, sv.S))
		init = append(init, fmt.Sprintf("S%d=%s", i, sv))
	}
	s.pDerived = make([]bool, c05Points)
	s.sDerived = make([]bool, c05Scalars)
	history := []string{strings.Join(init, " ")}
	pops := []string{"Add", "Sub", "Neg", "Mul", "Null", "Set", "Clone", "Add", "Sub", "Mul"}
	if gi.HasBase {
		pops = append(pops, "Base")
	}
	if gi.MulNil {
		pops = append(pops, "MulNil")
	}
	if gi.HasPick {
		pops = append(pops, "Pick")
	}
	if gi.HasEmbed {
		pops = append(pops, "Embed")
	}
	sops := []string{"sAdd", "sSub", "sNeg", "sMul", "sDiv", "sInv", "sSet", "sClone", "sZero", "sOne", "sSetInt64", "sSetBytes", "sPick"}
	nsteps := rapid.IntRange(1, maxSteps).Draw(t, "nsteps")
	nontrivial := false
	var labels []string
	for step := 0; step < nsteps; step++ {
		var op string
		if rapid.IntRange(0, 9).Draw(t, "kind") < 7 {
			op = rapid.SampledFrom(pops).Draw(t, "op")
		} else {
			op = rapid.SampledFrom(sops).Draw(t, "op")
		}
		pi := func(l string) int { return rapid.IntRange(0, c05Points-1).Draw(t, l) }
		sidx := func(l string) int { return rapid.IntRange(0, c05Scalars-1).Draw(t, l) }
		var desc, pat string
		touchDerived := false
		switch op {
		case "Add", "Sub":
			r, a, b := pi("r"), pi("a"), pi("b")
			pat = aliasPattern(r, a, b)
			fa, fb := s.freshPoint(t, a), s.freshPoint(t, b)
			var exp kyber.Point
			if op == "Add" {
				exp = g.Point().Add(fa, fb)
			} else {
				exp = g.Point().Sub(fa, fb)
			}
			want := mustMarshal(t, exp)
			var ret kyber.Point
			if op == "Add" {
				ret = s.pts[r].Add(s.pts[a], s.pts[b])
			} else {
				ret = s.pts[r].Sub(s.pts[a], s.pts[b])
			}
			s.penc[r] = want
			desc = fmt.Sprintf("P%d.%s(P%d,P%d)", r, op, a, b)
			c05Ret(t, ev, gi, op, ret, want, desc)
			touchDerived = s.pDerived[r] || s.pDerived[a] || s.pDerived[b]
		case "Neg", "Set":
			r, a := pi("r"), pi("a")
			pat = aliasPattern(r, a)
			fa := s.freshPoint(t, a)
			var want []byte
			var ret kyber.Point
			if op == "Neg" {
				want = mustMarshal(t, g.Point().Neg(fa))
				ret = s.pts[r].Neg(s.pts[a])
			} else {
				want = append([]byte(nil), s.penc[a]...)
				ret = s.pts[r].Set(s.pts[a])
				if r != a {
					s.pDerived[r], s.pDerived[a] = true, true
				}
			}
			s.penc[r] = want
			desc = fmt.Sprintf("P%d.%s(P%d)", r, op, a)
			c05Ret(t, ev, gi, op, ret, want, desc)
			touchDerived = s.pDerived[r] || s.pDerived[a]
		case "Clone":
			r, a := pi("r"), pi("a")
			pat = aliasPattern(r, a)
			c := s.pts[a].Clone()
			s.pts[r] = markVT(gi, c)
			s.penc[r] = append([]byte(nil), s.penc[a]...)
			if r != a {
				s.pDerived[r], s.pDerived[a] = true, true
			}
			desc = fmt.Sprintf("P%d=P%d.Clone()", r, a)
			touchDerived = true
		case "Mul":
			r, a, k := pi("r"), pi("a"), sidx("k")
			pat = aliasPattern(r, a)
			want := mustMarshal(t, g.Point().Mul(s.freshScalar(t, k), s.freshPoint(t, a)))
			ret := s.pts[r].Mul(s.scs[k], s.pts[a])
			s.penc[r] = want
			desc = fmt.Sprintf("P%d.Mul(S%d,P%d)", r, k, a)
			c05Ret(t, ev, gi, op, ret, want, desc)
			touchDerived = s.pDerived[r] || s.pDerived[a] || s.sDerived[k]
		case "MulNil":
			r, k := pi("r"), sidx("k")
			pat = "nullary"
			want := mustMarshal(t, g.Point().Mul(s.freshScalar(t, k), basePoint(gi)))
			ret := s.pts[r].Mul(s.scs[k], nil)
			s.penc[r] = want
			desc = fmt.Sprintf("P%d.Mul(S%d,nil)", r, k)
			c05Ret(t, ev, gi, op, ret, want, desc)
			touchDerived = s.pDerived[r] || s.sDerived[k]
		case "Null", "Base":
			r := pi("r")
			pat = "nullary"
			var want []byte
			var ret kyber.Point
			if op == "Null" {
				want = mustMarshal(t, g.Point().Null())
				ret = s.pts[r].Null()
			} else {
				want = mustMarshal(t, g.Point().Base())
				ret = s.pts[r].Base()
			}
			s.penc[r] = want
			desc = fmt.Sprintf("P%d.%s()", r, op)
			c05Ret(t, ev, gi, op, ret, want, desc)
			touchDerived = s.pDerived[r]
		case "Pick":
			r := pi("r")
			pat = "nullary"
			seed := genSeed(t, "seed")
			want := mustMarshal(t, g.Point().Pick(xofStream(seed)))
			ret := s.pts[r].Pick(xofStream(seed))
			s.penc[r] = want
			desc = fmt.Sprintf("P%d.Pick(%x)", r, seed)
			c05Ret(t, ev, gi, op, ret, want, desc)
			touchDerived = s.pDerived[r]
		case "Embed":
			r := pi("r")
			pat = "nullary"
			seed := genSeed(t, "seed")
			data := rapid.SliceOfN(rapid.Byte(), 0, g.Point().EmbedLen()).Draw(t, "data")
			want := mustMarshal(t, g.Point().Embed(data, xofStream(seed)))
			ret := s.pts[r].Embed(data, xofStream(seed))
			s.penc[r] = want
			desc = fmt.Sprintf("P%d.Embed(%x,%x)", r, data, seed)
			c05Ret(t, ev, gi, op, ret, want, desc)
			touchDerived = s.pDerived[r]
		case "sAdd", "sSub", "sMul", "sDiv":
			r, a, b := sidx("r"), sidx("a"), sidx("b")
			if op == "sDiv" && !isUnit(bytesToBig(s.senc[b], scalarLE(s.scs[b])), gi.Order) {
				op = "sMul" // Div is defined for invertible divisors only
			}
			pat = aliasPattern(r, a, b)
			fa, fb := s.freshScalar(t, a), s.freshScalar(t, b)
			var exp, ret kyber.Scalar
			switch op {
			case "sAdd":
				exp, ret = g.Scalar().Add(fa, fb), s.scs[r].Add(s.scs[a], s.scs[b])
			case "sSub":
				exp, ret = g.Scalar().Sub(fa, fb), s.scs[r].Sub(s.scs[a], s.scs[b])
			case "sMul":
				exp, ret = g.Scalar().Mul(fa, fb), s.scs[r].Mul(s.scs[a], s.scs[b])
			case "sDiv":
				exp, ret = g.Scalar().Div(fa, fb), s.scs[r].Div(s.scs[a], s.scs[b])
			}
			want := mustMarshal(t, exp)
			s.senc[r] = want
			desc = fmt.Sprintf("S%d.%s(S%d,S%d)", r, op[1:], a, b)
			c05RetS(t, ev, gi, op, ret, want, desc)
			touchDerived = s.sDerived[r] || s.sDerived[a] || s.sDerived[b]
		case "sNeg", "sInv", "sSet":
			r, a := sidx("r"), sidx("a")
			if op == "sInv" && !isUnit(bytesToBig(s.senc[a], scalarLE(s.scs[a])), gi.Order) {
				op = "sNeg"
			}
			pat = aliasPattern(r, a)
			fa := s.freshScalar(t, a)
			var exp, ret kyber.Scalar
			switch op {
			case "sNeg":
				exp, ret = g.Scalar().Neg(fa), s.scs[r].Neg(s.scs[a])
			case "sInv":
				exp, ret = g.Scalar().Inv(fa), s.scs[r].Inv(s.scs[a])
			case "sSet":
				exp, ret = fa, s.scs[r].Set(s.scs[a])
				if r != a {
					s.sDerived[r], s.sDerived[a] = true, true
				}
			}
			want := mustMarshal(t, exp)
			s.senc[r] = want
			desc = fmt.Sprintf("S%d.%s(S%d)", r, op[1:], a)
			c05RetS(t, ev, gi, op, ret, want, desc)
			touchDerived = s.sDerived[r] || s.sDerived[a]
		case "sClone":
			r, a := sidx("r"), sidx("a")
			pat = aliasPattern(r, a)
			s.scs[r] = s.scs[a].Clone()
			s.senc[r] = append([]byte(nil), s.senc[a]...)
			if r != a {
				s.sDerived[r], s.sDerived[a] = true, true
			}
			desc = fmt.Sprintf("S%d=S%d.Clone()", r, a)
			touchDerived = true
		case "sZero", "sOne", "sSetInt64", "sSetBytes", "sPick":
			r := sidx("r")
			pat = "nullary"
			var exp, ret kyber.Scalar
			switch op {
			case "sZero":
				exp, ret = g.Scalar().Zero(), s.scs[r].Zero()
				desc = fmt.Sprintf("S%d.Zero()", r)
			case "sOne":
				exp, ret = g.Scalar().One(), s.scs[r].One()
				desc = fmt.Sprintf("S%d.One()", r)
			case "sSetInt64":
				v := rapid.Int64Range(0, 1<<40).Draw(t, "v")
				exp, ret = g.Scalar().SetInt64(v), s.scs[r].SetInt64(v)
				desc = fmt.Sprintf("S%d.SetInt64(%d)", r, v)
			case "sSetBytes":
				v, _ := genBig(t, gi.Order, "v")
				b := bigToBytes(v, g.ScalarLen(), scalarLE(s.scs[r]))
				exp, ret = g.Scalar().SetBytes(append([]byte(nil), b...)), s.scs[r].SetBytes(b)
				desc = fmt.Sprintf("S%d.SetBytes(%x)", r, b)
			case "sPick":
				seed := genSeed(t, "seed")
				exp, ret = g.Scalar().Pick(xofStream(seed)), s.scs[r].Pick(xofStream(seed))
				desc = fmt.Sprintf("S%d.Pick(%x)", r, seed)
			}
			want := mustMarshal(t, exp)
			s.senc[r] = want
			c05RetS(t, ev, gi, op, ret, want, desc)
			touchDerived = s.sDerived[r]
		}
		history = append(history, desc)
		labels = append(labels, "op:"+op+"/"+pat, "group:"+gi.Name)
		if (pat != "none" && pat != "nullary") || touchDerived {
			nontrivial = true
		}
		c05Check(t, ev, s, op, step, history)
	}
	if why := constantsIntact(gi); why != "" {
		violationOrKnown(t, ev, "C05/"+gi.Name+"/constant-corrupted", "after the program a group constant has changed: %s\nprogram: %s", why, strings.Join(history, "; "))
	}
	ev.Case(nontrivial, gi.Name+": "+strings.Join(history, "; "), labels...)
}

func c05Ret(t *rapid.T, ev *evProp, gi *GroupInfo, op string, ret kyber.Point, want []byte, desc string) {
	if ret == nil {
		t.Fatalf("[C05/%s/%s] %s returned nil", gi.Name, op, desc)
	}
	got := mustMarshal(t, ret)
	if !bytes.Equal(got, want) {
		violationOrKnown(t, ev, fmt.Sprintf("C05/%s/%s", gi.Name, op),
			"%s: returned value encodes %x, unaliased reference computes %x", desc, got, want)
	}
}

func c05RetS(t *rapid.T, ev *evProp, gi *GroupInfo, op string, ret kyber.Scalar, want []byte, desc string) {
	if ret == nil {
		t.Fatalf("[C05/%s/scalar.%s] %s returned nil", gi.Name, op, desc)
	}
	got := mustMarshal(t, ret)
	if !bytes.Equal(got, want) {
		violationOrKnown(t, ev, fmt.Sprintf("C05/%s/scalar.%s", gi.Name, op),
			"%s: returned value encodes %x, unaliased reference computes %x", desc, got, want)
	}
}

const c05Rule = "case = one group + a program of 1..12 API calls (point ops Add/Sub/Neg/Mul/Mul(s,nil)/Null/Base/Set/Clone/Pick/Embed and scalar ops " +
	"Add/Sub/Neg/Mul/Div/Inv/Set/Clone/Zero/One/SetInt64/SetBytes/Pick) over a pool of 4 point and 3 scalar variables with receiver and operands drawn independently; " +
	"after every step the encodings of all 7 variables and of the returned value are compared with a twin execution on fresh, unaliased values re-created from bytes. " +
	"non-trivial = some step has the receiver aliasing an operand (or both operands equal) or touches a variable connected to another by an earlier Clone/Set; distinct = distinct (group, program text)" +
	" Added: after every program the group constants (Base, Null) are overwritten through values obtained from them and compared with the process-start snapshot."

func TestC05_Programs(t *testing.T) {
	ev := evFor("C05")
	ev.Rule(c05Rule)
	ev.Assume("a fresh Group.Point()/Scalar() is only used as receiver; Inv/Div only with invertible divisors; Embed data <= EmbedLen; methods a group documents as unsupported are not generated")
	groups := Groups(tier() == "thorough")
	rcheck(t, 400*len(groups), 6000*len(groups), func(t *rapid.T) {
		gi := groups[uniformInt(t, 0, len(groups)-1, "group")]
		c05Program(t, ev, gi, 12)
	})
}

// TestC05_Table enumerates the finite table group x {Add,Sub,Neg,Set,Mul,scalar ops} x aliasing
// pattern with generated operand values, so that every cell is hit in every run.
func TestC05_Table(t *testing.T) {
	ev := evFor("C05")
	groups := Groups(tier() == "thorough")
	for gidx, gi := range groups {
		if !mine(gidx) {
			continue
		}
		gi := gi
		t.Run(gi.Name, func(t *testing.T) {
			rcheck(t, 12*shards(), 60*shards(), func(t *rapid.T) { c05TableCase(t, ev, gi) })
		})
	}
	ev.Exhaustive("op x aliasing-pattern table per group (cells; operand values are sampled)")
}

func c05TableCase(t *rapid.T, ev *evProp, gi *GroupInfo) {
	g := gi.G
	a0, b0 := genPoint(t, gi, "A"), genPoint(t, gi, "B")
	k0 := genScalar(t, gi, "k")
	x0, y0 := genScalar(t, gi, "x"), genScalar(t, gi, "y")
	ea, eb := mustMarshal(t, a0.P), mustMarshal(t, b0.P)
	ex, ey, ek := mustMarshal(t, x0.S), mustMarshal(t, y0.S), mustMarshal(t, k0.S)
	mkP := func(e []byte) kyber.Point {
		p := g.Point()
		if err := p.UnmarshalBinary(e); err != nil {
			t.Fatalf("harness: re-decode %x: %v", e, err)
		}
		return markVT(gi, p)
	}
	mkS := func(e []byte) kyber.Scalar {
		s := g.Scalar()
		if err := s.UnmarshalBinary(e); err != nil {
			t.Fatalf("harness: re-decode scalar %x: %v", e, err)
		}
		return s
	}
	type binop struct {
		name string
		f    func(r, a, b kyber.Point) kyber.Point
	}
	for _, op := range []binop{
		{"Add", func(r, a, b kyber.Point) kyber.Point { return r.Add(a, b) }},
		{"Sub", func(r, a, b kyber.Point) kyber.Point { return r.Sub(a, b) }},
	} {
		want := mustMarshal(t, op.f(g.Point(), mkP(ea), mkP(eb)))
		wantAA := mustMarshal(t, op.f(g.Point(), mkP(ea), mkP(ea)))
		check := func(pat string, gotR kyber.Point, ret kyber.Point, wantR []byte, others map[string][2][]byte) {
			desc := fmt.Sprintf("%s %s[%s] A=%s B=%s", gi.Name, op.name, pat, a0.Desc, b0.Desc)
			ev.Case(pat != "none", desc, "table:"+op.name+"/"+pat, "group:"+gi.Name)
			key := fmt.Sprintf("C05/%s/%s", gi.Name, op.name)
			if got := mustMarshal(t, gotR); !bytes.Equal(got, wantR) {
				violationOrKnown(t, ev, key, "%s: receiver encodes %x want %x", desc, got, wantR)
			}
			if got := mustMarshal(t, ret); !bytes.Equal(got, wantR) {
				violationOrKnown(t, ev, key, "%s: returned value encodes %x want %x", desc, got, wantR)
			}
			for n, gw := range others {
				if !bytes.Equal(gw[0], gw[1]) {
					violationOrKnown(t, ev, key, "%s: operand %s changed from %x to %x", desc, n, gw[1], gw[0])
				}
			}
		}
		{ // none
			r, a, b := mkP(eb), mkP(ea), mkP(eb)
			ret := op.f(r, a, b)
			check("none", r, ret, want, map[string][2][]byte{"a": {mustMarshal(t, a), ea}, "b": {mustMarshal(t, b), eb}})
		}
		{ // r=a
			a, b := mkP(ea), mkP(eb)
			ret := op.f(a, a, b)
			check("r=a", a, ret, want, map[string][2][]byte{"b": {mustMarshal(t, b), eb}})
		}
		{ // r=b
			a, b := mkP(ea), mkP(eb)
			ret := op.f(b, a, b)
			check("r=b", b, ret, want, map[string][2][]byte{"a": {mustMarshal(t, a), ea}})
		}
		{ // a=b
			r, a := mkP(eb), mkP(ea)
			ret := op.f(r, a, a)
			check("a=b", r, ret, wantAA, map[string][2][]byte{"a": {mustMarshal(t, a), ea}})
		}
		{ // r=a=b
			a := mkP(ea)
			ret := op.f(a, a, a)
			check("r=a=b", a, ret, wantAA, nil)
		}
	}
	// unary point ops and Mul
	type unop struct {
		name string
		f    func(r, a kyber.Point) kyber.Point
	}
	k := mkS(ek)
	for _, op := range []unop{
		{"Neg", func(r, a kyber.Point) kyber.Point { return r.Neg(a) }},
		{"Set", func(r, a kyber.Point) kyber.Point { return r.Set(a) }},
		{"Mul", func(r, a kyber.Point) kyber.Point { return r.Mul(k, a) }},
	} {
		want := mustMarshal(t, op.f(g.Point(), mkP(ea)))
		key := fmt.Sprintf("C05/%s/%s", gi.Name, op.name)
		{
			r, a := mkP(eb), mkP(ea)
			ret := op.f(r, a)
			desc := fmt.Sprintf("%s %s[none] A=%s k=%s", gi.Name, op.name, a0.Desc, k0)
			ev.Case(false, desc, "table:"+op.name+"/none", "group:"+gi.Name)
			if got := mustMarshal(t, r); !bytes.Equal(got, want) {
				violationOrKnown(t, ev, key, "%s: receiver encodes %x want %x", desc, got, want)
			}
			if got := mustMarshal(t, ret); !bytes.Equal(got, want) {
				violationOrKnown(t, ev, key, "%s: returned value encodes %x want %x", desc, got, want)
			}
			if got := mustMarshal(t, a); !bytes.Equal(got, ea) {
				violationOrKnown(t, ev, key, "%s: operand changed from %x to %x", desc, ea, got)
			}
		}
		{
			a := mkP(ea)
			ret := op.f(a, a)
			desc := fmt.Sprintf("%s %s[r=a] A=%s k=%s", gi.Name, op.name, a0.Desc, k0)
			ev.Case(true, desc, "table:"+op.name+"/r=a", "group:"+gi.Name)
			if got := mustMarshal(t, a); !bytes.Equal(got, want) {
				violationOrKnown(t, ev, key, "%s: receiver encodes %x want %x", desc, got, want)
			}
			if got := mustMarshal(t, ret); !bytes.Equal(got, want) {
				violationOrKnown(t, ev, key, "%s: returned value encodes %x want %x", desc, got, want)
			}
		}
		if got := mustMarshal(t, k); !bytes.Equal(got, ek) {
			violationOrKnown(t, ev, key, "%s %s: scalar operand changed from %x to %x", gi.Name, op.name, ek, got)
		}
	}
	// Mul with a scalar operand that was DECODED from an accepted non-canonical encoding (Ed25519
	// accepts unreduced 32-byte strings): the operand is read only - it stays Equal to a twin decoded
	// from the same bytes (an implementation that normalises its operand in place changes it without
	// changing its canonical encoding).  The PRODUCT is not asserted: arithmetic on unreduced Ed25519
	// scalars is wrong on the pinned tree (DESIGN 6.3, outside every listed property).
	if len(ek) == 32 && gi.Order != nil {
		m := int64(1 + rapid.IntRange(0, 14).Draw(t, "unreduced.m"))
		v := new(big.Int).Add(bytesToBig(ek, true), new(big.Int).Mul(gi.Order, big.NewInt(m)))
		if v.BitLen() <= 256 {
			ub := bigToBytes(v, 32, true)
			kU, twin := g.Scalar(), g.Scalar()
			if kU.UnmarshalBinary(ub) == nil && twin.UnmarshalBinary(ub) == nil && kU.Equal(twin) {
				for _, shape := range []string{"fresh", "r=a", "base"} {
					var got kyber.Point
					switch shape {
					case "fresh":
						got = g.Point().Mul(kU, mkP(ea))
					case "r=a":
						a := mkP(ea)
						got = a.Mul(kU, a)
					default:
						if !gi.MulNil {
							continue
						}
						got = g.Point().Mul(kU, nil)
					}
					desc := fmt.Sprintf("%s Mul[%s] with the scalar decoded from the unreduced encoding %x", gi.Name, shape, ub)
					ev.Case(true, desc, "table:Mul/unreduced-scalar", "group:"+gi.Name)
					_ = got
					if !kU.Equal(twin) || !twin.Equal(kU) {
						violationOrKnown(t, ev, "C05/"+gi.Name+"/Mul", "%s: the scalar operand is no longer Equal to a twin decoded from the same bytes", desc)
						kU = g.Scalar()
						_ = kU.UnmarshalBinary(ub)
					}
				}
			}
		}
	}
	// nullary receiver ops
	{
		nops := []unop{{"Null", func(r, _ kyber.Point) kyber.Point { return r.Null() }}}
		if gi.HasBase {
			nops = append(nops, unop{"Base", func(r, _ kyber.Point) kyber.Point { return r.Base() }})
		}
		for _, op := range nops {
			want := mustMarshal(t, op.f(g.Point(), nil))
			r := mkP(ea)
			ret := op.f(r, nil)
			desc := fmt.Sprintf("%s %s[] on A=%s", gi.Name, op.name, a0.Desc)
			ev.Case(false, desc, "table:"+op.name+"/nullary", "group:"+gi.Name)
			key := fmt.Sprintf("C05/%s/%s", gi.Name, op.name)
			if got := mustMarshal(t, r); !bytes.Equal(got, want) {
				violationOrKnown(t, ev, key, "%s: receiver encodes %x want %x", desc, got, want)
			}
			if got := mustMarshal(t, ret); !bytes.Equal(got, want) {
				violationOrKnown(t, ev, key, "%s: returned value encodes %x want %x", desc, got, want)
			}
		}
	}
	// Clone / Set independence: mutate the copy in every way, source must stay; and vice versa.
	for _, mode := range []string{"Clone", "Set"} {
		muts := []struct {
			name string
			f    func(p kyber.Point)
		}{
			{"Null", func(p kyber.Point) { p.Null() }},
			{"Neg", func(p kyber.Point) { p.Neg(p) }},
			{"Add", func(p kyber.Point) { p.Add(p, mkP(eb)) }},
			{"Mul", func(p kyber.Point) { p.Mul(k, p) }},
		}
		if gi.HasBase {
			muts = append(muts, struct {
				name string
				f    func(p kyber.Point)
			}{"Base", func(p kyber.Point) { p.Base() }})
		}
		for _, mu := range muts {
			for _, dir := range []string{"mutate-copy", "mutate-source"} {
				src := mkP(ea)
				var cp kyber.Point
				if mode == "Clone" {
					cp = src.Clone()
				} else {
					cp = mkP(eb).Set(src)
				}
				desc := fmt.Sprintf("%s %s then %s %s A=%s", gi.Name, mode, dir, mu.name, a0.Desc)
				ev.Case(true, desc, "table:"+mode+"/"+dir+"/"+mu.name, "group:"+gi.Name)
				key := fmt.Sprintf("C05/%s/%s", gi.Name, mode)
				if dir == "mutate-copy" {
					mu.f(cp)
					if got := mustMarshal(t, src); !bytes.Equal(got, ea) {
						violationOrKnown(t, ev, key, "%s: source changed from %x to %x", desc, ea, got)
					}
				} else {
					mu.f(src)
					if got := mustMarshal(t, cp); !bytes.Equal(got, ea) {
						violationOrKnown(t, ev, key, "%s: copy changed from %x to %x", desc, ea, got)
					}
				}
			}
		}
	}
	// scalar table
	type sbin struct {
		name string
		f    func(r, a, b kyber.Scalar) kyber.Scalar
		ok   bool
	}
	yUnit := isUnit(y0.V, gi.Order)
	xUnit := isUnit(x0.V, gi.Order)
	for _, op := range []sbin{
		{"Add", func(r, a, b kyber.Scalar) kyber.Scalar { return r.Add(a, b) }, true},
		{"Sub", func(r, a, b kyber.Scalar) kyber.Scalar { return r.Sub(a, b) }, true},
		{"Mul", func(r, a, b kyber.Scalar) kyber.Scalar { return r.Mul(a, b) }, true},
		{"Div", func(r, a, b kyber.Scalar) kyber.Scalar { return r.Div(a, b) }, yUnit && xUnit},
	} {
		if !op.ok {
			continue
		}
		key := fmt.Sprintf("C05/%s/scalar.%s", gi.Name, op.name)
		want := mustMarshal(t, op.f(g.Scalar(), mkS(ex), mkS(ey)))
		wantXX := mustMarshal(t, op.f(g.Scalar(), mkS(ex), mkS(ex)))
		run := func(pat string, r, a, b kyber.Scalar, wantR []byte, keepA, keepB bool) {
			ret := op.f(r, a, b)
			desc := fmt.Sprintf("%s scalar.%s[%s] x=%s y=%s", gi.Name, op.name, pat, x0, y0)
			ev.Case(pat != "none", desc, "table:s"+op.name+"/"+pat, "group:"+gi.Name)
			if got := mustMarshal(t, r); !bytes.Equal(got, wantR) {
				violationOrKnown(t, ev, key, "%s: receiver encodes %x want %x", desc, got, wantR)
			}
			if got := mustMarshal(t, ret); !bytes.Equal(got, wantR) {
				violationOrKnown(t, ev, key, "%s: returned value encodes %x want %x", desc, got, wantR)
			}
			if keepA {
				if got := mustMarshal(t, a); !bytes.Equal(got, ex) {
					violationOrKnown(t, ev, key, "%s: first operand changed from %x to %x", desc, ex, got)
				}
			}
			if keepB {
				if got := mustMarshal(t, b); !bytes.Equal(got, ey) {
					violationOrKnown(t, ev, key, "%s: second operand changed from %x to %x", desc, ey, got)
				}
			}
		}
		run("none", mkS(ek), mkS(ex), mkS(ey), want, true, true)
		{
			a := mkS(ex)
			run("r=a", a, a, mkS(ey), want, false, true)
		}
		{
			b := mkS(ey)
			run("r=b", b, mkS(ex), b, want, true, false)
		}
		{
			a := mkS(ex)
			run("a=b", mkS(ek), a, a, wantXX, true, false)
		}
		{
			a := mkS(ex)
			run("r=a=b", a, a, a, wantXX, false, false)
		}
	}
	type sun struct {
		name string
		f    func(r, a kyber.Scalar) kyber.Scalar
		ok   bool
	}
	for _, op := range []sun{
		{"Neg", func(r, a kyber.Scalar) kyber.Scalar { return r.Neg(a) }, true},
		{"Inv", func(r, a kyber.Scalar) kyber.Scalar { return r.Inv(a) }, xUnit},
		{"Set", func(r, a kyber.Scalar) kyber.Scalar { return r.Set(a) }, true},
	} {
		if !op.ok {
			continue
		}
		key := fmt.Sprintf("C05/%s/scalar.%s", gi.Name, op.name)
		want := mustMarshal(t, op.f(g.Scalar(), mkS(ex)))
		{
			r, a := mkS(ey), mkS(ex)
			ret := op.f(r, a)
			desc := fmt.Sprintf("%s scalar.%s[none] x=%s", gi.Name, op.name, x0)
			ev.Case(false, desc, "table:s"+op.name+"/none", "group:"+gi.Name)
			if got := mustMarshal(t, r); !bytes.Equal(got, want) {
				violationOrKnown(t, ev, key, "%s: receiver encodes %x want %x", desc, got, want)
			}
			if got := mustMarshal(t, ret); !bytes.Equal(got, want) {
				violationOrKnown(t, ev, key, "%s: returned value encodes %x want %x", desc, got, want)
			}
			if got := mustMarshal(t, a); !bytes.Equal(got, ex) {
				violationOrKnown(t, ev, key, "%s: operand changed from %x to %x", desc, ex, got)
			}
		}
		{
			a := mkS(ex)
			ret := op.f(a, a)
			desc := fmt.Sprintf("%s scalar.%s[r=a] x=%s", gi.Name, op.name, x0)
			ev.Case(true, desc, "table:s"+op.name+"/r=a", "group:"+gi.Name)
			if got := mustMarshal(t, a); !bytes.Equal(got, want) {
				violationOrKnown(t, ev, key, "%s: receiver encodes %x want %x", desc, got, want)
			}
			if got := mustMarshal(t, ret); !bytes.Equal(got, want) {
				violationOrKnown(t, ev, key, "%s: returned value encodes %x want %x", desc, got, want)
			}
		}
	}
	// scalar Clone/Set independence
	for _, mode := range []string{"Clone", "Set"} {
		for _, dir := range []string{"mutate-copy", "mutate-source"} {
			for _, mu := range []struct {
				name string
				f    func(s kyber.Scalar)
			}{
				{"Zero", func(s kyber.Scalar) { s.Zero() }},
				{"One", func(s kyber.Scalar) { s.One() }},
				{"Neg", func(s kyber.Scalar) { s.Neg(s) }},
				{"AddOne", func(s kyber.Scalar) { s.Add(s, g.Scalar().One()) }},
				{"Mul", func(s kyber.Scalar) { s.Mul(s, mkS(ey)) }},
				{"SetInt64", func(s kyber.Scalar) { s.SetInt64(7) }},
			} {
				src := mkS(ex)
				var cp kyber.Scalar
				if mode == "Clone" {
					cp = src.Clone()
				} else {
					cp = mkS(ey).Set(src)
				}
				desc := fmt.Sprintf("%s scalar %s then %s %s x=%s", gi.Name, mode, dir, mu.name, x0)
				ev.Case(true, desc, "table:s"+mode+"/"+dir+"/"+mu.name, "group:"+gi.Name)
				key := fmt.Sprintf("C05/%s/scalar.%s", gi.Name, mode)
				if dir == "mutate-copy" {
					mu.f(cp)
					if got := mustMarshal(t, src); !bytes.Equal(got, ex) {
						violationOrKnown(t, ev, key, "%s: source changed from %x to %x", desc, ex, got)
					}
				} else {
					mu.f(src)
					if got := mustMarshal(t, cp); !bytes.Equal(got, ex) {
						violationOrKnown(t, ev, key, "%s: copy changed from %x to %x", desc, ex, got)
					}
				}
			}
		}
	}
}
