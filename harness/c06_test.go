package harness

// C06 — pairings: bilinear, additive, non-degenerate, identity handling, ValidatePairing <=> Pair equality.

import (
	"bytes"
	"fmt"
	"go.dedis.ch/kyber/v4/pairing"
	"math/big"
	"testing"

	"go.dedis.ch/kyber/v4"
	"pgregory.net/rapid"
)

func c06Case(t *rapid.T, ev *evProp, si *SuiteInfo) {
	s := si.S
	g1, g2, gt := si.G1, si.G2, si.GT
	a, b := genScalar(t, g1, "a"), genScalar(t, g1, "b")
	P, P2 := genPoint(t, g1, "P"), genPoint(t, g1, "P2")
	Q, Q2 := genPoint(t, g2, "Q"), genPoint(t, g2, "Q2")
	ctx := fmt.Sprintf("suite=%s a=%s b=%s P=%s P2=%s Q=%s Q2=%s", si.Name, a, b, P.Desc, P2.Desc, Q.Desc, Q2.Desc)
	eq := func(law string, x, y kyber.Point) {
		bx, by := mustMarshal(t, x), mustMarshal(t, y)
		if !x.Equal(y) || !y.Equal(x) || !bytes.Equal(bx, by) {
			violationOrKnown(t, ev, fmt.Sprintf("C06/%s/%s", si.Name, law), "%s broken: lhs=%x rhs=%x\n%s", law, bx, by, ctx)
		}
	}
	OT := gt.G.Point().Null()
	ePQ := s.Pair(P.P, Q.P)
	// bilinearity: a's scalar type is shared by G1, G2 and GT within a suite
	aP := g1.G.Point().Mul(a.S, P.P)
	bQ := g2.G.Point().Mul(b.S, Q.P)
	ab := g1.G.Scalar().Mul(a.S, b.S)
	eq("e(aP,bQ)=ab*e(P,Q)", s.Pair(aP, bQ), gt.G.Point().Mul(ab, ePQ))
	eq("e(aP,Q)=e(P,aQ)", s.Pair(aP, Q.P), s.Pair(P.P, g2.G.Point().Mul(a.S, Q.P)))
	// additivity
	eq("e(P+P2,Q)=e(P,Q)+e(P2,Q)", s.Pair(g1.G.Point().Add(P.P, P2.P), Q.P), gt.G.Point().Add(ePQ, s.Pair(P2.P, Q.P)))
	eq("e(P,Q+Q2)=e(P,Q)+e(P,Q2)", s.Pair(P.P, g2.G.Point().Add(Q.P, Q2.P)), gt.G.Point().Add(ePQ, s.Pair(P.P, Q2.P)))
	eq("e(-P,Q)=-e(P,Q)", s.Pair(g1.G.Point().Neg(P.P), Q.P), gt.G.Point().Neg(ePQ))
	eq("e(P,-Q)=-e(P,Q)", s.Pair(P.P, g2.G.Point().Neg(Q.P)), gt.G.Point().Neg(ePQ))
	// identity
	eq("e(O,Q)=O_T", s.Pair(g1.G.Point().Null(), Q.P), OT)
	eq("e(P,O)=O_T", s.Pair(P.P, g2.G.Point().Null()), OT)
	// order
	qm1 := scalarFromBig(gt.G, new(big.Int).Sub(gt.Order, big1))
	eq("(q-1)e(P,Q)=-e(P,Q)", gt.G.Point().Mul(qm1, ePQ), gt.G.Point().Neg(ePQ))
	// non-degeneracy
	eBB := s.Pair(g1.G.Point().Base(), g2.G.Point().Base())
	if eBB.Equal(OT) {
		violationOrKnown(t, ev, fmt.Sprintf("C06/%s/nondegenerate", si.Name), "e(B1,B2) is the identity of GT")
	}
	// the result of a pairing belongs to the caller: updating e(O,Q) / e(P,O) in place must not change
	// what later identity pairings or GT.Null() return (an identity handed out by reference would)
	for _, acc := range []kyber.Point{s.Pair(g1.G.Point().Null(), Q.P), s.Pair(P.P, g2.G.Point().Null()), gt.G.Point().Null()} {
		acc.Add(acc, ePQ)
		acc.Add(acc, eBBsnap(s, g1, g2))
	}
	eq("e(O,Q)=O_T after in-place use of an earlier result", s.Pair(g1.G.Point().Null(), Q.P), gt.G.Point().Null())
	for _, gx := range []*GroupInfo{g1, g2, gt} {
		if why := constantsIntact(gx); why != "" {
			violationOrKnown(t, ev, fmt.Sprintf("C06/%s/constant-corrupted", si.Name), "%s: %s\n%s", gx.Name, why, ctx)
		}
	}
	if gt.HasBase {
		// GT.Base() is the pairing of the generators where it exists - on every call, also after a
		// value obtained from Base() has been updated in place (a generator handed out by reference
		// from a cache would be corrupted for the rest of the process)
		gb := gt.G.Point().Base()
		eq("GT.Base()=e(B1,B2)", gb, eBB)
		gb.Mul(ab, gb)
		eq("ab*GT.Base() (in place)=e(aB1,bB2)", gb, s.Pair(g1.G.Point().Mul(a.S, g1.G.Point().Base()), g2.G.Point().Mul(b.S, g2.G.Point().Base())))
		gb.Null()
		eq("GT.Base() after Null() on an earlier copy", gt.G.Point().Base(), eBB)
	}
	// ValidatePairing(p1,p2,i1,i2) == (Pair(p1,p2) == Pair(i1,i2))
	kind := rapid.SampledFrom([]string{"(aP,Q,P,aQ)", "(P,Q,P,Q)", "(O,Q,P,O)", "(P,Q,P2,Q2)", "(aP,Q,P,bQ)", "(O,Q,P,Q)", "(P,Q,O,Q)", "(P,O,P,Q)", "(P,Q,P,O)", "(P,Q,-P,-Q)", "(P,Q,-P,Q)"}).Draw(t, "vp")
	var p1, p2, i1, i2 kyber.Point
	O1, O2 := g1.G.Point().Null(), g2.G.Point().Null()
	switch kind {
	case "(aP,Q,P,aQ)":
		p1, p2, i1, i2 = aP, Q.P, P.P, g2.G.Point().Mul(a.S, Q.P)
	case "(P,Q,P,Q)":
		p1, p2, i1, i2 = P.P, Q.P, P.P.Clone(), Q.P.Clone()
	case "(O,Q,P,O)":
		p1, p2, i1, i2 = O1, Q.P, P.P, O2
	case "(P,Q,P2,Q2)":
		p1, p2, i1, i2 = P.P, Q.P, P2.P, Q2.P
	case "(aP,Q,P,bQ)":
		p1, p2, i1, i2 = aP, Q.P, P.P, bQ
	case "(O,Q,P,Q)":
		p1, p2, i1, i2 = O1, Q.P, P.P, Q.P
	case "(P,Q,O,Q)":
		p1, p2, i1, i2 = P.P, Q.P, O1, Q.P
	case "(P,O,P,Q)":
		p1, p2, i1, i2 = P.P, O2, P.P, Q.P
	case "(P,Q,P,O)":
		p1, p2, i1, i2 = P.P, Q.P, P.P, O2
	case "(P,Q,-P,-Q)":
		p1, p2, i1, i2 = P.P, Q.P, g1.G.Point().Neg(P.P), g2.G.Point().Neg(Q.P)
	case "(P,Q,-P,Q)":
		p1, p2, i1, i2 = P.P, Q.P, g1.G.Point().Neg(P.P), Q.P
	}
	enc := [][]byte{mustMarshal(t, p1), mustMarshal(t, p2), mustMarshal(t, i1), mustMarshal(t, i2)}
	want := s.Pair(p1, p2).Equal(s.Pair(i1, i2))
	got := s.ValidatePairing(p1, p2, i1, i2)
	if got != want {
		violationOrKnown(t, ev, fmt.Sprintf("C06/%s/ValidatePairing", si.Name),
			"ValidatePairing%s=%v but Pair(p1,p2).Equal(Pair(i1,i2))=%v\n p1=%x\n p2=%x\n i1=%x\n i2=%x\n%s", kind, got, want, enc[0], enc[1], enc[2], enc[3], ctx)
	}
	// ValidatePairing must not modify its arguments
	for i, p := range []kyber.Point{p1, p2, i1, i2} {
		if !bytes.Equal(mustMarshal(t, p), enc[i]) {
			violationOrKnown(t, ev, fmt.Sprintf("C06/%s/ValidatePairing-mutates", si.Name), "ValidatePairing changed argument %d\n%s", i, ctx)
		}
	}
	nontrivial := P.Edge || Q.Edge || P.NonN || Q.NonN || isEdgeClass(a.Class) || isEdgeClass(b.Class) || want
	ev.Case(nontrivial, ctx+" vp="+kind, "suite:"+si.Name, "vp:"+kind, fmt.Sprintf("vp-expected:%v", want), "P:"+P.Class, "Q:"+Q.Class, "a:"+a.Class)
}

const c06Rule = "case = (pairing suite, scalars a,b from edge classes, P,P2 in G1 and Q,Q2 in G2 from {O,B,-B,k*B,a*B,Pick,Hash,decoded,sums/doubles/multiples with projective internals}); " +
	"9 pairing identities (bilinearity in both arguments, additivity, negation, identity arguments, order q) + non-degeneracy asserted by Equal and identical GT encodings; " +
	"ValidatePairing is compared with Pair(..).Equal(Pair(..)) on one of 11 quadruple shapes (equal by construction, unrelated, with identity arguments, negated). " +
	"non-trivial = an identity/edge operand or scalar, a non-normalised operand, or a ValidatePairing quadruple that is expected true; distinct = distinct rendered case" +
	" Added after the sensitivity rounds: GT.Base()=e(B1,B2) before and after in-place updates of values obtained from Base(); results of identity pairings are updated in place and e(O,Q)=O_T plus the constants of G1/G2/GT are re-checked."

func TestC06_Pairing(t *testing.T) {
	ev := evFor("C06")
	ev.Rule(c06Rule)
	suites := Suites()
	for i, si := range suites {
		si := si
		_ = i
		t.Run(si.Name, func(t *testing.T) {
			// every shard works on every suite (pairings are the cost; 5 suites < shards)
			rcheck(t, 480, 14400, func(t *rapid.T) { c06Case(t, ev, si) })
		})
	}
}

// eBBsnap: e(B1,B2) computed afresh (a non-identity GT element to add in place).
func eBBsnap(s pairing.Suite, g1, g2 *GroupInfo) kyber.Point {
	return s.Pair(g1.G.Point().Base(), g2.G.Point().Base())
}
