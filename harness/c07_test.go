package harness

// C07 — Shamir sharing (share/poly.go): any >= t distinct shares, in any order, with nil holes,
// surplus and duplicates, reconstruct secret / commitment / polynomial; < t are refused;
// PubPoly.Eval(i) commits to PriPoly.Eval(i); Check accepts exactly the shares on the polynomial;
// Add/Mul commute with evaluation and commitment.  Expected values come from a math/big model.

import (
	"bytes"
	"fmt"
	"math/big"
	"testing"

	"go.dedis.ch/kyber/v4"
	"go.dedis.ch/kyber/v4/share"
	"pgregory.net/rapid"
)

func polyEvalBig(coeffs []*big.Int, x int64, q *big.Int) *big.Int {
	acc := new(big.Int)
	X := big.NewInt(x)
	for i := len(coeffs) - 1; i >= 0; i-- {
		acc.Mul(acc, X)
		acc.Add(acc, coeffs[i])
		acc.Mod(acc, q)
	}
	return acc
}

func c07Groups() []*GroupInfo {
	names := []string{"ed25519", "p256", "bn256.G1", "bls.kilic.G1", "bls.circl.G1", "qr512", "edvar.ext25519"}
	if buildFlavour == "constantTime" {
		names = []string{"ed25519", "bls.circl.G1"}
	}
	var out []*GroupInfo
	for _, n := range names {
		out = append(out, groupByName(n))
	}
	return out
}

// genShareList builds the list handed to Recover*: the chosen subset in a random order, with nil
// holes, duplicates and (optionally) padding; returns the list positions->index (or -1 for nil).
func genShareList(t *rapid.T, n int, subset []int) []int {
	order := rapid.Permutation(subset).Draw(t, "order")
	var list []int
	for _, idx := range order {
		switch rapid.IntRange(0, 9).Draw(t, "hole") {
		case 0:
			list = append(list, -1) // nil pointer
		case 1:
			// a share object without a value (documented as skipped): any index, also one whose real
			// share is in the list - encoded as -(2+index)
			list = append(list, -(2 + rapid.IntRange(0, n-1).Draw(t, "valueless")))
		}
		list = append(list, idx)
		if rapid.IntRange(0, 6).Draw(t, "dup") == 0 {
			list = append(list, idx)
		}
	}
	// further copies of shares anywhere in the list: a copy need not sit next to its original
	if len(subset) > 0 {
		for k := rapid.IntRange(0, 3).Draw(t, "farDups"); k > 1; k-- {
			idx := subset[uniformInt(t, 0, len(subset)-1, "farDup")]
			pos := uniformInt(t, 0, len(list), "farDupPos")
			list = append(list[:pos], append([]int{idx}, list[pos:]...)...)
		}
	}
	if rapid.IntRange(0, 3).Draw(t, "tailnil") == 0 {
		list = append(list, -1)
	}
	return list
}

func c07Case(t *rapid.T, ev *evProp, gi *GroupInfo, maxN int) {
	g := gi.G
	q := gi.Order
	n := rapid.IntRange(1, maxN).Draw(t, "n")
	th := rapid.IntRange(1, n).Draw(t, "t")
	// polynomial with edge coefficients (zero secret, zero leading coefficient allowed)
	coeffs := make([]*big.Int, th)
	kc := make([]kyber.Scalar, th)
	for i := range coeffs {
		coeffs[i], _ = genBig(t, q, fmt.Sprintf("c%d", i))
		kc[i] = scalarFromBig(g, coeffs[i])
	}
	var pri *share.PriPoly
	route := rapid.SampledFrom([]string{"coefficients", "newpripoly"}).Draw(t, "route")
	if route == "coefficients" {
		pri = share.CoefficientsToPriPoly(g, kc)
	} else {
		pri = share.NewPriPoly(g, uint32(th), kc[0], xofStream(genSeed(t, "polyseed")))
		for i, c := range pri.Coefficients() {
			coeffs[i] = scalarToBig(c)
		}
	}
	secret := coeffs[0]
	ctx := fmt.Sprintf("group=%s t=%d n=%d route=%s coeffs=%x", gi.Name, th, n, route, coeffs)
	key := func(w string) string { return fmt.Sprintf("C07/%s/%s", gi.Name, w) }
	fail := func(w, format string, args ...any) {
		violationOrKnown(t, ev, key(w), format+"\n"+ctx, args...)
	}
	if pri.Threshold() != uint32(th) || scalarToBig(pri.Secret()).Cmp(secret) != 0 {
		fail("pripoly", "Threshold/Secret wrong: %d %x", pri.Threshold(), scalarToBig(pri.Secret()))
	}
	// base point: nil (standard base) or generated
	var base kyber.Point
	baseDesc := "nil"
	if rapid.Bool().Draw(t, "custombase") {
		bp := genPoint(t, gi, "base")
		base, baseDesc = bp.P, bp.Desc
	}
	effBase := base
	if effBase == nil {
		effBase = basePoint(gi)
	}
	pub := pri.Commit(base)
	shares := pri.Shares(uint32(n))
	pubShares := pub.Shares(uint32(n))
	if len(shares) != n || len(pubShares) != n {
		fail("shares", "Shares(n) returned %d/%d entries", len(shares), len(pubShares))
		return
	}
	for i := 0; i < n; i++ {
		want := polyEvalBig(coeffs, int64(i+1), q)
		if shares[i].I != uint32(i) || scalarToBig(shares[i].V).Cmp(want) != 0 {
			fail("eval", "share %d = (%d,%x), model f(%d)=%x", i, shares[i].I, scalarToBig(shares[i].V), i+1, want)
		}
		wantPub := g.Point().Mul(scalarFromBig(g, want), effBase)
		if pubShares[i].I != uint32(i) || !pubShares[i].V.Equal(wantPub) {
			fail("pubeval", "PubPoly.Eval(%d) is not the commitment of PriPoly.Eval(%d)", i, i)
		}
		if !pub.Check(shares[i]) {
			fail("check", "Check rejects honest share %d", i)
		}
	}
	if !pub.Commit().Equal(g.Point().Mul(kc0(g, secret), effBase)) {
		fail("commit", "PubPoly.Commit() is not secret*base")
	}
	// Check must reject shares off the polynomial (perturbed value; wrong index unless the
	// polynomial is constant on those two points)
	if n >= 1 {
		i := rapid.IntRange(0, n-1).Draw(t, "pidx")
		delta, _ := genBig(t, q, "delta")
		if delta.Sign() == 0 {
			delta = big.NewInt(1)
		}
		bad := &share.PriShare{I: uint32(i), V: g.Scalar().Add(shares[i].V, scalarFromBig(g, delta))}
		off := !g.Point().Mul(scalarFromBig(g, delta), effBase).Equal(nullPoint(gi))
		if pub.Check(bad) == off {
			fail("check", "Check(share %d + %x) = %v, expected %v", i, delta, pub.Check(bad), !off)
		}
		j := rapid.IntRange(0, n-1).Draw(t, "widx")
		wrongIdx := &share.PriShare{I: uint32(j), V: shares[i].V}
		onPoly := pubShares[j].V.Equal(g.Point().Mul(shares[i].V, effBase))
		if pub.Check(wrongIdx) != onPoly {
			fail("check", "Check(value of share %d presented with index %d) = %v, expected %v", i, j, pub.Check(wrongIdx), onPoly)
		}
	}
	// what Eval / Shares / Commit hand out belongs to the caller: updating it in place must leave the
	// polynomials as they were (for t = 1 an evaluation IS the constant coefficient)
	{
		wantCommit := mustMarshal(t, pub.Commit())
		wantSecret := scalarToBig(pri.Secret())
		k := rapid.IntRange(0, n-1).Draw(t, "ownidx")
		e1 := pub.Eval(uint32(k))
		e1.V.Add(e1.V, effBase)
		e2 := pub.Shares(uint32(n))[k]
		e2.V.Add(e2.V, effBase)
		c1 := pub.Commit()
		c1.Add(c1, effBase)
		s1 := pri.Eval(uint32(k))
		s1.V.Add(s1.V, g.Scalar().One())
		// (PriPoly.Secret() hands out the constant coefficient itself; that accessor is not judged here,
		// see DESIGN 6.3)
		if got := mustMarshal(t, pub.Commit()); !bytes.Equal(got, wantCommit) {
			fail("result-aliases-polynomial", "after the caller updated values returned by PubPoly.Eval/Shares/Commit in place, Commit() changed from %x to %x", wantCommit, got)
		}
		if got := scalarToBig(pri.Secret()); got.Cmp(wantSecret) != 0 {
			fail("result-aliases-polynomial", "after the caller updated a value returned by PriPoly.Eval in place, Secret() changed from %x to %x", wantSecret, got)
		}
		if !pub.Check(shares[k]) || !pub.Eval(uint32(k)).V.Equal(pubShares[k].V) {
			fail("result-aliases-polynomial", "after the caller updated returned values in place, share %d no longer checks / evaluates as before", k)
		}
	}
	// subset selection
	size := rapid.IntRange(0, n).Draw(t, "subsetsize")
	perm := rapid.Permutation(seqInts(n)).Draw(t, "subsetperm")
	subset := append([]int(nil), perm[:size]...)
	list := genShareList(t, n, subset)
	var priList []*share.PriShare
	var pubList []*share.PubShare
	for _, idx := range list {
		if idx <= -2 {
			priList = append(priList, &share.PriShare{I: uint32(-idx - 2)})
			pubList = append(pubList, &share.PubShare{I: uint32(-idx - 2)})
		} else if idx < 0 {
			priList = append(priList, nil)
			pubList = append(pubList, nil)
		} else {
			priList = append(priList, shares[idx])
			pubList = append(pubList, pubShares[idx])
		}
	}
	ctx += fmt.Sprintf(" base=%s list=%v", baseDesc, list)
	enough := size >= th
	// the n handed to the Recover* functions is the size of the group that recovers, which after a
	// resharing to a smaller group is NOT a bound on the share indices (share/poly_test.go,
	// TestSecretRecoveryOutIndex: shares 4..9 recovered with n = t+1): any n >= t gives the same result
	nArg := uint32(rapid.SampledFrom([]int{n, n, th, th + 1, n + 5}).Draw(t, "nArg"))
	rs, err := share.RecoverSecret(g, priList, uint32(th), nArg)
	if enough {
		if err != nil || scalarToBig(rs).Cmp(secret) != 0 {
			fail("RecoverSecret", "RecoverSecret = %v err=%v, want %x", rs, err, secret)
		}
	} else if err == nil {
		fail("RecoverSecret-refuse", "RecoverSecret succeeded with %d < t distinct shares", size)
	}
	rc, err := share.RecoverCommit(g, pubList, uint32(th), nArg)
	if enough {
		if err != nil || !rc.Equal(pub.Commit()) {
			fail("RecoverCommit", "RecoverCommit err=%v or value differs from secret*base", err)
		}
	} else if err == nil {
		fail("RecoverCommit-refuse", "RecoverCommit succeeded with %d < t distinct shares", size)
	}
	rp, err := share.RecoverPriPoly(g, priList, uint32(th), nArg)
	if enough {
		if err != nil {
			fail("RecoverPriPoly", "RecoverPriPoly err=%v", err)
		} else {
			got := rp.Coefficients()
			// leading zero coefficients may legitimately be dropped or kept: compare as polynomials
			for i := 0; i < max(len(got), th); i++ {
				var gv, wv *big.Int = big0, big0
				if i < len(got) {
					gv = scalarToBig(got[i])
				}
				if i < th {
					wv = coeffs[i]
				}
				if gv.Cmp(wv) != 0 {
					fail("RecoverPriPoly", "coefficient %d = %x, want %x", i, gv, wv)
					break
				}
			}
		}
	} else if err == nil {
		fail("RecoverPriPoly-refuse", "RecoverPriPoly succeeded with %d < t distinct shares", size)
	}
	rpp, err := share.RecoverPubPoly(g, pubList, uint32(th), nArg)
	if enough {
		if err != nil {
			fail("RecoverPubPoly", "RecoverPubPoly err=%v", err)
		} else {
			_, gotC := rpp.Info()
			_, wantC := pub.Info()
			for i := 0; i < max(len(gotC), len(wantC)); i++ {
				gp, wp := nullPoint(gi), nullPoint(gi)
				if i < len(gotC) {
					gp = gotC[i]
				}
				if i < len(wantC) {
					wp = wantC[i]
				}
				if !gp.Equal(wp) {
					fail("RecoverPubPoly", "commitment %d differs", i)
					break
				}
			}
		}
	} else if err == nil {
		fail("RecoverPubPoly-refuse", "RecoverPubPoly succeeded with %d < t distinct shares", size)
	}
	// polynomial algebra
	if rapid.IntRange(0, 2).Draw(t, "algebra") == 0 {
		c2 := make([]*big.Int, th)
		k2 := make([]kyber.Scalar, th)
		for i := range c2 {
			c2[i], _ = genBig(t, q, fmt.Sprintf("d%d", i))
			k2[i] = scalarFromBig(g, c2[i])
		}
		// the second polynomial lives on ANOTHER handle of the same group where the harness has one
		// (a second suite instance, a second call of suite.G1()): two parties of one process, or two
		// calls of an accessor, never share the group object
		g2 := g
		if gi.Alt != nil && rapid.Bool().Draw(t, "althandle") {
			g2 = gi.Alt
			for i := range k2 {
				k2[i] = scalarFromBig(g2, c2[i])
			}
		}
		pri2 := share.CoefficientsToPriPoly(g2, k2)
		// Equal is equality of coefficient vectors: a copy on the other handle is Equal, a copy with
		// one coefficient changed is not; the same for the commitments
		{
			kc2 := make([]kyber.Scalar, th)
			for i := range kc2 {
				kc2[i] = scalarFromBig(g2, coeffs[i])
			}
			twin := share.CoefficientsToPriPoly(g2, kc2)
			if !pri.Equal(twin) || !twin.Equal(pri) {
				fail("priequal", "a polynomial with the same coefficients (other group handle: %v) is not Equal", g2 != g)
			}
			if !pri.Commit(base).Equal(twin.Commit(base)) {
				fail("pubequal", "commitments of equal polynomials (other group handle: %v) are not Equal", g2 != g)
			}
			j := rapid.IntRange(0, th-1).Draw(t, "eqcoef")
			kc2[j] = g2.Scalar().Add(kc2[j], g2.Scalar().One())
			other := share.CoefficientsToPriPoly(g2, kc2)
			if pri.Equal(other) || other.Equal(pri) {
				fail("priequal", "polynomials differing in coefficient %d are Equal", j)
			}
			if !effBase.Equal(nullPoint(gi)) && pri.Commit(base).Equal(other.Commit(base)) {
				fail("pubequal", "commitments of polynomials differing in coefficient %d are Equal", j)
			}
		}
		sum, err := pri.Add(pri2)
		if err != nil {
			fail("polyadd", "Add failed: %v", err)
		} else {
			x := rapid.IntRange(0, 30).Draw(t, "x")
			a, b := polyEvalBig(coeffs, int64(x+1), q), polyEvalBig(c2, int64(x+1), q)
			if scalarToBig(sum.Eval(uint32(x)).V).Cmp(fadd(a, b, q)) != 0 {
				fail("polyadd", "(p+q)(%d) != p(%d)+q(%d)", x, x, x)
			}
			prod := pri.Mul(pri2)
			if scalarToBig(prod.Eval(uint32(x)).V).Cmp(fmul(a, b, q)) != 0 {
				fail("polymul", "(p*q)(%d) != p(%d)*q(%d)", x, x, x)
			}
			cs, err := pri.Commit(base).Add(pri2.Commit(base))
			if err != nil || !cs.Equal(sum.Commit(base)) {
				fail("commitadd", "Commit(p)+Commit(q) != Commit(p+q) (err=%v)", err)
			}
			if !cs.Eval(uint32(x)).V.Equal(g.Point().Mul(scalarFromBig(g, fadd(a, b, q)), effBase)) {
				fail("commitadd", "(Commit(p)+Commit(q))(%d) is not the commitment of p(%d)+q(%d)", x, x, x)
			}
		}
	}
	prefix := true
	for i, idx := range list {
		if idx != i {
			prefix = false
		}
	}
	nontrivial := !prefix || th == 1 || th == n || !enough
	var enc bytes.Buffer
	fmt.Fprintf(&enc, "%s", ctx)
	ev.Case(nontrivial, enc.String(), "group:"+gi.Name, fmt.Sprintf("enough:%v", enough), fmt.Sprintf("t:%d", th), "route:"+route)
}

func kc0(g kyber.Group, v *big.Int) kyber.Scalar { return scalarFromBig(g, v) }

func seqInts(n int) []int {
	out := make([]int, n)
	for i := range out {
		out[i] = i
	}
	return out
}

// TestC07_Subsets enumerates ALL subsets of the n shares (n<=7 thorough, n<=5 quick) for one
// generated polynomial per (group,t,n) and checks recovery / refusal for each.
func TestC07_Subsets(t *testing.T) {
	ev := evFor("C07")
	maxN := 5
	if tier() == "thorough" {
		maxN = 7
	}
	idx := 0
	for _, gi := range c07Groups() {
		for n := 1; n <= maxN; n++ {
			for th := 1; th <= n; th++ {
				idx++
				if !mine(idx) {
					continue
				}
				g := gi.G
				seed := []byte(fmt.Sprintf("c07-%s-%d-%d-%d", gi.Name, n, th, envInt("VERIF_SEED", 1)))
				secret := g.Scalar().Pick(xofStream(seed))
				pri := share.NewPriPoly(g, uint32(th), secret, xofStream(append(seed, 1)))
				pub := pri.Commit(nil)
				shares, pubShares := pri.Shares(uint32(n)), pub.Shares(uint32(n))
				for mask := 0; mask < 1<<n; mask++ {
					var pl []*share.PriShare
					var ql []*share.PubShare
					cnt := 0
					// present the subset in descending order with nil holes for absent ones
					for i := n - 1; i >= 0; i-- {
						if mask&(1<<i) != 0 {
							pl, ql = append(pl, shares[i]), append(ql, pubShares[i])
							cnt++
						} else {
							pl, ql = append(pl, nil), append(ql, nil)
						}
					}
					desc := fmt.Sprintf("exhaustive group=%s t=%d n=%d subsetmask=%b", gi.Name, th, n, mask)
					rs, err := share.RecoverSecret(g, pl, uint32(th), uint32(n))
					rc, err2 := share.RecoverCommit(g, ql, uint32(th), uint32(n))
					if cnt >= th {
						if err != nil || !rs.Equal(secret) {
							violationOrKnown(t, ev, "C07/"+gi.Name+"/RecoverSecret", "%s: err=%v or wrong secret", desc, err)
						}
						if err2 != nil || !rc.Equal(pub.Commit()) {
							violationOrKnown(t, ev, "C07/"+gi.Name+"/RecoverCommit", "%s: err=%v or wrong commitment", desc, err2)
						}
					} else if err == nil || err2 == nil {
						violationOrKnown(t, ev, "C07/"+gi.Name+"/Recover-refuse", "%s: recovery succeeded with %d < t shares", desc, cnt)
					}
					ev.Case(true, desc, "group:"+gi.Name, "exhaustive-subsets")
				}
			}
		}
	}
	ev.Exhaustive(fmt.Sprintf("all subsets of n<=%d shares for every 1<=t<=n, per group (one polynomial each)", maxN))
}

const c07Rule = "case = (group in {Ed25519, P-256, BN256 G1, BLS12-381 G1 (Kilic, CIRCL), QR-512, Edwards variable-time}, 1<=t<=n<=12 (thorough 24), coefficients from edge classes incl. zero secret / zero leading coefficient via CoefficientsToPriPoly or NewPriPoly(seeded), base nil or generated, " +
	"a subset of any size presented in a random order with nil holes, duplicates and trailing nils); expected share values and secret from a math/big Horner evaluation; RecoverSecret/RecoverCommit/RecoverPriPoly/RecoverPubPoly must return the model values when >= t distinct shares are present and an error otherwise; " +
	"PubPoly.Eval = commitment of PriPoly.Eval, Check accepts honest shares and rejects perturbed / mis-indexed ones (unless they happen to lie on the polynomial), (p+q)(x)=p(x)+q(x), (p*q)(x)=p(x)q(x), Commit(p)+Commit(q)=Commit(p+q); plus an exhaustive enumeration of all subsets for small n. " +
	"non-trivial = the presented list is not the identity prefix 0..k-1, or t in {1,n}, or fewer than t shares; distinct = distinct rendered case" +
	" Added after the sensitivity rounds: value-less share objects in the lists; TestC07_SparseIndices (t<=24 shares at indices from spaces up to 4096: high block, random, extremes) and Eval/Check at the index extremes 0,1,2^31-1,2^31,2^32-2,2^32-1."

func TestC07_Sharing(t *testing.T) {
	ev := evFor("C07")
	ev.Rule(c07Rule)
	groups := c07Groups()
	maxN := 12
	if tier() == "thorough" {
		maxN = 24
	}
	rcheck(t, 1600, 64000, func(t *rapid.T) {
		gi := groups[uniformInt(t, 0, len(groups)-1, "group")]
		c07Case(t, ev, gi, maxN)
	})
}

// TestC07_SparseIndices: the t shares need not be the first t of a small group.  Share indices are
// drawn from a large index space (n up to 4096; contiguous high blocks, random, extremes), t up to
// 24: Lagrange coefficients are products of up to 23 factors of size ~n, far beyond 64 bits.
func TestC07_SparseIndices(t *testing.T) {
	ev := evFor("C07")
	groups := c07Groups()
	rcheck(t, 300, 12000, func(t *rapid.T) {
		gi := groups[uniformInt(t, 0, len(groups)-1, "group")]
		g, q := gi.G, gi.Order
		n := rapid.SampledFrom([]int{24, 32, 64, 300, 4096}).Draw(t, "n")
		th := rapid.IntRange(1, 24).Draw(t, "t")
		extra := min(rapid.IntRange(0, 3).Draw(t, "extra"), n-th)
		kc := make([]kyber.Scalar, th)
		coeffs := make([]*big.Int, th)
		for i := range kc {
			coeffs[i], _ = genBig(t, q, fmt.Sprintf("c%d", i))
			kc[i] = scalarFromBig(g, coeffs[i])
		}
		pri := share.CoefficientsToPriPoly(g, kc)
		pub := pri.Commit(nil)
		shape := rapid.SampledFrom([]string{"high-block", "random", "random", "extremes"}).Draw(t, "shape")
		seen := map[int]bool{}
		var idx []int
		for len(idx) < th+extra {
			var i int
			switch shape {
			case "high-block":
				i = n - 1 - len(idx)
			case "extremes":
				if len(idx)%2 == 0 {
					i = n - 1 - len(idx)/2
				} else {
					i = len(idx) / 2
				}
			default:
				i = uniformInt(t, 0, n-1, "idx")
			}
			if i < 0 || seen[i] {
				if shape != "random" {
					break
				}
				continue
			}
			seen[i] = true
			idx = append(idx, i)
		}
		if len(idx) < th {
			ev.Case(false, "sparse: index space too small", "share-sparse-skipped")
			return
		}
		order := rapid.Permutation(idx).Draw(t, "order")
		var pl []*share.PriShare
		var ql []*share.PubShare
		for _, i := range order {
			pl = append(pl, pri.Eval(uint32(i)))
			ql = append(ql, pub.Eval(uint32(i)))
		}
		ctx := fmt.Sprintf("sparse group=%s n=%d t=%d shape=%s indices=%v", gi.Name, n, th, shape, order)
		key := func(w string) string { return fmt.Sprintf("C07/%s/%s", gi.Name, w) }
		for k, s := range pl {
			if want := polyEvalBig(coeffs, int64(order[k]+1), q); scalarToBig(s.V).Cmp(want) != 0 {
				violationOrKnown(t, ev, key("eval"), "Eval(%d) = %x, model %x\n%s", order[k], scalarToBig(s.V), want, ctx)
			}
			if !pub.Check(s) {
				violationOrKnown(t, ev, key("check"), "Check rejects the honest share %d\n%s", order[k], ctx)
			}
		}
		// the two Eval functions agree at the ends of the index range as well (x = index+1 must not wrap)
		for _, ix := range []uint32{0, 1, 1<<31 - 1, 1 << 31, 1<<32 - 2, 1<<32 - 1} {
			ps, qs := pri.Eval(ix), pub.Eval(ix)
			x := new(big.Int).Add(new(big.Int).SetUint64(uint64(ix)), big1)
			want := polyEvalBigX(coeffs, x, q)
			if ps.I != ix || scalarToBig(ps.V).Cmp(want) != 0 {
				violationOrKnown(t, ev, key("eval"), "PriPoly.Eval(%d) = %x, model f(%d+1) = %x\n%s", ix, scalarToBig(ps.V), ix, want, ctx)
			}
			if qs.I != ix || !qs.V.Equal(g.Point().Mul(scalarFromBig(g, want), nil)) {
				violationOrKnown(t, ev, key("pubeval"), "PubPoly.Eval(%d) is not the commitment of f(%d+1)\n%s", ix, ix, ctx)
			}
			if !pub.Check(ps) {
				violationOrKnown(t, ev, key("check"), "Check rejects the honest share with index %d\n%s", ix, ctx)
			}
		}
		nArg := uint32(rapid.SampledFrom([]int{n, th, th + 1}).Draw(t, "nArg"))
		if rs, err := share.RecoverSecret(g, pl, uint32(th), nArg); err != nil || scalarToBig(rs).Cmp(coeffs[0]) != 0 {
			violationOrKnown(t, ev, key("RecoverSecret"), "RecoverSecret = %v err=%v, want %x\n%s", rs, err, coeffs[0], ctx)
		}
		if rc, err := share.RecoverCommit(g, ql, uint32(th), nArg); err != nil || !rc.Equal(pub.Commit()) {
			violationOrKnown(t, ev, key("RecoverCommit"), "RecoverCommit err=%v or value differs from secret*base\n%s", err, ctx)
		}
		if rp, err := share.RecoverPriPoly(g, pl, uint32(th), nArg); err != nil {
			violationOrKnown(t, ev, key("RecoverPriPoly"), "RecoverPriPoly err=%v\n%s", err, ctx)
		} else {
			got := rp.Coefficients()
			for i := 0; i < max(len(got), th); i++ {
				gv, wv := big0, big0
				if i < len(got) {
					gv = scalarToBig(got[i])
				}
				if i < th {
					wv = coeffs[i]
				}
				if gv.Cmp(wv) != 0 {
					violationOrKnown(t, ev, key("RecoverPriPoly"), "coefficient %d = %x, want %x\n%s", i, gv, wv, ctx)
					break
				}
			}
		}
		if rpp, err := share.RecoverPubPoly(g, ql, uint32(th), nArg); err != nil || !rpp.Commit().Equal(pub.Commit()) {
			violationOrKnown(t, ev, key("RecoverPubPoly"), "RecoverPubPoly err=%v or constant term differs\n%s", err, ctx)
		}
		ev.Case(true, ctx, "share-sparse:"+shape, fmt.Sprintf("share-sparse-n:%d", n))
	})
}

// polyEvalBigX: Horner evaluation of the coefficient list at an arbitrary big x, mod q.
func polyEvalBigX(coeffs []*big.Int, x, q *big.Int) *big.Int {
	acc := new(big.Int)
	for i := len(coeffs) - 1; i >= 0; i-- {
		acc.Mul(acc, x)
		acc.Add(acc, coeffs[i])
		acc.Mod(acc, q)
	}
	return acc
}
