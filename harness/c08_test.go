//go:build !constantTime

package harness

// C08 — Schnorr (all groups), EdDSA (vs crypto/ed25519) and ring signatures (sign/anon).

import (
	"bytes"
	"crypto/cipher"
	"crypto/ed25519"
	"crypto/sha512"
	"fmt"
	"math/big"
	"testing"

	"go.dedis.ch/kyber/v4"
	"go.dedis.ch/kyber/v4/group/edwards25519"
	"go.dedis.ch/kyber/v4/group/edwards25519vartime"
	"go.dedis.ch/kyber/v4/group/p256"
	"go.dedis.ch/kyber/v4/pairing/bn256"
	"go.dedis.ch/kyber/v4/sign/anon"
	"go.dedis.ch/kyber/v4/sign/eddsa"
	"go.dedis.ch/kyber/v4/sign/schnorr"
	"pgregory.net/rapid"
)

// randSuite gives a group a deterministic RandomStream.
type randSuite struct {
	kyber.Group
	r cipher.Stream
}

func (s randSuite) RandomStream() cipher.Stream { return s.r }

func mutateMsg(t *rapid.T, msg []byte) ([]byte, string) {
	kinds := []string{"append"}
	if len(msg) > 0 {
		kinds = append(kinds, "flip", "truncate")
	}
	switch k := rapid.SampledFrom(kinds).Draw(t, "msgmut"); k {
	case "flip":
		return flipBits(t, msg, "mf"), k
	case "truncate":
		return append([]byte(nil), msg[:uniformInt(t, 0, len(msg)-1, "mt")]...), k
	default:
		return append(append([]byte(nil), msg...), rapid.SliceOfN(rapid.Byte(), 1, 4).Draw(t, "ma")...), k
	}
}

func genMsg(t *rapid.T, maxLen int) []byte {
	n := rapid.SampledFrom([]int{0, 1, 31, 32, 33, 64, 127, 128, 129, 1000, maxLen, -1, -2, -2}).Draw(t, "msglen")
	if n == -2 {
		// just below / at / a little above a power of two (block sizes, stack buffers of 2^k (+ a
		// header) bytes): 2^k + j for j in -1 .. 72
		k := rapid.IntRange(5, 12).Draw(t, "msglen.k")
		j := rapid.SampledFrom([]int{-1, 0, 1, -3}).Draw(t, "msglen.j")
		if j == -3 {
			j = uniformInt(t, 2, 72, "msglen.jj")
		}
		n = 1<<uint(k) + j
	}
	if n < 0 || n > maxLen {
		n = uniformInt(t, 0, maxLen, "msglen.any")
	}
	if n > 300 {
		// long messages: repeat a short random pattern (keeps the draw log small)
		pat := rapid.SliceOfN(rapid.Byte(), 1, 32).Draw(t, "msgpat")
		return bytes.Repeat(pat, n/len(pat)+1)[:n]
	}
	return rapid.SliceOfN(rapid.Byte(), n, n).Draw(t, "msg")
}

// ------------------------------------------------------------------ Schnorr

func c08Schnorr(t *rapid.T, ev *evProp, gi *GroupInfo) {
	g := gi.G
	suite := randSuite{g, xofStream(genSeed(t, "nonce"))}
	x := genScalar(t, gi, "x")
	if x.V.Sign() == 0 {
		x = SVal{S: g.Scalar().One(), V: big.NewInt(1), Class: "one"}
	}
	pub := g.Point().Mul(x.S, nil)
	if !gi.PrimeOrder {
		// full-group curves (cofactor 8, Base() generates the whole group): a secret such as 4l gives a
		// public key of order 2, under which sB = R + hA holds for every message whose challenge has the
		// right parity.  Such small-order keys are not key pairs of the scheme (honest generation hits
		// one with probability 8/|G|); replace them.
		p8 := g.Point().Set(pub)
		for i := 0; i < 3; i++ {
			p8 = g.Point().Add(p8, p8)
		}
		if p8.Equal(nullPoint(gi)) {
			ev.Assume("schnorr on full-group (cofactor 8) curves: a secret whose public key has order dividing 8 is replaced by 1 (degenerate key)")
			x = SVal{S: g.Scalar().One(), V: big.NewInt(1), Class: "one"}
			pub = g.Point().Mul(x.S, nil)
		}
	}
	msg := genMsg(t, 4096)
	ctx := fmt.Sprintf("schnorr group=%s x=%s |msg|=%d msg=%.40x", gi.Name, x, len(msg), msg)
	key := func(w string) string { return fmt.Sprintf("C08/schnorr/%s/%s", gi.Name, w) }
	gmsg, msgIntact := guard(msg)
	sig, err := schnorr.Sign(suite, x.S, gmsg)
	if why := msgIntact(); why != "" {
		violationOrKnown(t, ev, key("input-overwritten"), "schnorr.Sign wrote into its caller's memory: %s\n%s", why, ctx)
	}
	if err != nil {
		violationOrKnown(t, ev, key("sign"), "Sign failed: %v\n%s", err, ctx)
		return
	}
	if err := schnorr.Verify(g, pub, msg, sig); err != nil {
		violationOrKnown(t, ev, key("honest"), "honest signature rejected: %v\n%s sig=%x", err, ctx, sig)
		return
	}
	pl, sl := g.PointLen(), g.ScalarLen()
	if len(sig) != pl+sl {
		violationOrKnown(t, ev, key("length"), "signature has %d bytes, want %d\n%s", len(sig), pl+sl, ctx)
		return
	}
	R := g.Point()
	if err := R.UnmarshalBinary(sig[:pl]); err != nil {
		t.Fatalf("harness: cannot decode R: %v", err)
	}
	sVal := bytesToBig(sig[pl:], scalarLE(g.Scalar()))
	mut := rapid.SampledFrom([]string{"msg", "msg", "otherkey", "key+delta", "otherR", "R+B", "Rbitflip", "s+1", "s+q", "sbitflip", "sbitflip", "truncate", "extend", "swap"}).Draw(t, "mut")
	msig, mmsg, mpub := append([]byte(nil), sig...), msg, pub
	switch mut {
	case "msg":
		var k string
		mmsg, k = mutateMsg(t, msg)
		mut += ":" + k
	case "otherkey":
		y := genScalar(t, gi, "y")
		mpub = g.Point().Mul(y.S, nil)
	case "key+delta":
		mpub = g.Point().Add(pub, basePoint(gi))
	case "otherR":
		r2 := genScalar(t, gi, "r2")
		copy(msig, mustMarshal(t, g.Point().Mul(r2.S, nil)))
	case "R+B":
		copy(msig, mustMarshal(t, g.Point().Add(R, basePoint(gi))))
	case "Rbitflip":
		copy(msig, flipBits(t, sig[:pl], "rf"))
	case "s+1":
		v := new(big.Int).Mod(new(big.Int).Add(sVal, big1), gi.Order)
		copy(msig[pl:], bigToBytes(v, sl, scalarLE(g.Scalar())))
	case "s+q":
		v := new(big.Int).Add(sVal, gi.Order)
		if v.BitLen() > 8*sl {
			mut = "s+q(unencodable)->s+1"
			v = new(big.Int).Mod(new(big.Int).Add(sVal, big1), gi.Order)
		}
		copy(msig[pl:], bigToBytes(v, sl, scalarLE(g.Scalar())))
	case "sbitflip":
		copy(msig[pl:], flipBits(t, sig[pl:], "sf"))
	case "truncate":
		msig = msig[:uniformInt(t, 0, len(msig)-1, "tl")]
	case "extend":
		msig = append(msig, rapid.SliceOfN(rapid.Byte(), 1, 8).Draw(t, "ext")...)
	case "swap":
		// s || R instead of R || s (only meaningful when the sizes allow a parse)
		msig = append(append([]byte(nil), sig[pl:]...), sig[:pl]...)
	}
	// classify: semantically different unless (R', s', A', m') denote the same values
	same := false
	if len(msig) == pl+sl && bytes.Equal(mmsg, msg) && mpub.Equal(pub) {
		R2 := g.Point()
		if R2.UnmarshalBinary(msig[:pl]) == nil && R2.Equal(R) {
			s2 := new(big.Int).Mod(bytesToBig(msig[pl:], scalarLE(g.Scalar())), gi.Order)
			same = s2.Cmp(new(big.Int).Mod(sVal, gi.Order)) == 0
		}
	}
	var verr error
	if pn := safely(func() { verr = schnorr.Verify(g, mpub, mmsg, msig) }); pn != "" {
		violationOrKnown(t, ev, "C04/schnorr/"+gi.Name+"/verify-panic", "Verify panicked on %s: %s\n%s msig=%x", mut, pn, ctx, msig)
		return
	}
	label := "different"
	if same {
		label = "equivalent"
		if bytes.Equal(msig, sig) {
			label = "identical"
		} else if gi.Family == "ed25519" && verr == nil {
			violationOrKnown(t, ev, key("malleable"), "a second encoding of the same (R,s) is accepted on Ed25519 (mutation %s)\n%s\n sig=%x\nmsig=%x", mut, ctx, sig, msig)
		}
	} else if verr == nil {
		violationOrKnown(t, ev, key("forgery-accepted"), "mutation %s (semantically different) is accepted\n%s\n sig=%x\nmsig=%x", mut, ctx, sig, msig)
	}
	ev.Case(label == "different", ctx+" mut="+mut, "schnorr:"+gi.Name, "schnorr-mut:"+mut, "schnorr-class:"+label)
}

// ------------------------------------------------------------------ canonicity predicates

var edSmallOrderY = []string{
	"0000000000000000000000000000000000000000000000000000000000000000", // y=0, order 4
	"0100000000000000000000000000000000000000000000000000000000000000", // identity
	"ecffffffffffffffffffffffffffffffffffffffffffffffffffffffffffff7f", // y=-1, order 2
	"26e8958fc2b227b045c3f489f2ef98f0d5dfac05d3c63339b13802886d53fc05", // order 8
	"c7176a703d4dd84fba3c0b760d10670f2a2053fa2c39ccc64ec7fd7792ac037a", // order 8
	"edffffffffffffffffffffffffffffffffffffffffffffffffffffffffffff7f", // y=p   (non-canonical 0)
	"eeffffffffffffffffffffffffffffffffffffffffffffffffffffffffffff7f", // y=p+1 (non-canonical 1)
}

func genEd32(t *rapid.T, label string) ([]byte, string) {
	p := modelEd25519.P
	kind := rapid.SampledFrom([]string{"near-p", "near-L", "smallorder", "top", "random", "valid", "L-prefix", "L-prefix", "p-prefix"}).Draw(t, label+".kind")
	var b []byte
	switch kind {
	case "near-p":
		v := new(big.Int).Add(p, big.NewInt(int64(rapid.IntRange(-3, 18).Draw(t, label+".d"))))
		b = bigToBytes(v, 32, true)
	case "near-L":
		mult := rapid.IntRange(1, 15).Draw(t, label+".mult")
		v := new(big.Int).Mul(ordEd25519, big.NewInt(int64(mult)))
		v.Add(v, big.NewInt(int64(rapid.IntRange(-3, 3).Draw(t, label+".d"))))
		if v.BitLen() > 256 {
			v.Sub(pow2(256), big1)
		}
		b = bigToBytes(v, 32, true)
	case "L-prefix", "p-prefix":
		// agrees with the constant in every byte above position i, differs at i, anything below: the
		// boundary cases of a byte-wise (constant-time) comparison, for EVERY byte position
		K := bigToBytes(ordEd25519, 32, true)
		if kind == "p-prefix" {
			K = bigToBytes(p, 32, true)
		}
		i := uniformInt(t, 0, 31, label+".pos")
		b = append([]byte(nil), K...)
		switch rapid.SampledFrom([]string{"+1", "-1", "any"}).Draw(t, label+".delta") {
		case "+1":
			b[i]++
		case "-1":
			b[i]--
		default:
			b[i] = rapid.Byte().Draw(t, label+".byte")
		}
		low := rapid.SampledFrom([]string{"random", "zero", "ff", "same"}).Draw(t, label+".low")
		for j := 0; j < i; j++ {
			switch low {
			case "random":
				b[j] = byte(uniformInt(t, 0, 255, label+".lowbyte"))
			case "zero":
				b[j] = 0
			case "ff":
				b[j] = 0xff
			}
		}
	case "smallorder":
		b = mustHex(rapid.SampledFrom(edSmallOrderY).Draw(t, label+".so"))
	case "top":
		b = bytes.Repeat([]byte{0xff}, 32)
		b[0] = rapid.Byte().Draw(t, label+".b0")
		b[31] = rapid.SampledFrom([]byte{0x0f, 0x10, 0x1f, 0x7f, 0xff, 0x80, 0x00}).Draw(t, label+".b31")
	case "valid":
		b = mustMarshal(t, edwards25519.NewBlakeSHA256Ed25519().Point().Pick(xofStream(genSeed(t, label+".seed"))))
	default:
		b = rapid.SliceOfN(rapid.Byte(), 32, 32).Draw(t, label+".raw")
	}
	if rapid.Bool().Draw(t, label+".sign") {
		b[31] ^= 0x80
	}
	return b, kind
}

func mustHex(s string) []byte {
	b := make([]byte, len(s)/2)
	if _, err := fmt.Sscanf(s, "%x", &b); err != nil {
		panic(err)
	}
	return b
}

func c08Canonicity(t *rapid.T, ev *evProp) {
	b, kind := genEd32(t, "b")
	ed := edwards25519.NewBlakeSHA256Ed25519()
	type pcan interface {
		IsCanonical([]byte) bool
		HasSmallOrder() bool
	}
	type scan interface{ IsCanonical([]byte) bool }
	ctx := fmt.Sprintf("canonicity kind=%s bytes=%x", kind, b)
	// scalar
	wantS := bytesToBig(b, true).Cmp(ordEd25519) < 0
	if got := ed.Scalar().(scan).IsCanonical(b); got != wantS {
		violationOrKnown(t, ev, "C08/ed25519/scalar.IsCanonical", "scalar IsCanonical=%v, value<L is %v\n%s", got, wantS, ctx)
	}
	// point: canonical <=> y < p (sign bit ignored), as the library documents (libsodium rule)
	bb := append([]byte(nil), b...)
	bb[31] &= 0x7f
	wantP := bytesToBig(bb, true).Cmp(modelEd25519.P) < 0
	P := ed.Point()
	if got := P.(pcan).IsCanonical(b); got != wantP {
		violationOrKnown(t, ev, "C08/ed25519/point.IsCanonical", "point IsCanonical=%v, y<p is %v\n%s", got, wantP, ctx)
	}
	if err := P.UnmarshalBinary(b); err == nil {
		mp, _, merr := modelEd25519.Decode(b)
		if merr != nil {
			violationOrKnown(t, ev, "C08/ed25519/decode", "library decodes a string the model rejects\n%s", ctx)
		} else {
			wantSO := modelEd25519.Equal(modelEd25519.Mul(big.NewInt(8), mp), modelEd25519.Identity())
			if got := P.(pcan).HasSmallOrder(); got != wantSO {
				violationOrKnown(t, ev, "C08/ed25519/HasSmallOrder", "HasSmallOrder=%v, model 8P=O is %v\n%s", got, wantSO, ctx)
			}
		}
	}
	ev.Case(kind != "random" && kind != "valid", ctx, "canonicity:"+kind)
}

// ------------------------------------------------------------------ EdDSA

func c08EdDSA(t *rapid.T, ev *evProp) {
	seed := rapid.SliceOfN(rapid.Byte(), 32, 32).Draw(t, "seed")
	msg := genMsg(t, 4096)
	ctx := fmt.Sprintf("eddsa seed=%x |msg|=%d msg=%.40x", seed, len(msg), msg)
	e := eddsa.NewEdDSA(&replayStream{buf: seed})
	priv := ed25519.NewKeyFromSeed(seed)
	pubRef := []byte(priv.Public().(ed25519.PublicKey))
	pub := mustMarshal(t, e.Public)
	if !bytes.Equal(pub, pubRef) {
		violationOrKnown(t, ev, "C08/eddsa/pubkey", "public key %x differs from crypto/ed25519's %x\n%s", pub, pubRef, ctx)
		return
	}
	sig, err := e.Sign(msg)
	if err != nil {
		violationOrKnown(t, ev, "C08/eddsa/sign", "Sign failed: %v\n%s", err, ctx)
		return
	}
	if ref := ed25519.Sign(priv, msg); !bytes.Equal(sig, ref) {
		violationOrKnown(t, ev, "C08/eddsa/rfc8032", "signature %x differs from crypto/ed25519's %x\n%s", sig, ref, ctx)
	}
	if sig2, _ := e.Sign(msg); !bytes.Equal(sig, sig2) {
		violationOrKnown(t, ev, "C08/eddsa/deterministic", "two Sign calls differ\n%s", ctx)
	}
	// key material round trip
	if kb, err := e.MarshalBinary(); err == nil {
		var e2 eddsa.EdDSA
		if err := e2.UnmarshalBinary(kb); err != nil || !e2.Public.Equal(e.Public) {
			violationOrKnown(t, ev, "C08/eddsa/keyroundtrip", "EdDSA Marshal/Unmarshal changed the key (err=%v)\n%s", err, ctx)
		} else if s3, _ := e2.Sign(msg); !bytes.Equal(s3, sig) {
			violationOrKnown(t, ev, "C08/eddsa/keyroundtrip", "unmarshalled key signs differently\n%s", ctx)
		}
	}
	// the same object re-keyed after it has signed (UnmarshalBinary of another key pair): it must sign
	// exactly like crypto/ed25519 under the NEW key (nothing derived from the old key may survive)
	if rapid.Bool().Draw(t, "rekey") {
		seed2 := rapid.SliceOfN(rapid.Byte(), 32, 32).Draw(t, "seed2")
		other := eddsa.NewEdDSA(&replayStream{buf: seed2})
		priv2 := ed25519.NewKeyFromSeed(seed2)
		if kb2, err := other.MarshalBinary(); err == nil {
			used := eddsa.NewEdDSA(&replayStream{buf: seed})
			_, _ = used.Sign(msg)
			if err := used.UnmarshalBinary(kb2); err != nil {
				violationOrKnown(t, ev, "C08/eddsa/rekey", "UnmarshalBinary of another key into a used object failed: %v\n%s", err, ctx)
			} else if s4, _ := used.Sign(msg); !bytes.Equal(s4, ed25519.Sign(priv2, msg)) {
				violationOrKnown(t, ev, "C08/eddsa/rekey", "an EdDSA object re-keyed (seed2=%x) after signing produces %x, crypto/ed25519 under the new key gives %x\n%s", seed2, s4, ed25519.Sign(priv2, msg), ctx)
			} else if err := eddsa.Verify(used.Public, msg, s4); err != nil {
				violationOrKnown(t, ev, "C08/eddsa/rekey", "signature of the re-keyed object rejected: %v\n%s", err, ctx)
			}
		}
	}
	if err := eddsa.Verify(e.Public, msg, sig); err != nil {
		violationOrKnown(t, ev, "C08/eddsa/honest", "honest signature rejected: %v\n%s", err, ctx)
	}
	if err := schnorr.Verify(edwards25519.NewBlakeSHA256Ed25519(), e.Public, msg, sig); err != nil {
		violationOrKnown(t, ev, "C08/eddsa/schnorr-compatible", "schnorr.Verify rejects the EdDSA signature: %v\n%s", err, ctx)
	}
	// adversarial triple
	L := ordEd25519
	mut := rapid.SampledFrom([]string{"msg", "sigbitflip", "sigbitflip", "pubbitflip", "s+L", "s+kL", "R+torsion", "A+torsion", "smallorderA", "smallorderR", "mixedkey-smallorderR", "mixedkey-smallorderR", "mixedR-signed", "mixedR-signed", "mixedkey-signed", "noncanonicalR", "noncanonicalA", "otherkey", "zero-s"}).Draw(t, "mut")
	mpub, mmsg, msig := append([]byte(nil), pub...), msg, append([]byte(nil), sig...)
	mustReject := true
	c := modelEd25519
	torsion := func(label string) ePoint {
		tp, _, err := c.Decode(mustHex(rapid.SampledFrom(edSmallOrderY[:5]).Draw(t, label)))
		if err != nil {
			t.Fatalf("harness: small order point does not decode")
		}
		if rapid.Bool().Draw(t, label+".neg") {
			tp = c.Neg(tp)
		}
		return tp
	}
	switch mut {
	case "msg":
		mmsg, _ = mutateMsg(t, msg)
	case "sigbitflip":
		msig = flipBits(t, sig, "sf")
	case "pubbitflip":
		mpub = flipBits(t, pub, "pf")
	case "s+L", "s+kL":
		k := int64(1)
		if mut == "s+kL" {
			k = int64(rapid.IntRange(2, 15).Draw(t, "k"))
		}
		v := new(big.Int).Add(bytesToBig(sig[32:], true), new(big.Int).Mul(L, big.NewInt(k)))
		if v.BitLen() > 256 {
			v = new(big.Int).Add(bytesToBig(sig[32:], true), L)
		}
		copy(msig[32:], bigToBytes(v, 32, true))
	case "R+torsion":
		rp, _, _ := c.Decode(sig[:32])
		copy(msig, c.Encode(c.Add(rp, torsion("tor")), 32))
		mustReject = !bytes.Equal(msig, sig) // adding the identity changes nothing
	case "A+torsion":
		ap, _, _ := c.Decode(pub)
		mpub = c.Encode(c.Add(ap, torsion("tor")), 32)
		mustReject = !bytes.Equal(mpub, pub)
	case "smallorderA":
		mpub = mustHex(rapid.SampledFrom(edSmallOrderY).Draw(t, "so"))
		// s = r, R = r*B: valid under A whenever h*A = O
		r := genScalar(t, groupByName("ed25519"), "r")
		copy(msig, c.Encode(c.Mul(r.V, c.Base()), 32))
		copy(msig[32:], bigToBytes(r.V, 32, true))
	case "smallorderR":
		copy(msig, mustHex(rapid.SampledFrom(edSmallOrderY).Draw(t, "so")))
	case "mixedkey-smallorderR":
		// a key of mixed order A = a*B + T (canonical, not of small order) and a small-order R for
		// which the verification EQUATION holds: S = h*a, R = -h*T.  Only the small-order test on R
		// stands between this triple and acceptance (crypto/ed25519, which has no such test, accepts).
		a := genScalar(t, groupByName("ed25519"), "mk.a")
		if a.V.Sign() == 0 {
			a.V = big.NewInt(1)
		}
		TA := torsion("mk.T")
		ap := c.Add(c.Mul(a.V, c.Base()), TA)
		mpub = c.Encode(ap, 32)
		t8, _, _ := c.Decode(mustHex(edSmallOrderY[3]))
		idEnc := mustHex(edSmallOrderY[1])
		found := false
		for ctr := 0; ctr < 64 && !found; ctr++ {
			m2 := append(append([]byte(nil), msg...), byte(ctr))
			for k := 0; k < 8 && !found; k++ {
				rp := c.Mul(big.NewInt(int64(k)), t8)
				renc := c.Encode(rp, 32)
				hh := sha512.Sum512(append(append(append([]byte(nil), renc...), mpub...), m2...))
				h := new(big.Int).Mod(bytesToBig(hh[:], true), L)
				if bytes.Equal(c.Encode(c.Add(rp, c.Mul(h, TA)), 32), idEnc) {
					mmsg = m2
					copy(msig, renc)
					copy(msig[32:], bigToBytes(new(big.Int).Mod(new(big.Int).Mul(h, a.V), L), 32, true))
					found = true
				}
			}
		}
		if !found {
			mustReject = false // (2^-64) fall back to the honest triple
			mpub, mmsg, msig = append([]byte(nil), pub...), msg, append([]byte(nil), sig...)
		}
	case "mixedR-signed", "mixedkey-signed":
		// A signer who KNOWS the secret scalar a signs around a point of mixed order: the commitment
		// R = r*B + T (mixedR-signed), or the key A' = a*B + T (mixedkey-signed), with S = r + h*a for the
		// h of the resulting transcript.  Everything is canonical and nothing has small order; the
		// cofactorless equation S*B = R + h*A fails by T (resp. h*T) while the cofactored one,
		// 8*S*B = 8*R + 8*h*A, holds.  crypto/ed25519 verifies the cofactorless equation, so it decides.
		a := genScalar(t, groupByName("ed25519"), "ms.a")
		if a.V.Sign() == 0 {
			a.V = big.NewInt(1)
		}
		r := genScalar(t, groupByName("ed25519"), "ms.r")
		T := torsion("ms.T")
		ap, rp := c.Mul(a.V, c.Base()), c.Mul(r.V, c.Base())
		if mut == "mixedR-signed" {
			rp = c.Add(rp, T)
		} else {
			ap = c.Add(ap, T)
		}
		mpub = c.Encode(ap, 32)
		renc := c.Encode(rp, 32)
		hh := sha512.Sum512(append(append(append([]byte(nil), renc...), mpub...), msg...))
		h := new(big.Int).Mod(bytesToBig(hh[:], true), L)
		copy(msig, renc)
		copy(msig[32:], bigToBytes(new(big.Int).Mod(new(big.Int).Add(r.V, new(big.Int).Mul(h, a.V)), L), 32, true))
		mustReject = false // decided by the implication kyber => crypto/ed25519 (h*T may vanish)
	case "noncanonicalR":
		copy(msig, mustHex(rapid.SampledFrom(edSmallOrderY[5:]).Draw(t, "nc")))
		if rapid.Bool().Draw(t, "sgn") {
			msig[31] |= 0x80
		}
	case "noncanonicalA":
		mpub = mustHex(rapid.SampledFrom(edSmallOrderY[5:]).Draw(t, "nc"))
		if rapid.Bool().Draw(t, "sgn") {
			mpub[31] |= 0x80
		}
	case "otherkey":
		mpub = mustMarshal(t, eddsa.NewEdDSA(&replayStream{buf: rapid.SliceOfN(rapid.Byte(), 32, 32).Draw(t, "seed2")}).Public)
		mustReject = !bytes.Equal(mpub, pub)
	case "zero-s":
		for i := 32; i < 64; i++ {
			msig[i] = 0
		}
	}
	if mut == "sigbitflip" || mut == "pubbitflip" {
		mustReject = true // every single-bit change of an honest (pub,sig) is semantically different or non-canonical
	}
	var verr error
	if pn := safely(func() { verr = eddsa.VerifyWithChecks(mpub, mmsg, msig) }); pn != "" {
		violationOrKnown(t, ev, "C04/eddsa/verify-panic", "VerifyWithChecks panicked on %s: %s\n%s", mut, pn, ctx)
		return
	}
	goOK := len(mpub) == 32 && ed25519.Verify(ed25519.PublicKey(mpub), mmsg, msig)
	if verr == nil && !goOK {
		violationOrKnown(t, ev, "C08/eddsa/accepts-more-than-stdlib", "kyber accepts (%s) what crypto/ed25519 rejects\n pub=%x\n sig=%x\n%s", mut, mpub, msig, ctx)
	}
	if verr == nil && mustReject {
		violationOrKnown(t, ev, "C08/eddsa/forgery-accepted", "mutation %s accepted\n pub=%x\n sig=%x\n%s", mut, mpub, msig, ctx)
	}
	// the same triple through the point-taking Verify (decodes the key first)
	if P := edwards25519.NewBlakeSHA256Ed25519().Point(); P.UnmarshalBinary(mpub) == nil {
		var e2 error
		if pn := safely(func() { e2 = eddsa.Verify(P, mmsg, msig) }); pn != "" {
			violationOrKnown(t, ev, "C04/eddsa/verify-panic", "Verify panicked on %s: %s\n%s", mut, pn, ctx)
		} else if e2 == nil && !goOK {
			violationOrKnown(t, ev, "C08/eddsa/accepts-more-than-stdlib", "eddsa.Verify accepts (%s) what crypto/ed25519 rejects\n pub=%x\n sig=%x\n%s", mut, mpub, msig, ctx)
		}
	}
	// the same triple through the Schnorr verifiers of the Ed25519 suite (same equation, same hash,
	// same canonicity and small-order rules)
	edSuite := edwards25519.NewBlakeSHA256Ed25519()
	for _, via := range []string{"VerifyWithChecks", "Verify"} {
		var e3 error
		ran := true
		pn := safely(func() {
			if via == "VerifyWithChecks" {
				e3 = schnorr.VerifyWithChecks(edSuite, mpub, mmsg, msig)
			} else if P := edSuite.Point(); P.UnmarshalBinary(mpub) == nil {
				e3 = schnorr.Verify(edSuite, P, mmsg, msig)
			} else {
				ran = false
			}
		})
		if pn != "" {
			violationOrKnown(t, ev, "C04/schnorr/ed25519/verify-panic", "schnorr.%s panicked on %s: %s\n%s", via, mut, pn, ctx)
		} else if ran && e3 == nil && !goOK {
			violationOrKnown(t, ev, "C08/schnorr-ed25519/accepts-more-than-stdlib", "schnorr.%s accepts (%s) what crypto/ed25519 rejects\n pub=%x\n sig=%x\n%s", via, mut, mpub, msig, ctx)
		} else if ran && e3 == nil && mustReject {
			violationOrKnown(t, ev, "C08/schnorr-ed25519/forgery-accepted", "schnorr.%s accepts mutation %s\n pub=%x\n msg=%x\n sig=%x\n%s", via, mut, mpub, mmsg, msig, ctx)
		}
	}
	ev.Case(true, ctx+" mut="+mut, "eddsa-mut:"+mut, fmt.Sprintf("eddsa-go-accepts:%v", goOK))
}

// ------------------------------------------------------------------ ring signatures

type anonSuiteRand struct {
	anon.Suite
	r cipher.Stream
}

func (s anonSuiteRand) RandomStream() cipher.Stream { return s.r }

func anonSuites() map[string]anon.Suite {
	return map[string]anon.Suite{
		"ed25519":  edwards25519.NewBlakeSHA256Ed25519(),
		"p256":     p256.NewBlakeSHA256P256(),
		"bn256.G1": bn256.NewSuiteG1(),
		"edvar":    edwards25519vartime.NewBlakeSHA256Ed25519(false),
	}
}

func c08Ring(t *rapid.T, ev *evProp) {
	suites := anonSuites()
	name := rapid.SampledFrom([]string{"ed25519", "ed25519", "p256", "bn256.G1", "edvar"}).Draw(t, "suite")
	base := suites[name]
	suite := anonSuiteRand{base, xofStream(genSeed(t, "rand"))}
	n := rapid.IntRange(1, 8).Draw(t, "ringsize")
	mine := rapid.IntRange(0, n-1).Draw(t, "mine")
	ks := xofStream(genSeed(t, "keys"))
	privs := make([]kyber.Scalar, n)
	ring := make(anon.Set, n)
	for i := range ring {
		privs[i] = suite.Scalar().Pick(ks)
		ring[i] = suite.Point().Mul(privs[i], nil)
	}
	var scope []byte
	if rapid.Bool().Draw(t, "linkable") {
		scope = rapid.SliceOfN(rapid.Byte(), 0, 20).Draw(t, "scope")
		if scope == nil {
			scope = []byte{}
		}
	}
	msg := genMsg(t, 300)
	ctx := fmt.Sprintf("ring suite=%s n=%d mine=%d scope=%x(%v) |msg|=%d", name, n, mine, scope, scope != nil, len(msg))
	// message and scope are handed over as slices with spare capacity behind them (parts of a larger
	// packet): neither Sign nor Verify may write into the caller's memory
	gmsg, msgIntact := guard(msg)
	gscope, scopeIntact := []byte(nil), func() string { return "" }
	if scope != nil {
		gscope, scopeIntact = guard(scope)
	}
	sig := anon.Sign(suite, gmsg, ring, gscope, mine, privs[mine])
	for _, why := range []string{msgIntact(), scopeIntact()} {
		if why != "" {
			violationOrKnown(t, ev, "C08/ring/"+name+"/input-overwritten", "anon.Sign wrote into its caller's memory: %s\n%s", why, ctx)
		}
	}
	tag, err := anon.Verify(suite, gmsg, ring, gscope, sig)
	for _, why := range []string{msgIntact(), scopeIntact()} {
		if why != "" {
			violationOrKnown(t, ev, "C08/ring/"+name+"/input-overwritten", "anon.Verify wrote into its caller's memory: %s\n%s", why, ctx)
		}
	}
	if err != nil {
		violationOrKnown(t, ev, "C08/ring/"+name+"/honest", "honest ring signature rejected: %v\n%s", err, ctx)
		return
	}
	if scope != nil {
		lb := suite.Point().Pick(suite.XOF(scope))
		if want := mustMarshal(t, suite.Point().Mul(privs[mine], lb)); !bytes.Equal(tag, want) {
			violationOrKnown(t, ev, "C08/ring/"+name+"/tag", "returned tag %x is not x*H(scope) = %x\n%s", tag, want, ctx)
		}
	} else if len(tag) != 0 {
		violationOrKnown(t, ev, "C08/ring/"+name+"/tag", "unlinkable signature returned a tag\n%s", ctx)
	}
	if scope != nil {
		// the tag is a value of the verified signature: bytes that follow the signature in the caller's
		// buffer are not part of it, and the tag stays what it is when the caller reuses the buffer
		tagCopy := append([]byte(nil), tag...)
		ext := append(append([]byte(nil), sig...), rapid.SliceOfN(rapid.Byte(), 1, 2*len(tag)+3).Draw(t, "trail")...)
		if etag, err := anon.Verify(suite, msg, ring, scope, ext); err == nil && !bytes.Equal(etag, tagCopy) {
			violationOrKnown(t, ev, "C08/ring/"+name+"/tag", "the signature followed by %d more bytes is accepted with tag %x instead of %x\n%s", len(ext)-len(sig), etag, tagCopy, ctx)
		}
		buf := append([]byte(nil), sig...)
		if t2, err := anon.Verify(suite, msg, ring, scope, buf); err == nil {
			for i := range buf {
				buf[i] ^= 0xa5
			}
			if !bytes.Equal(t2, tagCopy) {
				violationOrKnown(t, ev, "C08/ring/"+name+"/tag", "the returned tag changed to %x when the caller overwrote the signature buffer (was %x)\n%s", t2, tagCopy, ctx)
			}
		}
	}
	if len(scope) > 0 {
		// ONE scope buffer, rewritten in place between calls (epoch-0001 -> epoch-0002): the signature
		// made for the new content carries the tag x*H(new scope), not the old one, and the old
		// signature does not verify through the rewritten buffer
		// (the buffer first holds a scope nobody has used yet, so that whatever the library remembers
		// about "the last scope" is remembered from THIS buffer)
		sbuf := append(make([]byte, 0, len(scope)+4), scope...)
		pos, x := uniformInt(t, 0, len(sbuf)-1, "scopebyte"), byte(1+rapid.IntRange(0, 254).Draw(t, "scopexor"))
		sbuf[pos] ^= x
		firstScope := append([]byte(nil), sbuf...)
		sigA := anon.Sign(suite, msg, ring, sbuf, mine, privs[mine])
		tagA, errA := anon.Verify(suite, msg, ring, sbuf, sigA)
		sbuf[pos] ^= x
		if rapid.Bool().Draw(t, "scopethird") {
			sbuf[(pos+1)%len(sbuf)] ^= 0x40
		}
		newScope := append([]byte(nil), sbuf...)
		sigB := anon.Sign(suite, msg, ring, sbuf, mine, privs[mine])
		tagB, errB := anon.Verify(suite, msg, ring, newScope, sigB)
		wantB := mustMarshal(t, suite.Point().Mul(privs[mine], suite.Point().Pick(suite.XOF(newScope))))
		switch {
		case errA != nil:
			violationOrKnown(t, ev, "C08/ring/"+name+"/scope-buffer", "honest linkable signature rejected: %v\n%s", errA, ctx)
		case bytes.Equal(firstScope, newScope):
			// (a one-byte scope can come back to the first content: nothing was rewritten)
		case errB != nil || !bytes.Equal(tagB, wantB) || bytes.Equal(tagB, tagA):
			violationOrKnown(t, ev, "C08/ring/"+name+"/scope-buffer", "after the scope buffer was rewritten in place (%x -> %x) the new signature verifies with err=%v and tag %x; expected x*H(new scope) = %x (old tag %x)\n%s", firstScope, newScope, errB, tagB, wantB, tagA, ctx)
		default:
			if _, err := anon.Verify(suite, msg, ring, sbuf, sigA); err == nil {
				violationOrKnown(t, ev, "C08/ring/"+name+"/scope-buffer", "the signature made under scope %x verifies through the same buffer after it was rewritten to %x\n%s", firstScope, newScope, ctx)
			}
		}
	}
	if (name == "ed25519" || name == "edvar") && rapid.IntRange(0, 3).Draw(t, "tagtorsion") == 0 {
		// The linkage tag is part of what is signed.  On a curve with a cofactor a tag T' = T + D with
		// D of small order satisfies every verification equation whose challenge is a multiple of
		// D's order, so the tag is bound ONLY through the challenge hash: a small ring (every
		// challenge even with probability 2^-n), several fresh signatures, every scope shape
		// (empty-but-linkable included), and the tag field replaced by T + D.  Every one of them
		// must be refused - an accepted one returns a second tag for the same key and scope.
		n2 := rapid.SampledFrom([]int{1, 1, 1, 2, 2, 3}).Draw(t, "tt.n")
		m2 := rapid.IntRange(0, n2-1).Draw(t, "tt.mine")
		sc2 := rapid.SampledFrom([][]byte{{}, {}, scope, []byte("s")}).Draw(t, "tt.scope")
		if sc2 == nil {
			sc2 = []byte{}
		}
		r2 := make(anon.Set, n2)
		for i := range r2 {
			r2[i] = suite.Point().Mul(suite.Scalar().Pick(ks), nil)
		}
		r2[m2] = ring[mine]
		// D: the point of order 2 (0,-1), or one of order 4 (sqrt(-1), 0) / (-sqrt(-1), 0)
		dEnc := rapid.SampledFrom([]string{
			"ecffffffffffffffffffffffffffffffffffffffffffffffffffffffffffff7f",
			"ecffffffffffffffffffffffffffffffffffffffffffffffffffffffffffff7f",
			"0000000000000000000000000000000000000000000000000000000000000000",
			"0000000000000000000000000000000000000000000000000000000000000080"}).Draw(t, "tt.D")
		D := suite.Point()
		if err := D.UnmarshalBinary(mustHex(dEnc)); err == nil {
			pl := suite.PointLen()
			for try := 0; try < 6; try++ {
				sg := anon.Sign(suite, msg, r2, sc2, m2, privs[mine])
				T := suite.Point()
				if len(sg) < pl || T.UnmarshalBinary(sg[len(sg)-pl:]) != nil {
					break
				}
				forged := append(append([]byte(nil), sg[:len(sg)-pl]...), mustMarshal(t, suite.Point().Add(T, D))...)
				var ft []byte
				var ferr error
				if pn := safely(func() { ft, ferr = anon.Verify(suite, msg, r2, sc2, forged) }); pn != "" {
					violationOrKnown(t, ev, "C04/ring/"+name+"/verify-panic", "anon.Verify panicked on a signature whose tag was shifted by a small-order point: %s\n%s", pn, ctx)
					break
				}
				if ferr == nil {
					violationOrKnown(t, ev, "C08/ring/"+name+"/tag-malleable", "a linkable signature (ring size %d, scope %x) whose tag field was replaced by tag + (point of small order %s) verifies and returns tag %x; the honest tag is %x\n%s", n2, sc2, dEnc[:8], ft, sg[len(sg)-pl:], ctx)
					break
				}
			}
			ev.Label("ring-tag-torsion")
		}
	}
	mut := rapid.SampledFrom([]string{"msg", "replace-member", "permute-ring", "scope", "sigbitflip", "sigbitflip", "sigbitflip", "truncate", "link-same", "link-otherkey", "link-otherscope", "drop-member"}).Draw(t, "mut")
	expectReject := true
	var verr error
	var rtag []byte
	run := func(m []byte, r anon.Set, sc []byte, s []byte) {
		if pn := safely(func() { rtag, verr = anon.Verify(suite, m, r, sc, s) }); pn != "" {
			violationOrKnown(t, ev, "C04/ring/"+name+"/verify-panic", "anon.Verify panicked on %s: %s\n%s", mut, pn, ctx)
			verr = fmt.Errorf("panic")
		}
	}
	switch mut {
	case "msg":
		m2, _ := mutateMsg(t, msg)
		run(m2, ring, scope, sig)
	case "replace-member":
		r2 := append(anon.Set(nil), ring...)
		i := rapid.IntRange(0, n-1).Draw(t, "ri")
		r2[i] = suite.Point().Mul(suite.Scalar().Pick(ks), nil)
		run(msg, r2, scope, sig)
	case "permute-ring":
		if n < 2 {
			mut = "permute-ring(n=1)"
			expectReject = false
			run(msg, ring, scope, sig)
			break
		}
		i := rapid.IntRange(0, n-2).Draw(t, "pi")
		r2 := append(anon.Set(nil), ring...)
		r2[i], r2[i+1] = r2[i+1], r2[i]
		run(msg, r2, scope, sig)
	case "drop-member":
		if n < 2 {
			mut = "drop-member(n=1)"
			expectReject = false
			run(msg, ring, scope, sig)
			break
		}
		i := rapid.IntRange(0, n-1).Draw(t, "di")
		r2 := append(append(anon.Set(nil), ring[:i]...), ring[i+1:]...)
		run(msg, r2, scope, sig)
	case "scope":
		if scope == nil {
			// unlinkable signature presented as linkable: parse differs; must not verify
			run(msg, ring, []byte("scope"), sig)
		} else {
			s2 := append(append([]byte(nil), scope...), 1)
			run(msg, ring, s2, sig)
		}
	case "sigbitflip":
		run(msg, ring, scope, flipBits(t, sig, "sf"))
	case "truncate":
		run(msg, ring, scope, sig[:uniformInt(t, 0, len(sig)-1, "tl")])
	case "link-same":
		// same key, same scope, other message and other ring => same tag
		if scope == nil {
			mut, expectReject = "link-same(unlinkable)", false
			run(msg, ring, scope, sig)
			break
		}
		n2 := rapid.IntRange(1, 6).Draw(t, "n2")
		m2 := rapid.IntRange(0, n2-1).Draw(t, "m2")
		r2 := make(anon.Set, n2)
		for i := range r2 {
			r2[i] = suite.Point().Mul(suite.Scalar().Pick(ks), nil)
		}
		r2[m2] = ring[mine]
		sig2 := anon.Sign(suite, append(msg, 7), r2, scope, m2, privs[mine])
		tag2, err := anon.Verify(suite, append(msg, 7), r2, scope, sig2)
		if err != nil || !bytes.Equal(tag2, tag) {
			violationOrKnown(t, ev, "C08/ring/"+name+"/linkage", "same key and scope gave tags %x and %x (err=%v)\n%s", tag, tag2, err, ctx)
		}
		expectReject = false
		verr = nil
	case "link-otherkey", "link-otherscope":
		if scope == nil || (mut == "link-otherkey" && n < 2) {
			mut, expectReject = mut+"(n/a)", false
			run(msg, ring, scope, sig)
			break
		}
		var tag2 []byte
		var err error
		if mut == "link-otherkey" {
			o := (mine + 1) % n
			sig2 := anon.Sign(suite, msg, ring, scope, o, privs[o])
			tag2, err = anon.Verify(suite, msg, ring, scope, sig2)
		} else {
			s2 := append(append([]byte(nil), scope...), 2)
			sig2 := anon.Sign(suite, msg, ring, s2, mine, privs[mine])
			tag2, err = anon.Verify(suite, msg, ring, s2, sig2)
		}
		if err != nil || bytes.Equal(tag2, tag) {
			violationOrKnown(t, ev, "C08/ring/"+name+"/linkage", "%s: tags %x and %x must differ (err=%v)\n%s", mut, tag, tag2, err, ctx)
		}
		expectReject = false
		verr = nil
	}
	if expectReject && verr == nil {
		violationOrKnown(t, ev, "C08/ring/"+name+"/forgery-accepted", "mutation %s accepted (tag %x)\n%s sig=%x", mut, rtag, ctx, sig)
	}
	if !expectReject && verr != nil {
		violationOrKnown(t, ev, "C08/ring/"+name+"/honest", "unmodified signature rejected in %s: %v\n%s", mut, verr, ctx)
	}
	ev.Case(expectReject || (n > 1 && mine != 0) || mut[:4] == "link", ctx+" mut="+mut, "ring:"+name, "ring-mut:"+mut, fmt.Sprintf("ring-n:%d", n))
}

const c08Rule = "four generated families. (Schnorr) every registry group with a base point, key from edge scalar classes, message length {0,1,31..33,64,127..129,1000,4096,any}, nonce from a seeded XOF: the honest signature verifies; one mutation from {message flip/append/truncate, other key, key+B, other R, R+B, R bit flips, s+1, s+q, s bit flips, truncate, extend, swap} is classified by decoding as identical / equivalent / different; different must be rejected, equivalent must be rejected on Ed25519. " +
	"(canonicity) 32-byte strings near p, near k*L, the small-order points and their non-canonical encodings, top-byte patterns, random: scalar/point IsCanonical and HasSmallOrder vs integer comparison / the Edwards model. " +
	"(EdDSA) any 32-byte seed: public key and signature byte-identical to crypto/ed25519, deterministic, key round trip, accepted by eddsa.Verify and schnorr.Verify; one adversarial triple from {message, sig/pub bit flips, s+L, s+kL, R/A + torsion point, small-order A with s=r, small-order R, non-canonical R/A, other key, zero s}: kyber accepts => crypto/ed25519 accepts, and the listed malleability classes are rejected. " +
	"(ring) suites Ed25519/P-256/BN256-G1/Edwards-vartime, ring size 1..8, every signer index, linkable or not: honest verifies and returns x*H(scope); message/ring member/ring order/ring size/scope/any signature bit flip/truncation => error; tags equal for same key+scope across messages and rings, different for other key or scope. " +
	"non-trivial = a semantically different mutation, a boundary canonicity string, any EdDSA adversarial triple, a ring case with a negative mutation or signer index != 0 or a linkage comparison; distinct = distinct rendered case" +
	" Added after the sensitivity rounds: canonicity inputs agreeing with L (or p) above every byte position and differing at it; an EdDSA object re-keyed after signing vs crypto/ed25519; for linkable ring signatures the tag of sig||extra equals the tag of sig and survives the caller overwriting the buffer; secrets whose public key has order dividing 8 on full-group curves are excluded."

func TestC08_Schnorr(t *testing.T) {
	ev := evFor("C08")
	ev.Rule(c08Rule)
	var groups []*GroupInfo
	for _, gi := range Groups(tier() == "thorough") {
		if gi.MulNil && gi.HasBase && gi.Role != 3 {
			groups = append(groups, gi)
		}
	}
	rcheck(t, 90*len(groups), 5000*len(groups), func(t *rapid.T) {
		gi := groups[uniformInt(t, 0, len(groups)-1, "group")]
		c08Schnorr(t, ev, gi)
	})
}

func TestC08_EdDSA(t *testing.T) {
	ev := evFor("C08")
	rcheck(t, 1500, 80000, func(t *rapid.T) {
		if rapid.IntRange(0, 3).Draw(t, "family") == 0 {
			c08Canonicity(t, ev)
		} else {
			c08EdDSA(t, ev)
		}
	})
}

func TestC08_Ring(t *testing.T) {
	ev := evFor("C08")
	rcheck(t, 600, 30000, func(t *rapid.T) { c08Ring(t, ev) })
}
