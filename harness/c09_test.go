//go:build !constantTime

package harness

// C09 — BLS, threshold BLS, BDN aggregation and CoSi.

import (
	"bytes"
	"crypto/cipher"
	"crypto/sha256"
	"fmt"
	"hash"
	"math/big"
	"slices"
	"strings"
	"testing"

	"go.dedis.ch/kyber/v4"
	"go.dedis.ch/kyber/v4/group/edwards25519"
	"go.dedis.ch/kyber/v4/share"
	"go.dedis.ch/kyber/v4/sign"
	"go.dedis.ch/kyber/v4/sign/bdn"
	"go.dedis.ch/kyber/v4/sign/bls"
	"go.dedis.ch/kyber/v4/sign/cosi"
	"go.dedis.ch/kyber/v4/sign/tbls"
	"golang.org/x/crypto/blake2s"
	"pgregory.net/rapid"
)

type blsCombo struct {
	name     string
	si       *SuiteInfo
	onG1     bool
	sig, key *GroupInfo
}

func (c blsCombo) scheme() sign.Scheme {
	if c.onG1 {
		return bls.NewSchemeOnG1(c.si.S)
	}
	return bls.NewSchemeOnG2(c.si.S)
}

func (c blsCombo) tscheme() sign.ThresholdScheme {
	if c.onG1 {
		return tbls.NewThresholdSchemeOnG1(c.si.S)
	}
	return tbls.NewThresholdSchemeOnG2(c.si.S)
}

func (c blsCombo) bdn() *bdn.Scheme {
	if c.onG1 {
		return bdn.NewSchemeOnG1(c.si.S)
	}
	return bdn.NewSchemeOnG2(c.si.S)
}

func blsCombos() []blsCombo {
	var out []blsCombo
	for _, si := range Suites() {
		if si.G1.Hash != nil {
			out = append(out, blsCombo{si.Name + "/sigG1", si, true, si.G1, si.G2})
		}
		if si.G2.Hash != nil {
			out = append(out, blsCombo{si.Name + "/sigG2", si, false, si.G2, si.G1})
		}
	}
	return out
}

func genCombo(t *rapid.T) blsCombo {
	cs := blsCombos()
	return cs[uniformInt(t, 0, len(cs)-1, "combo")]
}

// mutateSigPoint returns a mutated encoding of a signature point and whether it denotes a
// different point (false also when it no longer decodes: then it must simply be rejected).
func mutateSigPoint(t *rapid.T, gi *GroupInfo, sig []byte) ([]byte, string) {
	kind := rapid.SampledFrom([]string{"bitflip", "bitflip", "otherpoint", "negate", "plusbase", "truncate", "extend", "identity"}).Draw(t, "sigmut")
	switch kind {
	case "bitflip":
		return flipBits(t, sig, "sf"), kind
	case "otherpoint":
		return mustMarshal(t, genPointD(t, gi, "op", 0).P), kind
	case "negate", "plusbase", "identity":
		p := gi.G.Point()
		if err := p.UnmarshalBinary(sig); err != nil {
			t.Fatalf("harness: signature does not decode: %v", err)
		}
		switch kind {
		case "negate":
			p = gi.G.Point().Neg(p)
		case "plusbase":
			p = gi.G.Point().Add(p, basePoint(gi))
		default:
			p = nullPoint(gi)
		}
		return mustMarshal(t, p), kind
	case "truncate":
		return append([]byte(nil), sig[:uniformInt(t, 0, len(sig)-1, "tl")]...), kind
	default:
		return append(append([]byte(nil), sig...), rapid.SliceOfN(rapid.Byte(), 1, 5).Draw(t, "ext")...), kind
	}
}

func samePoint(gi *GroupInfo, a, b []byte) bool {
	p, q := gi.G.Point(), gi.G.Point()
	if p.UnmarshalBinary(a) != nil || q.UnmarshalBinary(b) != nil {
		return false
	}
	return p.Equal(q)
}

// reusedBuffer: a caller that keeps ONE message buffer and overwrites it between calls on the same
// scheme value.  A signature made over the old content must not verify for the new content, a
// signature over the new content is x*H(new) and verifies, and going back to the old content the
// first signature verifies again.  (A scheme that remembers the last message by reference fails.)
func reusedBuffer(t *rapid.T, ev *evProp, key, ctx string, sch interface {
	Sign(kyber.Scalar, []byte) ([]byte, error)
	Verify(kyber.Point, []byte, []byte) error
}, x kyber.Scalar, X kyber.Point, sigG *GroupInfo, msg []byte) {
	if len(msg) == 0 {
		return
	}
	buf := append(make([]byte, 0, len(msg)+8), msg...)
	buf[0] ^= 0x77 // a content nobody has used yet: whatever is remembered is remembered from THIS buffer
	sig1, err := sch.Sign(x, buf)
	if err != nil {
		return // reported by the caller's own Sign check
	}
	old := append([]byte(nil), buf...)
	if rapid.Bool().Draw(t, "rb.allnew") {
		for i := range buf {
			buf[i] ^= byte(0x35 + 7*i)
		}
	}
	pos := uniformInt(t, 0, len(buf)*8-1, "rb.bit")
	buf[pos/8] ^= 1 << uint(pos%8)
	if bytes.Equal(buf, old) {
		return
	}
	cur := append([]byte(nil), buf...)
	if sch.Verify(X, buf, sig1) == nil {
		violationOrKnown(t, ev, key, "a signature over the OLD content of a message buffer verifies after the buffer was overwritten (old=%x new=%x)\n%s", old, cur, ctx)
		return
	}
	sig2, err := sch.Sign(x, buf)
	if err != nil || !bytes.Equal(sig2, mustMarshal(t, sigG.G.Point().Mul(x, sigG.Hash(cur, nil)))) {
		violationOrKnown(t, ev, key, "signing the NEW content of a reused message buffer does not give x*H(new): %x, %v\n%s", sig2, err, ctx)
		return
	}
	if err := sch.Verify(X, cur, sig2); err != nil {
		violationOrKnown(t, ev, key, "the signature over the new content of a reused buffer is rejected: %v\n%s", err, ctx)
		return
	}
	copy(buf, old)
	if err := sch.Verify(X, buf, sig1); err != nil {
		violationOrKnown(t, ev, key, "after restoring the old content the first signature is rejected: %v\n%s", err, ctx)
		return
	}
	if sch.Verify(X, buf, sig2) == nil {
		violationOrKnown(t, ev, key, "after restoring the old content the signature over the other content verifies\n%s", ctx)
	}
}

func c09BLS(t *rapid.T, ev *evProp) {
	c := genCombo(t)
	sch := c.scheme()
	x := genScalar(t, c.key, "x")
	if x.V.Sign() == 0 {
		x = SVal{S: c.key.G.Scalar().One(), V: big.NewInt(1), Class: "one"}
	}
	X := c.key.G.Point().Mul(x.S, nil)
	msg := genMsg(t, 300)
	ctx := fmt.Sprintf("bls %s x=%s |msg|=%d msg=%.30x", c.name, x, len(msg), msg)
	key := func(w string) string { return "C09/bls/" + c.name + "/" + w }
	gmsg, msgIntact := guard(msg)
	sig, err := sch.Sign(x.S, gmsg)
	if why := msgIntact(); why != "" {
		violationOrKnown(t, ev, key("input-overwritten"), "bls Sign wrote into its caller's memory: %s\n%s", why, ctx)
	}
	if err != nil {
		violationOrKnown(t, ev, key("sign"), "Sign failed: %v\n%s", err, ctx)
		return
	}
	if err := sch.Verify(X, msg, sig); err != nil {
		violationOrKnown(t, ev, key("honest"), "honest signature rejected: %v\n%s", err, ctx)
		return
	}
	// the signature is x*H(m), deterministically
	if want := mustMarshal(t, c.sig.G.Point().Mul(x.S, c.sig.Hash(msg, nil))); !bytes.Equal(sig, want) {
		violationOrKnown(t, ev, key("value"), "signature %x is not x*H(m) = %x\n%s", sig, want, ctx)
	}
	reusedBuffer(t, ev, key("reused-buffer"), ctx, sch, x.S, X, c.sig, msg)
	mut := rapid.SampledFrom([]string{"msg", "otherkey", "key+base", "identitykey", "sig", "sig", "sig"}).Draw(t, "mut")
	mX, mmsg, msig := X, msg, sig
	expectReject := true
	switch mut {
	case "msg":
		mmsg, _ = mutateMsg(t, msg)
	case "otherkey":
		y := genScalar(t, c.key, "y")
		mX = c.key.G.Point().Mul(y.S, nil)
		expectReject = !mX.Equal(X)
	case "key+base":
		mX = c.key.G.Point().Add(X, basePoint(c.key))
	case "identitykey":
		mX = nullPoint(c.key)
	case "sig":
		var k string
		msig, k = mutateSigPoint(t, c.sig, sig)
		mut += ":" + k
		expectReject = !samePoint(c.sig, msig, sig)
	}
	var verr error
	if pn := safely(func() { verr = sch.Verify(mX, mmsg, msig) }); pn != "" {
		violationOrKnown(t, ev, "C04/bls/"+c.name+"/verify-panic", "Verify panicked on %s: %s\n%s msig=%x", mut, pn, ctx, msig)
		return
	}
	if expectReject && verr == nil {
		violationOrKnown(t, ev, key("forgery-accepted"), "mutation %s accepted\n%s\n sig=%x\nmsig=%x", mut, ctx, sig, msig)
	}
	if !expectReject && verr != nil {
		violationOrKnown(t, ev, key("honest"), "equivalent presentation (%s) rejected: %v\n%s", mut, verr, ctx)
	}
	ev.Case(expectReject, ctx+" mut="+mut, "bls:"+c.name, "bls-mut:"+mut)
}

// tblsPartial presents partial signing by one share as a Sign/Verify pair (index prefix stripped).
type tblsPartial struct {
	ts  sign.ThresholdScheme
	sh  *share.PriShare
	pub *share.PubPoly
}

func (p tblsPartial) Sign(_ kyber.Scalar, m []byte) ([]byte, error) {
	b, err := p.ts.Sign(p.sh, m)
	if err != nil || len(b) < 2 {
		return nil, fmt.Errorf("partial sign: %v", err)
	}
	return b[2:], nil
}

func (p tblsPartial) Verify(_ kyber.Point, m, sig []byte) error {
	return p.ts.VerifyPartial(p.pub, m, append([]byte{byte(p.sh.I >> 8), byte(p.sh.I)}, sig...))
}

// c09TBLS: one threshold scheme VALUE serves one or two sharings.  The second sharing is a share
// refresh (same secret, same threshold, new polynomial), a re-sharing with another threshold, or a
// sharing of another secret; everything the first round asserts is asserted again, and partials of
// the first sharing (valid under ITS public polynomial) are among the invalid ones of the second.
func c09TBLS(t *rapid.T, ev *evProp) {
	c := genCombo(t)
	ts := c.tscheme()
	n := rapid.IntRange(2, 8).Draw(t, "n")
	th := rapid.IntRange(2, n).Draw(t, "t")
	secret := genScalar(t, c.key, "secret")
	msg := genMsg(t, 100)
	stale := c09TBLSRound(t, ev, c, ts, n, th, secret, msg, "", nil)
	if stale == nil || rapid.Bool().Draw(t, "one-sharing") {
		return
	}
	mode := rapid.SampledFrom([]string{"refresh", "refresh", "other-t", "other-secret"}).Draw(t, "second")
	switch mode {
	case "other-t":
		th = rapid.IntRange(2, n).Draw(t, "t2")
	case "other-secret":
		secret = genScalar(t, c.key, "secret2")
	}
	if rapid.Bool().Draw(t, "othermsg2") {
		msg = genMsg(t, 100)
	}
	c09TBLSRound(t, ev, c, ts, n, th, secret, msg, " second-sharing="+mode, stale)
}

func c09TBLSRound(t *rapid.T, ev *evProp, c blsCombo, ts sign.ThresholdScheme, n, th int, secret SVal, msg []byte, round string, stale [][]byte) [][]byte {
	pri := share.NewPriPoly(c.key.G, uint32(th), secret.S, xofStream(genSeed(t, "poly")))
	pub := pri.Commit(c.key.G.Point().Base())
	ctx := fmt.Sprintf("tbls %s t=%d n=%d secret=%s |msg|=%d%s", c.name, th, n, secret, len(msg), round)
	key := func(w string) string { return "C09/tbls/" + c.name + "/" + w }
	partials := make([][]byte, n)
	for i, s := range pri.Shares(uint32(n)) {
		p, err := ts.Sign(s, msg)
		if err != nil {
			violationOrKnown(t, ev, key("sign"), "partial Sign failed: %v\n%s", err, ctx)
			return nil
		}
		partials[i] = p
		if err := ts.VerifyPartial(pub, msg, p); err != nil {
			violationOrKnown(t, ev, key("VerifyPartial"), "honest partial %d rejected: %v\n%s", i, err, ctx)
		}
		if idx, err := ts.IndexOf(p); err != nil || idx != i {
			violationOrKnown(t, ev, key("IndexOf"), "IndexOf(partial %d) = %d, %v\n%s", i, idx, err, ctx)
		}
	}
	// partial signing / verification through one reused message buffer
	sh0 := pri.Eval(uint32(rapid.IntRange(0, n-1).Draw(t, "rb.share")))
	reusedBuffer(t, ev, key("reused-buffer"), ctx, tblsPartial{ts, sh0, pub}, sh0.V, nil, c.sig, msg)
	// the unique signature
	want, err := c.scheme().Sign(secret.S, msg)
	if err != nil {
		t.Fatalf("harness: bls.Sign: %v", err)
	}
	// invalid partials of several kinds
	other := append(append([]byte(nil), msg...), 0x55)
	mkInvalid := func(label string) ([]byte, string) {
		kinds := []string{"garbage", "short", "othermsg", "foreignvalue", "badindex", "bitflip"}
		if stale != nil {
			kinds = append(kinds, "stale", "stale", "stale")
		}
		kind := rapid.SampledFrom(kinds).Draw(t, label+".kind")
		i := rapid.IntRange(0, n-1).Draw(t, label+".i")
		switch kind {
		case "stale":
			// a partial of the previous sharing on this scheme value; invalid now unless that share
			// happens to be this sharing's share too (same secret, t = 1 is not generated)
			if bytes.Equal(stale[i], partials[i]) {
				return []byte{0, 0}, "short"
			}
			return append([]byte(nil), stale[i]...), kind
		case "garbage":
			return rapid.SliceOfN(rapid.Byte(), len(partials[0]), len(partials[0])).Draw(t, label+".raw"), kind
		case "short":
			return append([]byte(nil), partials[i][:rapid.IntRange(0, len(partials[i])-1).Draw(t, label+".len")]...), kind
		case "othermsg":
			p, _ := ts.Sign(pri.Eval(uint32(i)), other)
			return p, kind
		case "foreignvalue":
			if n < 2 {
				return []byte{0, 0}, "short"
			}
			j := (i + 1 + rapid.IntRange(0, n-2).Draw(t, label+".j")) % n
			out := append([]byte(nil), partials[i][:2]...)
			return append(out, partials[j][2:]...), kind
		case "badindex":
			out := append([]byte(nil), partials[i]...)
			out[0], out[1] = 0xff, byte(rapid.IntRange(0, 255).Draw(t, label+".hi"))
			return out, kind
		default:
			return append(append([]byte(nil), partials[i][:2]...), flipBits(t, partials[i][2:], label+".bf")...), kind
		}
	}
	// VerifyPartial rejects them
	inv, ikind := mkInvalid("vp")
	var verr error
	if pn := safely(func() { verr = ts.VerifyPartial(pub, msg, inv) }); pn != "" {
		violationOrKnown(t, ev, "C04/tbls/"+c.name+"/verifypartial-panic", "VerifyPartial panicked on %s partial %x: %s\n%s", ikind, inv, pn, ctx)
	} else if verr == nil {
		// a bit flip may land on an equivalent encoding of the same point
		isSame := false
		for _, p := range partials {
			if len(inv) == len(p) && bytes.Equal(inv[:2], p[:2]) && samePoint(c.sig, inv[2:], p[2:]) {
				isSame = true
			}
		}
		if !isSame {
			violationOrKnown(t, ev, key("VerifyPartial-accepts"), "VerifyPartial accepted an invalid (%s) partial %x\n%s", ikind, inv, ctx)
		}
	}
	// the list handed to Recover
	nvalid := rapid.IntRange(0, n).Draw(t, "nvalid")
	perm := rapid.Permutation(seqInts(n)).Draw(t, "perm")
	subset := perm[:nvalid]
	var list [][]byte
	var desc []string
	for _, idx := range subset {
		for k := rapid.IntRange(0, 2).Draw(t, "ninv"); k > 1; k-- { // 1/3: an invalid one before
			b, kd := mkInvalid(fmt.Sprintf("inv%d", len(list)))
			list = append(list, b)
			desc = append(desc, kd)
		}
		list = append(list, partials[idx])
		desc = append(desc, fmt.Sprint(idx))
		if rapid.IntRange(0, 3).Draw(t, "dup") == 0 {
			list = append(list, append([]byte(nil), partials[idx]...))
			desc = append(desc, fmt.Sprintf("dup%d", idx))
		}
	}
	// further copies of valid partials anywhere in the list (a copy need not follow its original)
	for k := rapid.IntRange(0, 3).Draw(t, "farDups"); k > 1 && nvalid > 0; k-- {
		idx := subset[uniformInt(t, 0, nvalid-1, "farDup")]
		pos := uniformInt(t, 0, len(list), "farDupPos")
		list = append(list[:pos], append([][]byte{append([]byte(nil), partials[idx]...)}, list[pos:]...)...)
		desc = append(desc[:pos], append([]string{fmt.Sprintf("dup%d", idx)}, desc[pos:]...)...)
	}
	if rapid.Bool().Draw(t, "tailinv") {
		b, kd := mkInvalid("tail")
		list = append(list, b)
		desc = append(desc, kd)
	}
	ctx += fmt.Sprintf(" list=%v", desc)
	var rec []byte
	var rerr error
	if pn := safely(func() { rec, rerr = ts.Recover(pub, msg, list, uint32(th), uint32(n)) }); pn != "" {
		violationOrKnown(t, ev, "C04/tbls/"+c.name+"/recover-panic", "Recover panicked: %s\n%s", pn, ctx)
		return nil
	}
	// the same list again: Recover must not have disturbed the caller's partials
	var rec2 []byte
	var rerr2 error
	if pn := safely(func() { rec2, rerr2 = ts.Recover(pub, msg, list, uint32(th), uint32(n)) }); pn != "" || (rerr == nil) != (rerr2 == nil) || !bytes.Equal(rec, rec2) {
		violationOrKnown(t, ev, key("Recover-repeat"), "a second Recover on the same list gives %x err=%v %s, the first gave %x err=%v\n%s", rec2, rerr2, pn, rec, rerr, ctx)
	}
	if nvalid >= th {
		if rerr != nil {
			// classify the known duplicate defect precisely
			k := "Recover"
			if slices.ContainsFunc(desc, func(s string) bool { return len(s) > 3 && s[:3] == "dup" }) {
				k = "Recover-duplicate"
			}
			violationOrKnown(t, ev, key(k), "Recover failed although %d >= t distinct valid partials are present: %v\n%s", nvalid, rerr, ctx)
		} else {
			if !bytes.Equal(rec, want) {
				violationOrKnown(t, ev, key("Recover-unique"), "recovered signature %x differs from the group secret's signature %x\n%s", rec, want, ctx)
			}
			if err := ts.VerifyRecovered(pub.Commit(), msg, rec); err != nil {
				violationOrKnown(t, ev, key("VerifyRecovered"), "recovered signature does not verify under the group key: %v\n%s", err, ctx)
			}
		}
	} else if rerr == nil {
		violationOrKnown(t, ev, key("Recover-refuse"), "Recover succeeded with only %d < t distinct valid partials\n%s", nvalid, ctx)
	}
	prefix := true
	for i, d := range desc {
		if d != fmt.Sprint(i) {
			prefix = false
		}
	}
	ev.Case(!prefix || stale != nil, ctx, "tbls:"+c.name, fmt.Sprintf("tbls-enough:%v", nvalid >= th), "tbls-sharing:"+strings.TrimSpace(round+" first")[:5])
	return partials
}

// bdnCoefs: the BDN coefficients as specified: blake2s XOF over the concatenated public key
// encodings, 16 bytes per key, read as an integer in the scalar's byte order.
func bdnCoefs(t *rapid.T, g kyber.Group, pubs []kyber.Point) []*big.Int {
	h, _ := blake2s.NewXOF(blake2s.OutputLengthUnknown, nil)
	for _, p := range pubs {
		h.Write(mustMarshal(t, p))
	}
	out := make([]byte, 16*len(pubs))
	h.Read(out)
	cs := make([]*big.Int, len(pubs))
	for i := range cs {
		// the 16 bytes are a little-endian number (they are reversed before a big-endian SetBytes)
		cs[i] = bytesToBig(out[16*i:16*i+16], true)
	}
	return cs
}

func c09BDN(t *rapid.T, ev *evProp) {
	c := genCombo(t)
	sch := c.bdn()
	n := rapid.IntRange(1, 10).Draw(t, "n")
	ks := xofStream(genSeed(t, "keys"))
	privs := make([]kyber.Scalar, n)
	pubs := make([]kyber.Point, n)
	for i := range pubs {
		privs[i], pubs[i] = sch.NewKeyPair(ks)
	}
	msg := genMsg(t, 64)
	want := make([]bool, n)
	for i := range want {
		want[i] = rapid.Bool().Draw(t, fmt.Sprintf("bit%d", i))
	}
	ctx := fmt.Sprintf("bdn %s n=%d mask=%v |msg|=%d", c.name, n, want, len(msg))
	key := func(w string) string { return "C09/bdn/" + c.name + "/" + w }
	route := rapid.SampledFrom([]string{"setbit", "setmask", "merge", "clone", "ownkey"}).Draw(t, "route")
	maskBytes := make([]byte, (n+7)/8)
	for i, b := range want {
		if b {
			maskBytes[i/8] |= 1 << uint(i%8)
		}
	}
	var mask *bdn.Mask
	var err error
	build := func() {
		switch route {
		case "setbit":
			mask, err = bdn.NewMask(c.key.G, pubs, nil)
			for i, b := range want {
				if err == nil && b {
					err = mask.SetBit(i, true)
				}
			}
		case "setmask":
			mask, err = bdn.NewMask(c.key.G, pubs, nil)
			if err == nil {
				err = mask.SetMask(maskBytes)
			}
		case "merge":
			mask, err = bdn.NewMask(c.key.G, pubs, nil)
			// split the bits over two merges
			a, b := make([]byte, len(maskBytes)), make([]byte, len(maskBytes))
			for i := range maskBytes {
				a[i], b[i] = maskBytes[i]&0x55, maskBytes[i]&0xaa
			}
			if err == nil {
				err = mask.Merge(a)
			}
			if err == nil {
				err = mask.Merge(b)
			}
		case "clone":
			var base *bdn.Mask
			base, err = bdn.NewMask(c.key.G, pubs, nil)
			if err == nil {
				mask = base.Clone()
				err = mask.SetMask(maskBytes)
				// the original must stay empty
				if base.CountEnabled() != 0 {
					violationOrKnown(t, ev, key("clone-independent"), "modifying a cloned mask changed the original\n%s", ctx)
				}
			}
		case "ownkey":
			own := -1
			for i, b := range want {
				if b {
					own = i
					break
				}
			}
			if own < 0 {
				own = 0
				want[0] = true
				maskBytes[0] |= 1
			}
			mask, err = bdn.NewMask(c.key.G, pubs, pubs[own])
			for i, b := range want {
				if err == nil && b {
					err = mask.SetBit(i, true)
				}
			}
		}
	}
	if pn := safely(build); pn != "" {
		violationOrKnown(t, ev, key("mask-"+route), "building the mask panicked: %s\n%s", pn, ctx)
		return
	}
	if err != nil {
		violationOrKnown(t, ev, key("mask-"+route), "building the mask failed: %v\n%s", err, ctx)
		return
	}
	ctx += " route=" + route
	if !bytes.Equal(mask.Mask(), maskBytes) {
		violationOrKnown(t, ev, key("mask-bits"), "mask bytes %x, want %x\n%s", mask.Mask(), maskBytes, ctx)
	}
	var sigs [][]byte
	cnt := 0
	for i, b := range want {
		if b {
			s, err := sch.Sign(privs[i], msg)
			if err != nil {
				t.Fatalf("harness: sign: %v", err)
			}
			sigs = append(sigs, s)
			cnt++
		}
	}
	reusedBuffer(t, ev, key("reused-buffer"), ctx, sch, privs[0], pubs[0], c.sig, msg)
	if mask.CountEnabled() != cnt || mask.CountTotal() != n {
		violationOrKnown(t, ev, key("mask-count"), "CountEnabled=%d CountTotal=%d, want %d/%d\n%s", mask.CountEnabled(), mask.CountTotal(), cnt, n, ctx)
	}
	var aggSig, aggPub kyber.Point
	if pn := safely(func() {
		aggSig, err = sch.AggregateSignatures(sigs, mask)
		if err == nil {
			aggPub, err = sch.AggregatePublicKeys(mask)
		}
	}); pn != "" {
		violationOrKnown(t, ev, key("aggregate-"+route), "aggregation panicked with a mask built via %s: %s\n%s", route, pn, ctx)
		return
	}
	if err != nil {
		violationOrKnown(t, ev, key("aggregate-"+route), "aggregation failed: %v\n%s", err, ctx)
		return
	}
	// the same aggregation again on the same mask and signatures: identical results (aggregation must
	// not disturb the mask's keys or the caller's signatures)
	if s2, e1 := sch.AggregateSignatures(sigs, mask); e1 != nil || !s2.Equal(aggSig) {
		violationOrKnown(t, ev, key("aggregate-repeat"), "a second AggregateSignatures gives another result (err=%v)\n%s", e1, ctx)
	}
	if p2, e2 := sch.AggregatePublicKeys(mask); e2 != nil || !p2.Equal(aggPub) {
		violationOrKnown(t, ev, key("aggregate-repeat"), "a second AggregatePublicKeys gives another result (err=%v)\n%s", e2, ctx)
	}
	// reference: sum (c_i+1) * sigma_i and sum (c_i+1) * X_i
	coefs := bdnCoefs(t, c.key.G, pubs)
	refSig, refPub := nullPoint(c.sig), nullPoint(c.key)
	for i, b := range want {
		if !b {
			continue
		}
		k := scalarFromBig(c.key.G, new(big.Int).Mod(new(big.Int).Add(coefs[i], big1), c.key.Order))
		sp := c.sig.G.Point()
		sb, _ := sch.Sign(privs[i], msg)
		if err := sp.UnmarshalBinary(sb); err != nil {
			t.Fatalf("harness: %v", err)
		}
		refSig = c.sig.G.Point().Add(refSig, c.sig.G.Point().Mul(k, sp))
		refPub = c.key.G.Point().Add(refPub, c.key.G.Point().Mul(k, pubs[i]))
	}
	if !aggSig.Equal(refSig) {
		violationOrKnown(t, ev, key("aggregate-value"), "aggregate signature differs from sum (c_i+1)*sigma_i\n%s", ctx)
	}
	if !aggPub.Equal(refPub) {
		violationOrKnown(t, ev, key("aggregate-key-value"), "aggregate key differs from sum (c_i+1)*X_i\n%s", ctx)
	}
	sigBytes := mustMarshal(t, aggSig)
	if cnt > 0 {
		if err := sch.Verify(aggPub, msg, sigBytes); err != nil {
			violationOrKnown(t, ev, key("verify"), "aggregate does not verify under the aggregate key of its own mask: %v\n%s", err, ctx)
		}
		// other mask
		j := rapid.IntRange(0, n-1).Draw(t, "flip")
		m2 := mask.Clone()
		_ = m2.SetBit(j, !want[j])
		if p2, err := sch.AggregatePublicKeys(m2); err == nil {
			if sch.Verify(p2, msg, sigBytes) == nil {
				violationOrKnown(t, ev, key("verify-othermask"), "aggregate verifies under the mask with bit %d flipped\n%s", j, ctx)
			}
		}
		m3, _ := mutateMsg(t, msg)
		if sch.Verify(aggPub, m3, sigBytes) == nil {
			violationOrKnown(t, ev, key("verify-othermsg"), "aggregate verifies for another message\n%s", ctx)
		}
	}
	// wrong number of signatures must be an error, not a panic
	if pn := safely(func() {
		if _, err := sch.AggregateSignatures(append(sigs, sigBytes), mask); err == nil {
			violationOrKnown(t, ev, key("aggregate-count"), "one signature too many accepted\n%s", ctx)
		}
		if len(sigs) > 0 {
			if _, err := sch.AggregateSignatures(sigs[1:], mask); err == nil {
				violationOrKnown(t, ev, key("aggregate-count"), "one signature too few accepted\n%s", ctx)
			}
		}
	}); pn != "" {
		violationOrKnown(t, ev, "C04/bdn/"+c.name+"/aggregate-panic", "AggregateSignatures panicked on a wrong signature count: %s\n%s", pn, ctx)
	}
	ev.Case(cnt != n || route != "setbit", ctx, "bdn:"+c.name, "bdn-route:"+route, fmt.Sprintf("bdn-n:%d", n))
}

// ------------------------------------------------------------------ CoSi

type cosiSuite struct {
	kyber.Group
	r cipher.Stream
}

func (s cosiSuite) Hash() hash.Hash             { return sha256.New() }
func (s cosiSuite) RandomStream() cipher.Stream { return s.r }

func c09CoSi(t *rapid.T, ev *evProp) {
	gname := rapid.SampledFrom([]string{"ed25519", "ed25519", "p256", "edvar.ext25519"}).Draw(t, "group")
	gi := groupByName(gname)
	suite := cosiSuite{gi.G, xofStream(genSeed(t, "rand"))}
	n := rapid.IntRange(1, 10).Draw(t, "n")
	ks := xofStream(genSeed(t, "keys"))
	privs := make([]kyber.Scalar, n)
	pubs := make([]kyber.Point, n)
	for i := range pubs {
		privs[i] = gi.G.Scalar().Pick(ks)
		pubs[i] = gi.G.Point().Mul(privs[i], nil)
	}
	part := make([]bool, n)
	cnt := 0
	for i := range part {
		part[i] = rapid.IntRange(0, 3).Draw(t, fmt.Sprintf("p%d", i)) != 0
		if part[i] {
			cnt++
		}
	}
	msg := genMsg(t, 64)
	if msg == nil {
		msg = []byte{}
	}
	ctx := fmt.Sprintf("cosi group=%s n=%d participants=%v |msg|=%d", gname, n, part, len(msg))
	key := func(w string) string { return "C09/cosi/" + gname + "/" + w }
	// mask state machine against a bit-set model: random SetBit/SetMask sequence ending in `part`
	mask, err := cosi.NewMask(suite, pubs, nil)
	if err != nil {
		violationOrKnown(t, ev, key("mask"), "NewMask failed: %v", err)
		return
	}
	model := make([]bool, n)
	checkMask := func(step string) {
		sum := nullPoint(gi)
		c := 0
		for i, b := range model {
			if b {
				sum = gi.G.Point().Add(sum, pubs[i])
				c++
			}
			if en, err := mask.IndexEnabled(i); err != nil || en != b {
				violationOrKnown(t, ev, key("mask-state"), "after %s: IndexEnabled(%d)=%v,%v want %v\n%s", step, i, en, err, b, ctx)
			}
		}
		if !mask.AggregatePublic.Equal(sum) || mask.CountEnabled() != c || mask.CountTotal() != n {
			violationOrKnown(t, ev, key("mask-state"), "after %s: AggregatePublic/CountEnabled (%d) disagree with the bit-set model (%d enabled)\n%s", step, mask.CountEnabled(), c, ctx)
		}
	}
	for s := rapid.IntRange(0, 6).Draw(t, "masksteps"); s > 0; s-- {
		if rapid.Bool().Draw(t, "setbit") {
			i, en := rapid.IntRange(0, n-1).Draw(t, "mi"), rapid.Bool().Draw(t, "men")
			if err := mask.SetBit(i, en); err != nil {
				violationOrKnown(t, ev, key("mask-state"), "SetBit(%d) failed: %v", i, err)
			}
			model[i] = en
			checkMask(fmt.Sprintf("SetBit(%d,%v)", i, en))
		} else {
			mb := rapid.SliceOfN(rapid.Byte(), (n+7)/8, (n+7)/8).Draw(t, "mb")
			if err := mask.SetMask(mb); err != nil {
				violationOrKnown(t, ev, key("mask-state"), "SetMask failed: %v", err)
			}
			for i := range model {
				model[i] = mb[i/8]&(1<<uint(i%8)) != 0
			}
			checkMask(fmt.Sprintf("SetMask(%x)", mb))
		}
	}
	final := make([]byte, (n+7)/8)
	for i, b := range part {
		if b {
			final[i/8] |= 1 << uint(i%8)
		}
	}
	if err := mask.SetMask(final); err != nil {
		violationOrKnown(t, ev, key("mask-state"), "SetMask failed: %v", err)
	}
	copy(model, part)
	checkMask("final SetMask")
	// the protocol run by the participants
	var vs []kyber.Scalar
	var Vs []kyber.Point
	var masks [][]byte
	for i, b := range part {
		if !b {
			continue
		}
		v, V := cosi.Commit(suite)
		vs, Vs = append(vs, v), append(Vs, V)
		m, err := cosi.NewMask(suite, pubs, pubs[i])
		if err != nil {
			violationOrKnown(t, ev, key("mask"), "NewMask(own key %d) failed: %v", i, err)
			return
		}
		masks = append(masks, m.Mask())
	}
	var sig []byte
	if cnt > 0 {
		// a leader may aggregate the same commitment / response objects more than once (a retry, a
		// sub-tree first): aggregation must not disturb its inputs
		rehearse := rapid.Bool().Draw(t, "rehearse")
		if rehearse {
			k := rapid.IntRange(1, len(Vs)).Draw(t, "rehearse.k")
			_, _, _ = cosi.AggregateCommitments(suite, Vs[:k], masks[:k])
			ctx += fmt.Sprintf(" (first %d commitments aggregated once before)", k)
		}
		aggV, aggMask, err := cosi.AggregateCommitments(suite, Vs, masks)
		if err != nil || !bytes.Equal(aggMask, final) {
			violationOrKnown(t, ev, key("aggregate"), "AggregateCommitments: err=%v mask=%x want %x\n%s", err, aggMask, final, ctx)
			return
		}
		ch, err := cosi.Challenge(suite, aggV, mask.AggregatePublic, msg)
		if err != nil {
			violationOrKnown(t, ev, key("challenge"), "Challenge failed: %v\n%s", err, ctx)
			return
		}
		var rs []kyber.Scalar
		k := 0
		for i, b := range part {
			if !b {
				continue
			}
			r, err := cosi.Response(suite, privs[i], vs[k], ch)
			if err != nil {
				t.Fatalf("harness: response: %v", err)
			}
			rs = append(rs, r)
			k++
		}
		if rehearse {
			_, _ = cosi.AggregateResponses(suite, rs[:rapid.IntRange(1, len(rs)).Draw(t, "rehearse.r")])
		}
		aggR, err := cosi.AggregateResponses(suite, rs)
		if err != nil {
			t.Fatalf("harness: %v", err)
		}
		sig, err = cosi.Sign(suite, aggV, aggR, mask)
		if err != nil {
			violationOrKnown(t, ev, key("sign"), "Sign failed: %v\n%s", err, ctx)
			return
		}
	} else {
		// nobody participates: V = O, r = 0 is the (trivial) honest transcript
		sig, _ = cosi.Sign(suite, nullPoint(gi), gi.G.Scalar().Zero(), mask)
	}
	thr := rapid.IntRange(0, n+1).Draw(t, "threshold")
	var policy cosi.Policy
	polDesc := "complete"
	policyHolds := cnt == n
	if rapid.Bool().Draw(t, "thresholdpolicy") {
		policy, polDesc, policyHolds = cosi.NewThresholdPolicy(thr), fmt.Sprintf("threshold(%d)", thr), cnt >= thr
	} else if rapid.Bool().Draw(t, "nilpolicy") {
		policy, polDesc = nil, "nil(=complete)"
	} else {
		policy = cosi.CompletePolicy{}
	}
	ctx += " policy=" + polDesc
	verr := cosi.Verify(suite, pubs, msg, sig, policy)
	if (verr == nil) != policyHolds {
		violationOrKnown(t, ev, key("verify-policy"), "honest collective signature: Verify=%v but the policy holds=%v\n%s", verr, policyHolds, ctx)
	}
	// mutations (checked under a policy that holds, so that only the signature matters)
	lax := cosi.NewThresholdPolicy(0)
	if err := cosi.Verify(suite, pubs, msg, sig, lax); err != nil {
		violationOrKnown(t, ev, key("verify-honest"), "honest collective signature rejected under threshold(0): %v\n%s", err, ctx)
		return
	}
	pl, sl := gi.G.PointLen(), gi.G.ScalarLen()
	muts := []string{"maskbit", "maskbit", "response+delta", "commitment", "msg", "truncate", "extend", "sigbitflip"}
	if cnt == 0 {
		// nobody signed: the trivial transcript (V=O, r=0, empty mask) binds no message
		muts = []string{"maskbit", "response+delta", "commitment"}
	}
	mut := rapid.SampledFrom(muts).Draw(t, "mut")
	msig, mmsg := append([]byte(nil), sig...), msg
	expectReject := true
	switch mut {
	case "maskbit":
		j := rapid.IntRange(0, n-1).Draw(t, "mj")
		msig[pl+sl+j/8] ^= 1 << uint(j%8)
	case "response+delta":
		d := genScalar(t, gi, "delta")
		if d.V.Sign() == 0 {
			d.V = big.NewInt(1)
		}
		r := new(big.Int).Mod(new(big.Int).Add(bytesToBig(sig[pl:pl+sl], scalarLE(gi.G.Scalar())), d.V), gi.Order)
		copy(msig[pl:pl+sl], bigToBytes(r, sl, scalarLE(gi.G.Scalar())))
	case "commitment":
		copy(msig, mustMarshal(t, gi.G.Point().Add(mustPoint(t, gi, sig[:pl]), basePoint(gi))))
	case "msg":
		mmsg, _ = mutateMsg(t, msg)
	case "truncate":
		msig = msig[:uniformInt(t, 0, len(msig)-1, "tl")]
	case "extend":
		msig = append(msig, rapid.SliceOfN(rapid.Byte(), 1, 4).Draw(t, "ext")...)
	case "sigbitflip":
		msig = flipBits(t, sig, "sf")
		// equivalent if: only padding bits of the mask changed, or the point/scalar decode to the same values
		same := len(msig) == len(sig)
		if same {
			p1, p2 := gi.G.Point(), gi.G.Point()
			same = p1.UnmarshalBinary(sig[:pl]) == nil && p2.UnmarshalBinary(msig[:pl]) == nil && p1.Equal(p2)
			r1 := new(big.Int).Mod(bytesToBig(sig[pl:pl+sl], scalarLE(gi.G.Scalar())), gi.Order)
			r2 := new(big.Int).Mod(bytesToBig(msig[pl:pl+sl], scalarLE(gi.G.Scalar())), gi.Order)
			same = same && r1.Cmp(r2) == 0
			for i := 0; i < n; i++ {
				if (sig[pl+sl+i/8]^msig[pl+sl+i/8])&(1<<uint(i%8)) != 0 {
					same = false
				}
			}
		}
		expectReject = !same
	}
	var merr error
	if pn := safely(func() { merr = cosi.Verify(suite, pubs, mmsg, msig, lax) }); pn != "" {
		violationOrKnown(t, ev, "C04/cosi/"+gname+"/verify-panic", "cosi.Verify panicked on %s: %s\n%s msig=%x", mut, pn, ctx, msig)
		return
	}
	if expectReject && merr == nil {
		violationOrKnown(t, ev, key("forgery-accepted"), "mutation %s accepted\n%s\n sig=%x\nmsig=%x", mut, ctx, sig, msig)
	}
	ev.Case(cnt != n || expectReject, ctx+" mut="+mut, "cosi:"+gname, "cosi-mut:"+mut, "cosi-policy:"+polDesc[:4], fmt.Sprintf("cosi-policy-holds:%v", policyHolds))
}

func mustPoint(t *rapid.T, gi *GroupInfo, b []byte) kyber.Point {
	p := gi.G.Point()
	if err := p.UnmarshalBinary(b); err != nil {
		t.Fatalf("harness: cannot decode point %x: %v", b, err)
	}
	return p
}

var _ = edwards25519.NewBlakeSHA256Ed25519

const c09Rule = "four generated families over the 8 (suite, signature group) combinations {BN256,BN254}xG1, {Kilic,CIRCL,gnark}x{G1,G2}. (BLS) key from edge scalars, message 0..300 bytes: honest verifies and equals x*H(m); message / key (other, +B, identity) / signature (bit flips, other point, negation, +B, identity, truncate, extend) mutations are rejected unless they denote the same point. " +
	"(TBLS) 2<=t<=n<=8: honest partials verify and carry their index; the list given to Recover is a random subset in random order interleaved with invalid partials {garbage, short, other message, foreign value under a valid index, out-of-range index, bit flip} and duplicates; with >= t distinct valid partials Recover must return exactly bls.Sign(secret, msg), verifying under the group key; otherwise an error; VerifyPartial rejects every invalid kind. " +
	"(BDN) 1..10 keys, arbitrary participation mask built by one of {NewMask+SetBit, SetMask, Merge twice, Clone+SetMask, NewMask(own key)+SetBit}: aggregate signature and key equal the reference sums (c_i+1)*sigma_i / (c_i+1)*X_i with c from the blake2s-XOF specification, verify together, fail under any mask with one bit flipped and for another message; wrong signature counts are errors. " +
	"(CoSi) Ed25519/P-256/Edwards-vartime, 1..10 signers with random participation; a mask state machine (SetBit/SetMask) is compared with a bit-set model of AggregatePublic; the collective signature verifies iff the Complete/Threshold policy holds; mask bit, response+delta, commitment+B, message, truncation, extension, bit flips are rejected unless equivalent (mask padding bits, same decoded values). " +
	"non-trivial = a negative mutation, a non-prefix or polluted partial list, a non-full mask or non-default construction route; distinct = distinct rendered case" +
	" Added after the sensitivity rounds: every aggregation / recovery is repeated on the same objects and must agree (CoSi prefix rehearsal, tbls Recover twice, BDN aggregate twice)."

func TestC09_BLS(t *testing.T) {
	ev := evFor("C09")
	ev.Rule(c09Rule)
	rcheck(t, 500, 48000, func(t *rapid.T) { c09BLS(t, ev) })
}

func TestC09_TBLS(t *testing.T) {
	ev := evFor("C09")
	rcheck(t, 240, 24000, func(t *rapid.T) { c09TBLS(t, ev) })
}

func TestC09_BDN(t *testing.T) {
	ev := evFor("C09")
	rcheck(t, 320, 30000, func(t *rapid.T) { c09BDN(t, ev) })
}

func TestC09_CoSi(t *testing.T) {
	ev := evFor("C09")
	rcheck(t, 1000, 90000, func(t *rapid.T) { c09CoSi(t, ev) })
}

// ------------------------------------------------------------------ BDN mask families (model-based)

// c09MaskFamily: a family of masks over one key set - the first one and clones of clones - is driven by
// a generated sequence of SetBit / SetMask / Merge / Clone / AggregatePublicKeys calls against a model
// (one bit vector per mask).  After every step every mask reports the model's bytes and counts, and
// the aggregate key of a mask is sum (c_i+1)*X_i over ITS enabled bits, whatever happened to its
// relatives before ("Modifications to the new Mask will not affect the original").
func c09MaskFamily(t *rapid.T, ev *evProp) {
	c := genCombo(t)
	sch := c.bdn()
	n := rapid.IntRange(1, 12).Draw(t, "n")
	ks := xofStream(genSeed(t, "keys"))
	pubs := make([]kyber.Point, n)
	for i := range pubs {
		_, pubs[i] = sch.NewKeyPair(ks)
	}
	key := func(w string) string { return "C09/bdn/" + c.name + "/" + w }
	coefs := bdnCoefs(t, c.key.G, pubs)
	terms := make([]kyber.Point, n)
	for i := range terms {
		terms[i] = c.key.G.Point().Mul(scalarFromBig(c.key.G, new(big.Int).Mod(new(big.Int).Add(coefs[i], big1), c.key.Order)), pubs[i])
	}
	first, err := bdn.NewMask(c.key.G, pubs, nil)
	if err != nil {
		violationOrKnown(t, ev, key("mask-family"), "NewMask failed: %v", err)
		return
	}
	masks := []*bdn.Mask{first}
	model := [][]bool{make([]bool, n)}
	var hist []string
	ctx := func() string {
		return fmt.Sprintf("bdn mask family %s n=%d history: %s", c.name, n, strings.Join(hist, "; "))
	}
	toBytes := func(bits []bool) []byte {
		b := make([]byte, (n+7)/8)
		for i, v := range bits {
			if v {
				b[i/8] |= 1 << uint(i%8)
			}
		}
		return b
	}
	genBits := func(label string) []bool {
		bits := make([]bool, n)
		for i := range bits {
			bits[i] = rapid.Bool().Draw(t, fmt.Sprintf("%s.%d", label, i))
		}
		return bits
	}
	pick := func(label string) int { return rapid.IntRange(0, len(masks)-1).Draw(t, label) }
	checkAgg := func(i int) bool {
		var got kyber.Point
		var err error
		if pn := safely(func() { got, err = sch.AggregatePublicKeys(masks[i]) }); pn != "" || err != nil {
			violationOrKnown(t, ev, key("mask-family"), "AggregatePublicKeys(mask #%d) fails: %v %s\n%s", i, err, pn, ctx())
			return false
		}
		want := nullPoint(c.key)
		for k, v := range model[i] {
			if v {
				want = c.key.G.Point().Add(want, terms[k])
			}
		}
		if !got.Equal(want) {
			violationOrKnown(t, ev, key("mask-family"), "aggregate key of mask #%d (bits %v) is not sum (c_i+1)*X_i over its enabled bits\n%s", i, model[i], ctx())
			return false
		}
		// the result belongs to the caller
		got.Add(got, basePoint(c.key))
		return true
	}
	aggregated, clonedAfterAgg := false, false
	steps := rapid.IntRange(3, 14).Draw(t, "steps")
	for s := 0; s < steps; s++ {
		switch rapid.SampledFrom([]string{"aggregate", "aggregate", "clone", "clone", "setbit", "setbit", "setbit", "setmask", "merge"}).Draw(t, fmt.Sprintf("op%d", s)) {
		case "aggregate":
			i := pick("agg")
			hist = append(hist, fmt.Sprintf("aggregate #%d", i))
			if !checkAgg(i) {
				return
			}
			aggregated = true
		case "clone":
			if len(masks) >= 5 {
				continue
			}
			i := pick("cl")
			masks = append(masks, masks[i].Clone())
			model = append(model, append([]bool(nil), model[i]...))
			hist = append(hist, fmt.Sprintf("#%d = clone #%d", len(masks)-1, i))
			clonedAfterAgg = clonedAfterAgg || aggregated
		case "setbit":
			i, k, v := pick("sb"), rapid.IntRange(0, n-1).Draw(t, "sbk"), rapid.Bool().Draw(t, "sbv")
			hist = append(hist, fmt.Sprintf("#%d.SetBit(%d,%v)", i, k, v))
			if err := masks[i].SetBit(k, v); err != nil {
				violationOrKnown(t, ev, key("mask-family"), "SetBit fails: %v\n%s", err, ctx())
				return
			}
			model[i][k] = v
		case "setmask":
			i, bits := pick("sm"), genBits(fmt.Sprintf("smb%d", s))
			hist = append(hist, fmt.Sprintf("#%d.SetMask(%v)", i, bits))
			if err := masks[i].SetMask(toBytes(bits)); err != nil {
				violationOrKnown(t, ev, key("mask-family"), "SetMask fails: %v\n%s", err, ctx())
				return
			}
			model[i] = bits
		case "merge":
			i, bits := pick("mg"), genBits(fmt.Sprintf("mgb%d", s))
			hist = append(hist, fmt.Sprintf("#%d.Merge(%v)", i, bits))
			if err := masks[i].Merge(toBytes(bits)); err != nil {
				violationOrKnown(t, ev, key("mask-family"), "Merge fails: %v\n%s", err, ctx())
				return
			}
			for k, v := range bits {
				model[i][k] = model[i][k] || v
			}
		}
		for i, m := range masks {
			cnt := 0
			for _, v := range model[i] {
				if v {
					cnt++
				}
			}
			// the accessors agree with the model: GetBit, the n-th enabled index and its inverse, the
			// list of participants (in index order), the full key list, and the generic policies
			var wantIdx []int
			for k, v := range model[i] {
				if v {
					wantIdx = append(wantIdx, k)
				}
			}
			acc := ""
			pn := safely(func() {
				parts := m.Participants()
				if len(parts) != cnt {
					acc = fmt.Sprintf("Participants() has %d keys", len(parts))
				}
				for j, k := range wantIdx {
					if acc == "" && !parts[j].Equal(pubs[k]) {
						acc = fmt.Sprintf("Participants()[%d] is not key %d", j, k)
					}
					if got := m.IndexOfNthEnabled(j); acc == "" && got != k {
						acc = fmt.Sprintf("IndexOfNthEnabled(%d) = %d, want %d", j, got, k)
					}
					if got := m.NthEnabledAtIndex(k); acc == "" && got != j {
						acc = fmt.Sprintf("NthEnabledAtIndex(%d) = %d, want %d", k, got, j)
					}
				}
				if got := m.IndexOfNthEnabled(cnt); acc == "" && got != -1 {
					acc = fmt.Sprintf("IndexOfNthEnabled(%d) = %d beyond the %d enabled bits", cnt, got, cnt)
				}
				for k, v := range model[i] {
					if b, err := m.GetBit(k); acc == "" && (err != nil || b != v) {
						acc = fmt.Sprintf("GetBit(%d) = %v, %v", k, b, err)
					}
					if got := m.NthEnabledAtIndex(k); acc == "" && !v && got != -1 {
						acc = fmt.Sprintf("NthEnabledAtIndex(%d) = %d for a disabled bit", k, got)
					}
				}
				if ps := m.Publics(); len(ps) != n || m.CountTotal() != n {
					acc = fmt.Sprintf("Publics() has %d keys, CountTotal() = %d", len(ps), m.CountTotal())
				} else {
					ps[0] = nil // a copy: the caller may do what it likes with it
				}
				th := rapid.IntRange(0, n+1).Draw(t, "policyT")
				if got := sign.NewThresholdPolicy(th).Check(m); acc == "" && got != (cnt >= th) {
					acc = fmt.Sprintf("ThresholdPolicy(%d).Check = %v with %d enabled", th, got, cnt)
				}
				if got := (sign.CompletePolicy{}).Check(m); acc == "" && got != (cnt == n) {
					acc = fmt.Sprintf("CompletePolicy.Check = %v with %d of %d enabled", got, cnt, n)
				}
			})
			if pn != "" || acc != "" {
				violationOrKnown(t, ev, key("mask-family"), "mask #%d (bits %v): %s %s\n%s", i, model[i], acc, pn, ctx())
				return
			}
			if !bytes.Equal(m.Mask(), toBytes(model[i])) || m.CountEnabled() != cnt {
				violationOrKnown(t, ev, key("mask-family"), "mask #%d reports bytes %x / %d enabled, the model says %x / %d\n%s", i, m.Mask(), m.CountEnabled(), toBytes(model[i]), cnt, ctx())
				return
			}
		}
	}
	for i := range masks {
		hist = append(hist, fmt.Sprintf("final aggregate #%d", i))
		if !checkAgg(i) {
			return
		}
	}
	ev.Case(len(masks) > 1 && clonedAfterAgg, ctx(), "bdn-family:"+c.name, fmt.Sprintf("bdn-family-masks:%d", len(masks)))
}

func TestC09_BDNMaskFamily(t *testing.T) {
	ev := evFor("C09")
	rcheck(t, 160, 24000, func(t *rapid.T) { c09MaskFamily(t, ev) })
}
