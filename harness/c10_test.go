//go:build !constantTime

package harness

// C10 — VSS (Pedersen and Rabin): generated histories of (possibly faulty) deals, responses,
// justifications and timeouts; after every step the invariants are evaluated on every party's
// view against a harness model of "who validly approved what".

import (
	"bytes"
	"fmt"
	"strings"
	"testing"

	"go.dedis.ch/kyber/v4"
	"go.dedis.ch/kyber/v4/group/edwards25519"
	"go.dedis.ch/kyber/v4/share"
	"go.dedis.ch/kyber/v4/sign/schnorr"
	"pgregory.net/rapid"
)

type vssView struct {
	ready   bool
	sid     []byte
	t       uint32
	commits []kyber.Point
	resp    map[uint32]bool // accepted valid responses: approved?
	bad     bool            // an incorrect justification was processed
	timeout bool
}

type vssRun struct {
	t       *rapid.T
	ev      *evProp
	impl    vssImpl
	suite   vssSuite
	g       kyber.Group
	n       int
	th      uint32
	secret  kyber.Scalar
	dlong   kyber.Scalar
	dpub    kyber.Point
	vlong   []kyber.Scalar
	vpub    []kyber.Point
	dealer  vssDealer
	vers    []vssVerifier
	honest  []gDeal
	sent    []*gDeal   // plaintext that was encrypted for verifier i (nil: nothing processed yet)
	views   []*vssView // index n = dealer
	genuine []*gResp
	justs   []gJust
	hist    []string
	H       kyber.Point // rabin second base
	faults  []string
	stats   map[string]bool
	// sidExact: refSID reproduces the genuine session id
	sidExact bool
	// unsolicited: number of justifications the dealer signed without a complaint reaching its object
	unsolicited int
	stray       int
}

func (r *vssRun) key(w string) string { return "C10/" + r.impl.name + "/" + w }

func (r *vssRun) fail(w, format string, args ...any) {
	violationOrKnown(r.t, r.ev, r.key(w), format+"\nhistory (n=%d t=%d):\n  %s", append(args, r.n, r.th, strings.Join(r.hist, "\n  "))...)
}

func (r *vssRun) log(format string, args ...any) {
	r.hist = append(r.hist, fmt.Sprintf(format, args...))
}

// onPoly: the deal's share(s) open the commitment polynomial at the deal's index.
func (r *vssRun) onPoly(commits []kyber.Point, d gDeal) bool {
	if len(commits) == 0 || d.V == nil {
		return false
	}
	pp := share.NewPubPoly(r.g, r.g.Point().Base(), commits)
	want := pp.Eval(d.I).V
	got := r.g.Point().Mul(d.V, nil)
	if r.impl.rabin {
		if d.RV == nil || d.RI != d.I {
			return false
		}
		got = r.g.Point().Add(got, r.g.Point().Mul(d.RV, r.H))
	}
	return got.Equal(want)
}

// sidConsistent: the session id a deal announces is the one of its own commitments and threshold.
// The harness cannot compute the (unexported) session id function, but every deal it builds announces
// the id of the dealer's genuine deals, which is consistent exactly with the genuine content.
func (r *vssRun) sidConsistent(d gDeal) bool {
	if r.sidExact {
		return bytes.Equal(d.SID, r.refSID(d.Commits, d.T))
	}
	if !bytes.Equal(d.SID, r.honest[0].SID) {
		return true // not an id the harness can judge
	}
	return samePoints(d.Commits, r.honest[0].Commits) && d.T == r.honest[0].T
}

// refSID: the session id as both packages document it - the suite's hash over the dealer's key, the
// verifiers' keys, the commitments and the little-endian threshold.  It is used only when it
// reproduces the id of the dealer's genuine deals (sidExact), so a library that derives its ids in
// another way falls back to the comparison with the genuine content above.
func (r *vssRun) refSID(commits []kyber.Point, t uint32) []byte {
	h := r.suite.Hash()
	_, _ = r.dpub.MarshalTo(h)
	for _, v := range r.vpub {
		_, _ = v.MarshalTo(h)
	}
	for _, c := range commits {
		_, _ = c.MarshalTo(h)
	}
	_, _ = h.Write([]byte{byte(t), byte(t >> 8), byte(t >> 16), byte(t >> 24)})
	return h.Sum(nil)
}

func samePoints(a, b []kyber.Point) bool {
	if len(a) != len(b) {
		return false
	}
	for i := range a {
		if !a[i].Equal(b[i]) {
			return false
		}
	}
	return true
}

func (r *vssRun) validT(t uint32) bool { return t >= 2 && int(t) <= r.n }

func (r *vssRun) signResp(signer int, rs *gResp) {
	rs.Sig, _ = schnorr.Sign(r.suite, r.vlong[signer], r.impl.respHash(r.suite, *rs))
}

func (r *vssRun) party(p int) string {
	if p == r.n {
		return "dealer"
	}
	return fmt.Sprintf("V%d", p)
}

func (r *vssRun) certified(p int) bool {
	if p == r.n {
		return r.dealer.Certified()
	}
	return r.vers[p].Certified()
}

func (r *vssRun) checkInvariants(step string) {
	for p := 0; p <= r.n; p++ {
		v := r.views[p]
		if !v.ready {
			continue
		}
		// I7: the deal a verifier hands out is the one it approved, whatever it was sent afterwards
		// (second deals, justifications it had no reason to get): the shares that reconstruct the
		// secret are read from Deal()
		if p < r.n && r.sent[p] != nil && r.genuine[p] != nil && r.genuine[p].Approved {
			var d *gDeal
			if pn := safely(func() { d = r.vers[p].CertifiedDeal() }); pn != "" {
				r.fail("deal-panic", "Deal() panicked at %s after %s: %s", r.party(p), step, pn)
			} else if d != nil {
				s0 := r.sent[p]
				if d.I != s0.I || !d.V.Equal(s0.V) || !samePoints(d.Commits, s0.Commits) || (s0.RV != nil && (d.RV == nil || !d.RV.Equal(s0.RV))) {
					r.fail("approved-deal-replaced", "after %s: %s.Deal() no longer returns the deal this verifier approved (index %d->%d, share equal=%v, commitments equal=%v)", step, r.party(p), s0.I, d.I, d.V.Equal(s0.V), samePoints(d.Commits, s0.Commits))
				}
				r.stats["held-deal-compared"] = true
			}
		}
		var cert bool
		if pn := safely(func() { cert = r.certified(p) }); pn != "" {
			r.fail("certified-panic", "DealCertified panicked at %s after %s: %s", r.party(p), step, pn)
			continue
		}
		approvals, complaints := 0, 0
		for _, ok := range v.resp {
			if ok {
				approvals++
			} else {
				complaints++
			}
		}
		absent := r.n - len(v.resp)
		// I2 / I3
		if cert && (uint32(approvals) < v.t || v.bad) {
			r.fail("certified-unsound", "after %s: %s reports the deal certified with %d valid approvals/justified complaints (t=%d), invalid justification seen=%v", step, r.party(p), approvals, v.t, v.bad)
		}
		// I6 documented completeness
		var must bool
		if r.impl.rabin {
			must = !v.bad && uint32(approvals) >= v.t && absent == 0
		} else {
			must = !v.bad && uint32(approvals) >= v.t && complaints == 0 && (absent == 0 || (v.timeout && absent <= r.n-int(v.t)))
		}
		if must && !cert && r.validT(v.t) {
			r.fail("certified-incomplete", "after %s: %s does not certify although %d approvals >= t=%d, complaints=%d, absent=%d, timeout=%v, no invalid justification", step, r.party(p), approvals, v.t, complaints, absent, v.timeout)
		}
		if cert {
			r.stats["certified"] = true
			// I5: any t approved deals reconstruct the committed secret
			var approved []gDeal
			for i := 0; i < r.n; i++ {
				// approvers in THIS party's view: it has accepted i's approval (a verifier that approved a
				// deal under other commitments answers with another session id and is not among them)
				if v.resp[uint32(i)] && r.views[i].ready && r.views[i].resp[uint32(i)] && r.sent[i] != nil && r.genuine[i] != nil && r.genuine[i].Approved &&
					bytes.Equal(r.sent[i].SID, v.sid) {
					approved = append(approved, *r.sent[i])
				}
			}
			// (only when this party was told the true threshold: a dealer lying about T to one
			// verifier makes that verifier interpolate with too few shares; not covered by the statement)
			if v.t == r.th && len(approved) >= int(v.t) {
				perm := rapid.Permutation(seqInts(len(approved))).Draw(r.t, "i5subset")
				var sub []gDeal
				for _, k := range perm[:v.t] {
					sub = append(sub, approved[k])
				}
				s, err := r.impl.recover(r.suite, sub, uint32(r.n), v.t)
				if err != nil {
					r.fail("certified-unrecoverable", "after %s: %s certified but RecoverSecret on %d approved deals fails: %v", step, r.party(p), v.t, err)
				} else {
					ok := s.Equal(r.secret)
					if !r.impl.rabin {
						ok = r.g.Point().Mul(s, nil).Equal(v.commits[0])
					}
					if !ok {
						r.fail("certified-unrecoverable", "after %s: %s certified but %d approved deals reconstruct a secret that does not match the commitment", step, r.party(p), v.t)
					}
				}
			}
			if p == r.n {
				if sc := r.dealer.SecretCommit(); sc == nil || !sc.Equal(r.g.Point().Mul(r.secret, nil)) {
					r.fail("secretcommit", "after %s: certified dealer's SecretCommit is not secret*B", step)
				}
			}
		}
	}
}

var vssDealFaults = []string{"honest", "honest", "honest", "share+delta", "commitments-altered", "foreign-consistent", "wrong-index", "t-out-of-range", "t-differs", "wrong-recipient", "cipher-bitflip", "forged-signature", "signed-by-other", "never"}

func (r *vssRun) deliverDeal(i int, replay bool) {
	fault := r.faults[i]
	d := r.honest[i].clone()
	transport := ""
	switch fault {
	case "share+delta":
		d.V = r.g.Scalar().Add(d.V, r.g.Scalar().One())
	case "commitments-altered":
		k := rapid.IntRange(0, len(d.Commits)-1).Draw(r.t, "ck")
		d.Commits[k] = r.g.Point().Add(d.Commits[k], r.g.Point().Base())
	case "foreign-consistent":
		// a deal that is perfectly consistent in itself (share on its own polynomial, right index and
		// threshold) but for OTHER commitments than everybody else gets, carrying this run's session id
		d = r.justDeal(i, "foreign-commitments")
	case "wrong-index":
		d.I = uint32((i + 1) % r.n)
		d.RI = d.I
	case "t-out-of-range":
		d.T = rapid.SampledFrom([]uint32{0, 1, uint32(r.n + 1), 1 << 20}).Draw(r.t, "badt")
		if r.sidExact && rapid.Bool().Draw(r.t, "badt-own-sid") {
			// ... announced under the session id that these commitments have WITH the lying threshold,
			// so that nothing but the range test itself stands in the way
			d.SID = r.refSID(d.Commits, d.T)
		}
	case "t-differs":
		if int(r.th) < r.n {
			d.T = r.th + 1
		} else {
			d.T = r.th - 1
			if d.T < 2 {
				fault = "honest"
				d.T = r.th
			}
		}
	case "wrong-recipient", "cipher-bitflip", "forged-signature", "signed-by-other":
		transport = fault
	}
	if replay && r.views[i].ready && rapid.Bool().Draw(r.t, "replayother") {
		// the second, authentic message is NOT the first one again: another session id of the same
		// length (a deal of an earlier session of the same dealer and verifiers), optionally a longer
		// commitment vector.  It must be refused and must leave no trace in the verifier.
		for k := range d.SID {
			d.SID[k] ^= 0x5c
		}
		if rapid.Bool().Draw(r.t, "replaylonger") {
			d.Commits = append(d.Commits, r.g.Point().Base())
		}
		fault += "+other-session"
		r.stats["second-different-deal"] = true
	}
	src := i
	if transport == "wrong-recipient" {
		src = (i + 1) % r.n
		d = r.honest[src].clone()
	}
	r.dealer.SetDeal(src, d)
	enc, err := r.dealer.Encrypt(src)
	r.dealer.SetDeal(src, r.honest[src].clone())
	if err != nil {
		r.t.Fatalf("harness: EncryptedDeal failed: %v", err)
	}
	switch transport {
	case "cipher-bitflip":
		enc.Cipher = flipBits(r.t, enc.Cipher, "cf")
	case "forged-signature":
		enc.Sig = flipBits(r.t, enc.Sig, "sf")
	case "signed-by-other":
		enc.Sig, _ = schnorr.Sign(r.suite, r.vlong[(i+1)%r.n], enc.DHKey)
	}
	step := fmt.Sprintf("deal->V%d[%s%s]", i, fault, map[bool]string{true: ",replay", false: ""}[replay])
	var resp *gResp
	var perr error
	if pn := safely(func() { resp, perr = r.vers[i].ProcessDeal(enc) }); pn != "" {
		r.log("%s: PANIC %s", step, pn)
		r.fail("deal-panic", "ProcessEncryptedDeal panicked: %s", pn)
		return
	}
	v := r.views[i]
	wasReady := v.ready
	dealValid := r.validT(d.T) && d.I == uint32(i) && r.onPoly(d.Commits, d) && r.sidConsistent(d)
	mustError := wasReady || transport != "" || d.I != uint32(i)
	switch {
	case perr != nil:
		r.log("%s: error %v", step, perr)
		if !mustError {
			if dealValid {
				r.fail("honest-deal-refused", "%s: a valid deal was refused: %v", step, perr)
			}
			// an invalid deal may be answered by an error instead of a complaint
		}
	default:
		r.log("%s: response approved=%v", step, resp.Approved)
		if mustError {
			why := "it does not authenticate for this verifier"
			if wasReady {
				why = "a deal had been processed before"
			} else if transport == "" {
				why = "its index belongs to another verifier"
			}
			r.fail("bad-deal-answered", "%s: the verifier answered (approved=%v) although %s", step, resp.Approved, why)
			return
		}
		if resp.Approved && !dealValid {
			r.fail("bad-deal-approved", "%s: the verifier APPROVED a deal whose share is off the committed polynomial or whose index/threshold is out of range (T=%d)", step, d.T)
		}
		if !resp.Approved && dealValid {
			r.fail("honest-deal-complaint", "%s: the verifier complained about a valid deal", step)
		}
		if resp.Index != uint32(i) {
			r.fail("response-index", "%s: response carries index %d", step, resp.Index)
		}
		// a response speaks about the commitments the verifier RECEIVED: if those differ from the ones
		// the dealer gave everybody else, it must not carry the session id of the others' run
		if !samePoints(d.Commits, r.honest[i].Commits) && bytes.Equal(resp.SID, r.honest[i].SID) {
			r.fail("response-binds-wrong-session", "%s: the response to a deal with other commitments carries the session id of the main run (approved=%v)", step, resp.Approved)
		}
		v.ready, v.sid, v.t, v.commits = true, d.SID, d.T, d.Commits
		v.resp[uint32(i)] = resp.Approved
		cp := d
		r.sent[i] = &cp
		r.genuine[i] = resp
		if fault != "honest" {
			r.stats["faulty-deal-processed"] = true
		}
		if !resp.Approved {
			r.stats["complaint"] = true
		}
	}
	r.checkInvariants(step)
}

func (r *vssRun) deliverResponse(progress bool) {
	from := rapid.IntRange(0, r.n-1).Draw(r.t, "from")
	to := rapid.IntRange(0, r.n).Draw(r.t, "to")
	kinds := []string{"forged-sig", "wrong-sid", "foreign-index", "oob-index", "flipped-status", "byz-complaint", "byz-approval"}
	if r.genuine[from] != nil {
		kinds = append(kinds, "genuine", "genuine", "genuine", "genuine", "genuine", "genuine")
	}
	kind := rapid.SampledFrom(kinds).Draw(r.t, "rkind")
	if progress {
		// a genuine response that its target has not seen yet
		var cands [][2]int
		for f := 0; f < r.n; f++ {
			for q := 0; q <= r.n; q++ {
				if r.genuine[f] != nil && q != f && r.views[q].ready {
					if _, seen := r.views[q].resp[uint32(f)]; !seen {
						cands = append(cands, [2]int{f, q})
					}
				}
			}
		}
		if len(cands) > 0 {
			c := cands[rapid.IntRange(0, len(cands)-1).Draw(r.t, "cand")]
			from, to, kind = c[0], c[1], "genuine"
		}
	}
	sid := r.honest[0].SID
	if r.genuine[from] != nil {
		sid = r.genuine[from].SID
	}
	rs := gResp{SID: append([]byte(nil), sid...), Index: uint32(from), Approved: true}
	authentic := false
	switch kind {
	case "genuine":
		rs = *r.genuine[from]
		authentic = true
	case "forged-sig":
		r.signResp(from, &rs)
		rs.Sig = flipBits(r.t, rs.Sig, "rsf")
	case "wrong-sid":
		rs.SID = flipBits(r.t, rs.SID, "sidf")
		r.signResp(from, &rs)
	case "foreign-index":
		rs.Index = uint32((from + 1) % r.n)
		r.signResp(from, &rs)
	case "oob-index":
		rs.Index = uint32(r.n + rapid.IntRange(0, 3).Draw(r.t, "oob"))
		r.signResp(from, &rs)
	case "flipped-status":
		if r.genuine[from] != nil {
			rs = *r.genuine[from]
			rs.Approved = !rs.Approved
		} else {
			r.signResp(from, &rs)
			rs.Approved = false
		}
	case "byz-complaint":
		rs.Approved = false
		r.signResp(from, &rs)
		authentic = true
	case "byz-approval":
		r.signResp(from, &rs)
		authentic = true
	}
	v := r.views[to]
	_, dup := v.resp[rs.Index]
	valid := authentic && v.ready && bytes.Equal(rs.SID, v.sid) && int(rs.Index) < r.n && !dup
	step := fmt.Sprintf("response[%s] V%d->%s (idx %d, approved=%v)", kind, from, r.party(to), rs.Index, rs.Approved)
	if to < r.n && !v.ready && r.impl.rabin {
		step += " (before its deal)"
	}
	var err error
	var just *gJust
	plan := ""
	pn := safely(func() {
		if to == r.n {
			// the dealer answers a valid complaint with a justification: decide what it will reveal
			if valid && !rs.Approved {
				plan = rapid.SampledFrom([]string{"good", "good", "bad-share", "foreign-commitments", "extended-commitments", "other-index", "bad-t"}).Draw(r.t, "jplan")
				r.dealer.SetDeal(int(rs.Index), r.justDeal(int(rs.Index), plan))
			}
			just, err = r.dealer.ProcessResponse(rs)
			if plan != "" {
				r.dealer.SetDeal(int(rs.Index), r.honest[rs.Index].clone())
			}
		} else {
			err = r.vers[to].ProcessResponse(rs)
		}
	})
	if pn != "" {
		r.log("%s: PANIC %s", step, pn)
		k := "response-panic"
		if to < r.n && !v.ready {
			k = "response-before-deal-panic"
		}
		r.fail(k, "%s: ProcessResponse panicked: %s", step, pn)
		return
	}
	r.log("%s: err=%v%s", step, err, map[bool]string{true: " justification(" + plan + ")", false: ""}[just != nil])
	if valid && err != nil {
		r.fail("valid-response-refused", "%s: a valid response was refused: %v", step, err)
	}
	if !valid && err == nil {
		why := "it is not authentic (" + kind + ")"
		switch {
		case authentic && !v.ready:
			why = "the receiver has no deal yet"
		case authentic && dup:
			why = "a response of that verifier had been accepted before"
		case authentic:
			why = "it belongs to another session"
		}
		r.fail("invalid-response-accepted", "%s: accepted although %s", step, why)
		// keep the model in step with the library to continue
	}
	if err == nil && int(rs.Index) < r.n {
		if !dup {
			v.resp[rs.Index] = rs.Approved
		}
		if kind != "genuine" {
			r.stats["byzantine-response-accepted"] = true
		}
		if !rs.Approved {
			r.stats["complaint"] = true
		}
	}
	if just != nil {
		just.Deal = just.Deal.clone()
		r.justs = append(r.justs, *just)
		r.stats["justification"] = true
		// A Byzantine dealer may broadcast a second, different justification for the same complaint
		// (an invalid one followed by the valid one, or the other way round): sign it by hand.
		if second := rapid.SampledFrom([]string{"", "", "good", "good", "bad-share", "foreign-commitments", "extended-commitments", "as-dealt-outer-sid", "as-dealt-outer-sid"}).Draw(r.t, "jsecond"); second != "" && second != plan && (second != "as-dealt-outer-sid" || r.sent[just.Index] != nil) {
			j2 := gJust{SID: append([]byte(nil), just.SID...), Index: just.Index}
			if second == "as-dealt-outer-sid" {
				// the dealer reveals exactly the (possibly inconsistent) deal it had sent, and labels the
				// JUSTIFICATION with the session id that the revealed commitments and threshold really
				// have: the id announced inside the deal is still not the one of its content
				j2.Deal = r.sent[just.Index].clone()
				j2.SID = r.refSID(j2.Deal.Commits, j2.Deal.T)
				r.stats["as-dealt-justification"] = true
				if !r.sidConsistent(j2.Deal) {
					r.stats["as-dealt-justification-of-inconsistent-deal"] = true
				}
			} else {
				j2.Deal = r.justDeal(int(just.Index), second)
			}
			j2.Sig, _ = schnorr.Sign(r.suite, r.dlong, r.impl.justHash(r.suite, j2))
			if rapid.Bool().Draw(r.t, "jsecondfirst") {
				r.justs = append(r.justs[:len(r.justs)-1], j2, r.justs[len(r.justs)-1])
			} else {
				r.justs = append(r.justs, j2)
			}
			r.log("  dealer also signs a second justification(%s) for idx %d", second, just.Index)
			r.stats["second-justification"] = true
		}
	} else if to == r.n && valid && !rs.Approved && err == nil {
		r.fail("no-justification", "%s: the dealer accepted a complaint but produced no justification", step)
	}
	r.checkInvariants(step)
}

// justDeal: what the (possibly Byzantine) dealer reveals for the complaint of verifier idx.
func (r *vssRun) justDeal(idx int, plan string) gDeal {
	d := r.honest[idx].clone()
	switch plan {
	case "bad-share":
		d.V = r.g.Scalar().Add(d.V, r.g.Scalar().One())
	case "extended-commitments":
		// the bogus share again, made to verify by APPENDING one coefficient to the genuine commitments:
		// E = (share*G [+ r*H] - F(x)) / x^t, so that the longer polynomial opens at x = idx+1
		d.V = r.g.Scalar().Add(d.V, r.g.Scalar().One())
		target := r.g.Point().Mul(d.V, nil)
		if r.impl.rabin && d.RV != nil {
			target = r.g.Point().Add(target, r.g.Point().Mul(d.RV, r.H))
		}
		cur := share.NewPubPoly(r.g, r.g.Point().Base(), d.Commits).Eval(uint32(idx)).V
		x := r.g.Scalar().SetInt64(int64(idx + 1))
		xt := r.g.Scalar().One()
		for range d.Commits {
			xt = r.g.Scalar().Mul(xt, x)
		}
		E := r.g.Point().Mul(r.g.Scalar().Inv(xt), r.g.Point().Sub(target, cur))
		d.Commits = append(d.Commits, E)
	case "other-index":
		d = r.honest[(idx+1)%r.n].clone()
	case "bad-t":
		d.T = uint32(r.n + 1)
	case "foreign-commitments":
		// a fresh polynomial with a consistent share for idx, presented under the same session id
		st := xofStream([]byte(fmt.Sprintf("foreign-%d", idx)))
		f := share.NewPriPoly(r.g, r.th, nil, st)
		pub := f.Commit(nil)
		if r.impl.rabin {
			gp := share.NewPriPoly(r.g, r.th, nil, st)
			c, _ := pub.Add(gp.Commit(r.H))
			pub = c
			d.RV = gp.Eval(uint32(idx)).V
		}
		_, d.Commits = pub.Info()
		d.V = f.Eval(uint32(idx)).V
	}
	return d
}

func (r *vssRun) deliverJustification() {
	// A Byzantine dealer does not need anybody's permission to sign a justification: for a verifier
	// whose own complaint is pending (possibly under a session id the dealer's library object would
	// refuse) it reveals the deal exactly as it was sent, labelled with the announced id or with the
	// id its content really has.
	var cands []int
	for i := 0; i < r.n; i++ {
		if st, has := r.views[i].resp[uint32(i)]; r.views[i].ready && r.sent[i] != nil && has && !st {
			cands = append(cands, i)
		}
	}
	if len(cands) > 0 && r.unsolicited < 3 && (len(r.justs) == 0 || rapid.IntRange(0, 3).Draw(r.t, "unsolicited") == 0) {
		r.unsolicited++
		i := cands[rapid.IntRange(0, len(cands)-1).Draw(r.t, "unsolicitedfor")]
		j := gJust{Index: uint32(i), Deal: r.sent[i].clone()}
		label := rapid.SampledFrom([]string{"announced-id", "id-of-content", "id-of-content"}).Draw(r.t, "unsolicitedsid")
		if j.SID = append([]byte(nil), j.Deal.SID...); label == "id-of-content" {
			j.SID = r.refSID(j.Deal.Commits, j.Deal.T)
		}
		j.Sig, _ = schnorr.Sign(r.suite, r.dlong, r.impl.justHash(r.suite, j))
		r.justs = append(r.justs, j)
		r.log("  dealer signs an unsolicited justification for idx %d revealing the deal as sent (%s)", i, label)
		r.stats["unsolicited-justification"] = true
		if !r.sidConsistent(j.Deal) {
			r.stats["justification-reveals-inconsistent-deal"] = true
		}
	}
	// Nobody authenticates justifications: anybody can send a verifier that APPROVED its deal a
	// "justification" for its own index carrying some other deal.  It has nothing to justify, must be
	// refused, and must leave the verifier as it was (I7 and the later invariants check that).
	var appr []int
	for i := 0; i < r.n; i++ {
		if st, has := r.views[i].resp[uint32(i)]; r.views[i].ready && r.sent[i] != nil && has && st && r.genuine[i] != nil && r.genuine[i].Approved {
			appr = append(appr, i)
		}
	}
	if len(appr) > 0 && r.stray < 2 && rapid.IntRange(0, 4).Draw(r.t, "stray") == 0 {
		r.stray++
		i := appr[rapid.IntRange(0, len(appr)-1).Draw(r.t, "strayfor")]
		plan := rapid.SampledFrom([]string{"bad-share", "bad-share", "other-index", "foreign-commitments", "honest"}).Draw(r.t, "strayplan")
		j := gJust{Index: uint32(i), Deal: r.justDeal(i, plan)}
		j.Deal.SID = append([]byte(nil), r.sent[i].SID...)
		j.SID = append([]byte(nil), j.Deal.SID...)
		j.Sig, _ = schnorr.Sign(r.suite, r.dlong, r.impl.justHash(r.suite, j))
		step := fmt.Sprintf("stray justification(idx %d, %s)->V%d", i, plan, i)
		var err error
		if pn := safely(func() { err = r.vers[i].ProcessJustification(j) }); pn != "" {
			r.fail("justification-panic", "%s panicked: %s", step, pn)
			return
		}
		r.log("%s: err=%v", step, err)
		r.stats["stray-justification"] = true
		if err == nil {
			r.fail("justification-without-complaint", "%s: accepted although this verifier approved its deal", step)
		}
		r.checkInvariants(step)
	}
	if len(r.justs) == 0 {
		return
	}
	j := r.justs[rapid.IntRange(0, len(r.justs)-1).Draw(r.t, "jidx")]
	var ready []int
	for i := 0; i < r.n; i++ {
		if r.views[i].ready {
			ready = append(ready, i)
		}
	}
	if len(ready) == 0 {
		return
	}
	to := ready[rapid.IntRange(0, len(ready)-1).Draw(r.t, "jto")]
	for k := 0; k < len(ready); k++ { // prefer a verifier where this complaint is still pending
		c := ready[(to+k)%len(ready)]
		if st, has := r.views[c].resp[j.Index]; has && !st {
			to = c
			break
		}
	}
	v := r.views[to]
	st, has := v.resp[j.Index]
	pending := has && !st
	tOK := r.validT(j.Deal.T) && (r.impl.rabin || j.Deal.T == v.t)
	// correct = the revealed deal is the one of the complaining verifier, for this session, carrying the
	// very commitments this verifier holds, and its share opens them.  (A share that happens to lie on
	// this verifier's polynomial but is revealed under other commitments is not a justification of
	// this deal: a Byzantine dealer that gave this verifier altered commitments can produce one.)
	correct := j.Deal.I == j.Index && tOK && bytes.Equal(j.Deal.SID, v.sid) && samePoints(j.Deal.Commits, v.commits) && r.onPoly(v.commits, j.Deal) && r.sidConsistent(j.Deal)
	step := fmt.Sprintf("justification(idx %d)->V%d", j.Index, to)
	var err error
	if pn := safely(func() { err = r.vers[to].ProcessJustification(j) }); pn != "" {
		r.log("%s: PANIC %s", step, pn)
		r.fail("justification-panic", "%s panicked: %s", step, pn)
		return
	}
	r.log("%s: pending complaint=%v correct=%v err=%v", step, pending, correct, err)
	switch {
	case !pending:
		if err == nil {
			r.fail("justification-without-complaint", "%s: accepted although there is no pending complaint from %d at this verifier", step, j.Index)
		}
	case correct:
		if err != nil {
			r.fail("correct-justification-refused", "%s: a correct justification was refused: %v", step, err)
		} else {
			v.resp[j.Index] = true
			r.stats["complaint-cleared"] = true
		}
	default:
		v.bad = true
		r.stats["bad-justification"] = true
		if err == nil {
			what := "the revealed share does not open this verifier's commitments"
			if j.Deal.I != j.Index {
				what = fmt.Sprintf("it reveals the deal of index %d", j.Deal.I)
			}
			r.fail("incorrect-justification-accepted", "%s: an incorrect justification was accepted (%s)", step, what)
		}
	}
	r.checkInvariants(step)
}

func (r *vssRun) doTimeout() {
	p := rapid.IntRange(0, r.n).Draw(r.t, "timeoutparty")
	v := r.views[p]
	if !v.ready {
		return
	}
	step := "timeout@" + r.party(p)
	if pn := safely(func() {
		if p == r.n {
			r.dealer.SetTimeout()
		} else {
			r.vers[p].SetTimeout()
		}
	}); pn != "" {
		r.fail("timeout-panic", "%s panicked: %s", step, pn)
		return
	}
	v.timeout = true
	if r.impl.rabin {
		for i := 0; i < r.n; i++ {
			if _, ok := v.resp[uint32(i)]; !ok {
				v.resp[uint32(i)] = false // Rabin: absent verifiers count as complaints from now on
			}
		}
	}
	r.log("%s", step)
	r.stats["timeout"] = true
	r.checkInvariants(step)
}

func c10History(t *rapid.T, ev *evProp, impl vssImpl) {
	g := edwards25519.NewBlakeSHA256Ed25519()
	r := &vssRun{t: t, ev: ev, impl: impl, g: g, stats: map[string]bool{}}
	r.suite = vssSuite{g, xofStream(genSeed(t, "rand"))}
	r.n = rapid.IntRange(3, 6).Draw(t, "n")
	r.th = uint32(rapid.IntRange(2, r.n).Draw(t, "t"))
	ks := xofStream(genSeed(t, "keys"))
	r.dlong = g.Scalar().Pick(ks)
	r.dpub = g.Point().Mul(r.dlong, nil)
	r.secret = genScalar(t, groupByName("ed25519"), "secret").S
	for i := 0; i < r.n; i++ {
		r.vlong = append(r.vlong, g.Scalar().Pick(ks))
		r.vpub = append(r.vpub, g.Point().Mul(r.vlong[i], nil))
	}
	var err error
	if r.dealer, err = impl.newDealer(r.suite, r.dlong, r.secret, r.vpub, r.th); err != nil {
		violationOrKnown(t, ev, r.key("newdealer"), "NewDealer(t=%d,n=%d) failed: %v", r.th, r.n, err)
		return
	}
	if impl.rabin {
		var b bytes.Buffer
		for _, p := range r.vpub {
			p.MarshalTo(&b)
		}
		r.H = g.Point().Pick(r.suite.XOF(b.Bytes()))
	}
	allHonest := rapid.IntRange(0, 4).Draw(t, "allhonest") == 0
	// few faulty deals in most histories (so that certification is reachable), many in some
	faultPct := rapid.SampledFrom([]int{10, 20, 20, 35, 35, 70}).Draw(t, "faultpct")
	for i := 0; i < r.n; i++ {
		v, err := impl.newVerifier(r.suite, r.vlong[i], r.dpub, r.vpub)
		if err != nil {
			t.Fatalf("harness: NewVerifier: %v", err)
		}
		r.vers = append(r.vers, v)
		r.honest = append(r.honest, r.dealer.GetDeal(i))
		r.sidExact = bytes.Equal(r.refSID(r.honest[0].Commits, r.honest[0].T), r.honest[0].SID)
		r.views = append(r.views, &vssView{resp: map[uint32]bool{}})
		f := "honest"
		if !allHonest && rapid.IntRange(0, 99).Draw(t, fmt.Sprintf("faulty%d", i)) < faultPct {
			f = rapid.SampledFrom(vssDealFaults[3:]).Draw(t, fmt.Sprintf("fault%d", i))
		}
		r.faults = append(r.faults, f)
	}
	r.sent = make([]*gDeal, r.n)
	r.genuine = make([]*gResp, r.n)
	r.views = append(r.views, &vssView{ready: true, sid: r.honest[0].SID, t: r.th, commits: r.honest[0].Commits, resp: map[uint32]bool{}})
	if !r.onPoly(r.honest[0].Commits, r.honest[0]) {
		fmt.Printf("HARNESS-ERROR: the harness' notion of 'share lies on the committed polynomial' rejects an honest %s deal\n", impl.name)
		t.Fatalf("harness self-check failed")
	}
	r.log("%s n=%d t=%d faults=%v", impl.name, r.n, r.th, r.faults)
	if allHonest {
		c10HonestRun(r)
		return
	}
	delivered := make([]bool, r.n)
	steps := rapid.IntRange(r.n, r.n*(r.n+4)+6).Draw(t, "steps")
	for s := 0; s < steps; s++ {
		act := rapid.SampledFrom([]string{"deal", "deal", "response", "response", "response", "response", "response", "justification", "justification", "timeout"}).Draw(t, "act")
		switch act {
		case "deal":
			i := rapid.IntRange(0, r.n-1).Draw(t, "dealto")
			if rapid.IntRange(0, 9).Draw(t, "dealprogress") < 8 {
				for k := 0; k < r.n; k++ {
					if !delivered[(i+k)%r.n] && r.faults[(i+k)%r.n] != "never" {
						i = (i + k) % r.n
						break
					}
				}
			}
			if r.faults[i] == "never" {
				continue
			}
			r.deliverDeal(i, delivered[i])
			delivered[i] = true
		case "response":
			r.deliverResponse(rapid.IntRange(0, 9).Draw(t, "progress") < 7)
		case "justification":
			r.deliverJustification()
		case "timeout":
			if rapid.IntRange(0, 3).Draw(t, "reallytimeout") == 0 {
				r.doTimeout()
			}
		}
	}
	if rapid.Bool().Draw(t, "drain") {
		// drain: every pending genuine response reaches every party, every justification every verifier
		for k := 0; k < r.n*(r.n+1); k++ {
			r.deliverResponse(true)
		}
		for k, rounds := 0, 2*(len(r.justs)+1)*r.n; k < rounds; k++ {
			r.deliverJustification()
		}
		if rapid.Bool().Draw(t, "draintimeout") {
			for k := 0; k <= r.n; k++ {
				r.doTimeout()
			}
		}
		r.stats["drained"] = true
	}
	nontrivial := r.stats["faulty-deal-processed"] || r.stats["complaint"] || r.stats["justification"] || r.stats["timeout"] || r.stats["byzantine-response-accepted"]
	var labels []string
	for k := range r.stats {
		labels = append(labels, "vss-"+impl.name+":"+k)
	}
	for _, f := range r.faults {
		labels = append(labels, "vss-fault:"+f)
	}
	ev.Case(nontrivial, strings.Join(r.hist, " | "), append(labels, "vss:"+impl.name)...)
}

// c10HonestRun: everybody follows the protocol; responses are delivered to everybody in a generated
// order; then every verifier approves, everybody certifies and any t deals recover the secret.
func c10HonestRun(r *vssRun) {
	order := rapid.Permutation(seqInts(r.n)).Draw(r.t, "dealorder")
	for _, i := range order {
		r.deliverDeal(i, false)
		if r.genuine[i] == nil || !r.genuine[i].Approved {
			return // already reported
		}
	}
	type msg struct{ from, to int }
	var msgs []msg
	for f := 0; f < r.n; f++ {
		for to := 0; to <= r.n; to++ {
			if to != f {
				msgs = append(msgs, msg{f, to})
			}
		}
	}
	for _, k := range rapid.Permutation(seqInts(len(msgs))).Draw(r.t, "resporder") {
		m := msgs[k]
		rs := *r.genuine[m.from]
		step := fmt.Sprintf("response[genuine] V%d->%s", m.from, r.party(m.to))
		var err error
		if pn := safely(func() {
			if m.to == r.n {
				_, err = r.dealer.ProcessResponse(rs)
			} else {
				err = r.vers[m.to].ProcessResponse(rs)
			}
		}); pn != "" {
			r.fail("response-panic", "%s panicked: %s", step, pn)
			return
		}
		r.log("%s: err=%v", step, err)
		if err != nil {
			r.fail("valid-response-refused", "%s: refused in an all-honest run: %v", step, err)
		}
		r.views[m.to].resp[uint32(m.from)] = true
		r.checkInvariants(step)
	}
	var deals []gDeal
	for p := 0; p <= r.n; p++ {
		if !r.certified(p) {
			r.fail("honest-not-certified", "all-honest run: %s does not certify after all responses", r.party(p))
			continue
		}
		if p < r.n {
			d := r.vers[p].CertifiedDeal()
			if d == nil {
				r.fail("honest-not-certified", "all-honest run: V%d.Deal() is nil although certified", p)
				continue
			}
			deals = append(deals, *d)
		}
	}
	if len(deals) == r.n {
		perm := rapid.Permutation(seqInts(r.n)).Draw(r.t, "recoversubset")
		var sub []gDeal
		for _, k := range perm[:r.th] {
			sub = append(sub, deals[k])
		}
		s, err := r.impl.recover(r.suite, sub, uint32(r.n), r.th)
		if err != nil || !s.Equal(r.secret) {
			r.fail("honest-recover", "all-honest run: deals %v do not reconstruct the dealer's secret (err=%v)", perm[:r.th], err)
		}
	}
	if sc := r.dealer.SecretCommit(); sc == nil || !sc.Equal(r.g.Point().Mul(r.secret, nil)) {
		r.fail("secretcommit", "all-honest run: SecretCommit is not secret*B")
	}
	r.ev.Case(r.th != uint32(r.n) || r.n > 3, strings.Join(r.hist, " | "), "vss:"+r.impl.name, "vss-"+r.impl.name+":all-honest")
}

const c10Rule = "case = (variant Pedersen|Rabin, n in 3..6 verifiers, t in 2..n, secret from edge classes) + either an all-honest run with generated deal and response delivery orders, or a history: per verifier a deal fault from {honest, share+1, one commitment altered for this verifier only, another verifier's index inside the deal, threshold out of range, threshold different from the others, another verifier's encrypted deal, ciphertext bit flip, corrupted dealer signature, signature by another key, never delivered} produced through the dealer's own encryption path (a re-delivery may carry ANOTHER authentic deal: other session id, optionally a longer commitment vector - refused, and without a trace), " +
	"then n..8n steps drawn from {deliver (or re-deliver) a deal, deliver a response V_i -> party of kind genuine / corrupted signature / other session id / foreign index / out-of-range index / inverted status / validly signed Byzantine complaint / validly signed Byzantine approval, deliver a justification (the dealer reveals the honest deal, share+1, self-consistent foreign commitments, another index' deal, or a bad threshold), SetTimeout at a party}. " +
	"After EVERY step, on every party that holds a deal: certified => at least t valid approvals or correctly justified complaints in that party's accepted history and no incorrect justification processed; documented completeness (enough approvals, nothing outstanding => certified); certified => t approved deals reconstruct the committed secret; every library call must return an error exactly when the harness model says the message is invalid for that receiver, approvals only for deals that authenticate, carry this verifier's index, a threshold in range and a share on the committed polynomial. " +
	"non-trivial = a faulty deal was processed, a complaint, a justification, a timeout or a Byzantine response occurred (or an all-honest run with n>3 or t<n); distinct = distinct history text" +
	" Added after the sensitivity rounds: a second, different justification per complaint; plans extended-commitments and foreign-consistent (a deal for other commitments under the main session id: invalid since fix 27); approvers of I5 are those the certifying party accepted; session ids are recomputed by a harness reference (hash of dealer key, verifier keys, commitments, threshold) a justification may reveal the deal exactly as it was sent under an outer id matching its content, and the Byzantine dealer also signs unsolicited justifications for verifiers whose own complaint is pending."

func TestC10_Pedersen(t *testing.T) {
	ev := evFor("C10")
	ev.Rule(c10Rule)
	ev.Assume("justifications are not authenticated by the VSS layer itself (the DKG layers authenticate bundles): forged justification signatures are not in the menu; a verifier that received a self-consistent deal with another threshold may approve it (its approval carries another session id and is refused by everybody else)")
	rcheck(t, 500, 90000, func(t *rapid.T) { c10History(t, ev, vssPedersen) })
}

func TestC10_Rabin(t *testing.T) {
	ev := evFor("C10")
	rcheck(t, 500, 90000, func(t *rapid.T) { c10History(t, ev, vssRabin) })
}
