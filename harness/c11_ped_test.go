//go:build !constantTime

package harness

// C11 (a) — Pedersen DKG at the DistKeyGenerator level (fresh, fast-sync and resharing): up to
// n-t Byzantine nodes whose outgoing bundles are rewritten by the harness; all honest nodes get
// the same multiset of bundles, each in its own generated order.

import (
	"fmt"
	"io"
	"sort"
	"strings"

	"go.dedis.ch/kyber/v4"
	"go.dedis.ch/kyber/v4/encrypt/ecies"
	"go.dedis.ch/kyber/v4/group/edwards25519"
	"go.dedis.ch/kyber/v4/share"
	dkg "go.dedis.ch/kyber/v4/share/dkg/pedersen"
	"go.dedis.ch/kyber/v4/sign/schnorr"
	"pgregory.net/rapid"
)

import "crypto/sha256"

type streamReader struct {
	s interface{ XORKeyStream(dst, src []byte) }
}

func (r streamReader) Read(p []byte) (int, error) {
	for i := range p {
		p[i] = 0
	}
	r.s.XORKeyStream(p, p)
	return len(p), nil
}

var _ io.Reader = streamReader{}

type pnode struct {
	name    string
	long    kyber.Scalar
	pub     kyber.Point
	oidx    int // index in the old group (-1 if none)
	nidx    int // index in the new group (-1 if none)
	gen     *dkg.DistKeyGenerator
	byz     string // "" = honest
	res     *dkg.Result
	err     error
	done    bool
	oldRes  *dkg.Result // result of the previous DKG (resharing)
	dealPub []kyber.Point
	active  bool // takes part in this run (has a generator / protocol instance)
}

type pedRun struct {
	t        *rapid.T
	ev       *evProp
	g        kyber.Group
	suite    vssSuite
	nodes    []*pnode
	oldNodes []dkg.Node
	newNodes []dkg.Node
	oldT     uint32
	newT     uint32
	gang     *pnode // the honest dealer all false complaints are directed at (nil: each picks its own)
	gangMode bool   // every Byzantine holder issues a false complaint against the same honest dealer
	fast     bool
	reshare  bool
	nonce    []byte
	hist     []string
	oldPub   []kyber.Point // public coefficients of the old key (resharing)
	stats    map[string]bool
	// what the harness knows about the dealt shares
	victims   map[int]map[int]bool  // dealer old idx -> new idx it cheated
	noJust    map[int]bool          // dealers that will not (correctly) justify
	mustEvict map[int]bool          // dealers whose deal bundle is malformed, duplicated or conflicting
	rekey     func(w string) string // maps a failure class to a finding key (known findings are keyed by configuration)
	justified map[int]bool          // dealers whose honest justification bundle was broadcast
}

func (r *pedRun) log(format string, args ...any) {
	r.hist = append(r.hist, fmt.Sprintf(format, args...))
}

func (r *pedRun) fail(w, format string, args ...any) {
	key := "C11/pedersen/" + w
	if r.rekey != nil {
		key = r.rekey(w)
	}
	violationOrKnown(r.t, r.ev, key, format+"\nrun:\n  %s", append(args, strings.Join(r.hist, "\n  "))...)
}

var pedDealFaults = []string{"absent", "bad-share", "bad-share", "bad-cipher", "wrong-holder-index", "wrong-coeff-count", "wrong-nonce", "duplicate-bundle", "conflicting-bundles", "honest-deal"}
var pedRespFaults = []string{"honest", "honest", "false-complaint", "false-complaint", "success-in-regular-mode", "unknown-dealer", "wrong-nonce", "absent", "duplicate-bundle"}
var pedJustFaults = []string{"honest", "honest", "honest", "none", "wrong-share", "unknown-holder", "wrong-nonce", "duplicate-bundle"}

func (r *pedRun) cfg(n *pnode) *dkg.Config {
	c := &dkg.Config{
		Suite:          r.suite,
		Longterm:       n.long,
		NewNodes:       r.newNodes,
		Threshold:      r.newT,
		Nonce:          r.nonce,
		Auth:           schnorr.NewScheme(r.suite),
		FastSync:       r.fast,
		Reader:         streamReader{xofStream([]byte("dkg-reader-" + n.name))},
		UserReaderOnly: true,
	}
	if r.reshare {
		c.OldNodes = r.oldNodes
		c.OldThreshold = r.oldT
		if n.oldRes != nil {
			c.Share = n.oldRes.Key
		} else {
			c.PublicCoeffs = r.oldPub
		}
	}
	return c
}

// permuted returns the bundles in a generated order (each honest node gets its own).
func permuted[T any](t *rapid.T, label string, in []T) []T {
	if len(in) < 2 {
		return in
	}
	perm := rapid.Permutation(seqInts(len(in))).Draw(t, label)
	out := make([]T, len(in))
	for i, p := range perm {
		out[i] = in[p]
	}
	return out
}

func (r *pedRun) run() {
	t := r.t
	// ---- deal phase
	var deals []*dkg.DealBundle
	for _, n := range r.nodes {
		if n.gen == nil {
			continue
		}
		b, err := n.gen.Deals()
		if err != nil {
			if n.oidx >= 0 && (!r.reshare || n.oldRes != nil) {
				r.fail("deals", "%s: Deals() failed: %v", n.name, err)
			}
			continue
		}
		n.dealPub = b.Public
		if n.byz == "" {
			deals = append(deals, b)
			continue
		}
		fault := rapid.SampledFrom(pedDealFaults).Draw(t, "dealfault."+n.name)
		r.log("%s (old idx %d) deal fault: %s", n.name, n.oidx, fault)
		switch fault {
		case "absent":
			r.noJust[n.oidx] = true
		case "honest-deal":
			deals = append(deals, b)
		case "bad-share", "bad-cipher":
			// the share of some honest victims is wrong: each with probability 1/2, or exactly t / t-1 /
			// all of them (the eviction rule "t complaints" is a boundary every node must see alike)
			vmode := rapid.SampledFrom([]string{"coin", "coin", "exactly-t", "t-1", "all"}).Draw(t, "victims."+n.name)
			var cand []int
			for k := range b.Deals {
				if h := r.byNew(int(b.Deals[k].ShareIndex)); h != nil && h.byz == "" {
					cand = append(cand, k)
				}
			}
			chosen := map[int]bool{}
			if vmode != "coin" && len(cand) > 0 {
				want := len(cand)
				switch vmode {
				case "exactly-t":
					want = min(int(r.newT), len(cand))
				case "t-1":
					want = min(int(r.newT)-1, len(cand))
				}
				for _, p := range rapid.Permutation(seqInts(len(cand))).Draw(t, "victimperm."+n.name)[:want] {
					chosen[cand[p]] = true
				}
				r.log("%s: %d victims (%s)", n.name, want, vmode)
			}
			for k := range b.Deals {
				h := r.byNew(int(b.Deals[k].ShareIndex))
				if h == nil || h.byz != "" {
					continue
				}
				if vmode == "coin" {
					if !rapid.Bool().Draw(t, fmt.Sprintf("victim.%s.%d", n.name, k)) {
						continue
					}
				} else if !chosen[k] {
					continue
				}
				if fault == "bad-cipher" {
					b.Deals[k].EncryptedShare = flipBits(t, b.Deals[k].EncryptedShare, "cf."+n.name)
				} else {
					wrong, _ := r.g.Scalar().Pick(xofStream([]byte("wrong" + n.name))).MarshalBinary()
					// sometimes a plaintext that authenticates and decrypts but is no scalar encoding at all
					// (one byte short, empty): still just an invalid share - a complaint, never a private
					// verdict of the addressee alone
					switch rapid.IntRange(0, 5).Draw(t, "plainshape."+n.name) {
					case 0:
						wrong = wrong[:len(wrong)-1]
					case 1:
						wrong = []byte{}
					}
					b.Deals[k].EncryptedShare, _ = ecies.Encrypt(r.suite, h.pub, wrong, sha256.New)
				}
				if r.victims[n.oidx] == nil {
					r.victims[n.oidx] = map[int]bool{}
				}
				r.victims[n.oidx][h.nidx] = true
				r.stats["invalid-share-to-honest"] = true
			}
			deals = append(deals, b)
		case "wrong-holder-index":
			if len(b.Deals) > 0 {
				// any position: a receiver that stops scanning at its own deal must not miss it
				k := uniformInt(t, 0, len(b.Deals)-1, "whi."+n.name)
				b.Deals[k].ShareIndex = uint32(1000 + n.oidx)
			}
			deals = append(deals, b)
			r.noJust[n.oidx], r.mustEvict[n.oidx] = true, true
			r.stats["dealer-must-be-evicted"] = true
		case "wrong-coeff-count":
			b.Public = b.Public[:len(b.Public)-1]
			deals = append(deals, b)
			r.noJust[n.oidx], r.mustEvict[n.oidx] = true, true
			r.stats["dealer-must-be-evicted"] = true
		case "wrong-nonce":
			b.SessionID = append([]byte(nil), b.SessionID...)
			b.SessionID[0] ^= 1
			deals = append(deals, b)
			r.noJust[n.oidx], r.mustEvict[n.oidx] = true, true
			r.stats["dealer-must-be-evicted"] = true
		case "duplicate-bundle":
			deals = append(deals, b, b)
			r.noJust[n.oidx], r.mustEvict[n.oidx] = true, true
			r.stats["dealer-must-be-evicted"] = true
		case "conflicting-bundles":
			b2 := *b
			b2.Public = append([]kyber.Point(nil), b.Public...)
			b2.Public[0] = r.g.Point().Add(b.Public[0], r.g.Point().Base())
			deals = append(deals, b, &b2)
			r.noJust[n.oidx], r.mustEvict[n.oidx] = true, true
			r.stats["dealer-must-be-evicted"] = true
		}
	}
	// ---- response phase
	var resps []*dkg.ResponseBundle
	for _, n := range r.nodes {
		if n.gen == nil {
			continue
		}
		in := deals
		if n.byz == "" {
			in = permuted(t, "dealorder."+n.name, deals)
		}
		var rb *dkg.ResponseBundle
		var err error
		if pn := safely(func() { rb, err = n.gen.ProcessDeals(in) }); pn != "" {
			r.fail("processdeals-panic", "%s: ProcessDeals panicked: %s", n.name, pn)
			n.done = true
			continue
		}
		if err != nil {
			if n.byz == "" {
				r.fail("processdeals", "%s: ProcessDeals failed: %v", n.name, err)
			}
			n.done = true
			continue
		}
		if n.byz == "" {
			if rb != nil {
				resps = append(resps, rb)
				r.stats["complaint"] = true
			}
			continue
		}
		if n.nidx < 0 {
			continue
		}
		menu := pedRespFaults
		if !r.fast {
			// only meaningful in regular mode: give it the weight of three
			menu = append(append([]string(nil), menu...), "success-in-regular-mode", "success-in-regular-mode")
		}
		fault := rapid.SampledFrom(menu).Draw(t, "respfault."+n.name)
		if r.gangMode {
			fault = "false-complaint" // this run: every Byzantine holder complains about the same honest dealer
		}
		r.log("%s (new idx %d) response fault: %s", n.name, n.nidx, fault)
		if rb == nil {
			rb = &dkg.ResponseBundle{ShareIndex: uint32(n.nidx), SessionID: r.nonce}
		}
		switch fault {
		case "honest":
			if len(rb.Responses) > 0 {
				resps = append(resps, rb)
			}
		case "absent":
		case "false-complaint":
			var hon []*pnode
			for _, h := range r.nodes {
				if h.byz == "" && h.oidx >= 0 && h.dealPub != nil {
					hon = append(hon, h)
				}
			}
			if len(hon) > 0 {
				h := hon[rapid.IntRange(0, len(hon)-1).Draw(t, "fc."+n.name)]
				// the Byzantine holders may gang up on ONE honest dealer (its complaint count then lies
				// between the thresholds of a resharing that changes the threshold)
				if r.gang == nil && (r.gangMode || rapid.Bool().Draw(t, "gangup")) {
					r.gang = h
				}
				if r.gang != nil {
					h = r.gang
				}
				rb.Responses = append(rb.Responses, dkg.Response{DealerIndex: uint32(h.oidx), Status: dkg.Complaint})
				r.stats["false-complaint"] = true
			}
			resps = append(resps, rb)
		case "success-in-regular-mode":
			rb.Responses = append(rb.Responses, dkg.Response{DealerIndex: uint32(r.oldNodes[0].Index), Status: dkg.Success})
			resps = append(resps, rb)
		case "unknown-dealer":
			rb.Responses = append(rb.Responses, dkg.Response{DealerIndex: 999, Status: dkg.Complaint})
			resps = append(resps, rb)
		case "wrong-nonce":
			rb.SessionID = append([]byte(nil), r.nonce...)
			rb.SessionID[1] ^= 1
			rb.Responses = append(rb.Responses, dkg.Response{DealerIndex: uint32(r.oldNodes[0].Index), Status: dkg.Complaint})
			resps = append(resps, rb)
		case "duplicate-bundle":
			if len(rb.Responses) > 0 {
				resps = append(resps, rb, rb)
			}
		}
	}
	// ---- justification phase
	var justs []*dkg.JustificationBundle
	for _, n := range r.nodes {
		if n.gen == nil || n.done {
			continue
		}
		in := resps
		if n.byz == "" {
			in = permuted(t, "resporder."+n.name, resps)
		}
		var res *dkg.Result
		var jb *dkg.JustificationBundle
		var err error
		if pn := safely(func() { res, jb, err = n.gen.ProcessResponses(in) }); pn != "" {
			r.fail("processresponses-panic", "%s: ProcessResponses panicked: %s", n.name, pn)
			n.done = true
			continue
		}
		if err != nil || res != nil {
			n.res, n.err, n.done = res, err, true
			r.log("%s finished in the response phase: result=%v err=%v", n.name, res != nil, err)
			continue
		}
		if n.byz == "" {
			if jb != nil {
				justs = append(justs, jb)
				r.stats["justification"] = true
			}
			continue
		}
		if jb == nil || n.oidx < 0 {
			continue
		}
		fault := "none"
		if !r.noJust[n.oidx] {
			fault = rapid.SampledFrom(pedJustFaults).Draw(t, "justfault."+n.name)
		}
		r.log("%s (old idx %d) justification fault: %s", n.name, n.oidx, fault)
		switch fault {
		case "honest":
			justs = append(justs, jb)
			r.justified[n.oidx] = true
		case "none":
			r.noJust[n.oidx] = true
		case "wrong-share":
			for k := range jb.Justifications {
				jb.Justifications[k].Share = r.g.Scalar().Add(jb.Justifications[k].Share, r.g.Scalar().One())
			}
			justs = append(justs, jb)
			r.noJust[n.oidx] = true
		case "unknown-holder":
			jb.Justifications = append(jb.Justifications, dkg.Justification{ShareIndex: 777, Share: r.g.Scalar().One()})
			justs = append(justs, jb)
			r.noJust[n.oidx] = true
		case "wrong-nonce":
			jb.SessionID = append([]byte(nil), r.nonce...)
			jb.SessionID[2] ^= 1
			justs = append(justs, jb)
			r.noJust[n.oidx] = true
		case "duplicate-bundle":
			justs = append(justs, jb, jb)
			r.noJust[n.oidx] = true
		}
	}
	for _, n := range r.nodes {
		// a Byzantine dealer that broadcast no honest justification leaves its victims unjustified
		if n.byz != "" && n.oidx >= 0 && !r.justified[n.oidx] {
			r.noJust[n.oidx] = true
		}
	}
	for _, n := range r.nodes {
		if n.gen == nil || n.done {
			continue
		}
		in := justs
		if n.byz == "" {
			in = permuted(t, "justorder."+n.name, justs)
		}
		var res *dkg.Result
		var err error
		if pn := safely(func() { res, err = n.gen.ProcessJustifications(in) }); pn != "" {
			r.fail("processjustifications-panic", "%s: ProcessJustifications panicked: %s", n.name, pn)
			n.done = true
			continue
		}
		n.res, n.err, n.done = res, err, true
		r.log("%s finished in the justification phase: result=%v err=%v", n.name, res != nil, err)
	}
}

func (r *pedRun) byNew(nidx int) *pnode {
	for _, n := range r.nodes {
		if n.nidx == nidx {
			return n
		}
	}
	return nil
}

func (r *pedRun) byOld(oidx int) *pnode {
	for _, n := range r.nodes {
		if n.oidx == oidx {
			return n
		}
	}
	return nil
}

func qualString(q []dkg.Node) string {
	var s []string
	for _, n := range q {
		s = append(s, fmt.Sprintf("%d:%.8s", n.Index, pointHex(n.Public)))
	}
	sort.Strings(s)
	return strings.Join(s, ",")
}

// checkOutputs: agreement and consistency of the results of honest nodes.
func (r *pedRun) checkOutputs(allHonest bool, expectKey kyber.Point) []*pnode {
	var done []*pnode
	nbyz := 0
	for _, n := range r.nodes {
		if n.byz != "" {
			nbyz++
		}
	}
	for _, n := range r.nodes {
		if n.byz != "" || n.nidx < 0 || !n.active {
			continue
		}
		if n.res != nil && n.err == nil {
			done = append(done, n)
		} else if allHonest {
			r.fail("honest-incomplete", "all participants are honest but %s did not complete: %v", n.name, n.err)
		} else {
			r.stats["honest-node-aborted"] = true
			r.log("honest %s did not complete: %v", n.name, n.err)
		}
	}
	if len(done) == 0 {
		return nil
	}
	ref := done[0]
	pp := share.NewPubPoly(r.g, r.g.Point().Base(), ref.res.Key.Commits)
	var shares []*share.PriShare
	for _, n := range done {
		if len(n.res.Key.Commits) != len(ref.res.Key.Commits) {
			r.fail("agreement-commits", "%s and %s output commitment polynomials of different length", ref.name, n.name)
			continue
		}
		for k := range n.res.Key.Commits {
			if !n.res.Key.Commits[k].Equal(ref.res.Key.Commits[k]) {
				r.fail("agreement-commits", "%s and %s disagree on commitment %d of the distributed key", ref.name, n.name, k)
				break
			}
		}
		if qualString(n.res.QUAL) != qualString(ref.res.QUAL) {
			r.fail("agreement-qual", "%s and %s disagree on QUAL: [%s] vs [%s]", ref.name, n.name, qualString(ref.res.QUAL), qualString(n.res.QUAL))
		}
		if int(n.res.Key.Share.I) != n.nidx {
			r.fail("share-index", "%s outputs a share with index %d, its index is %d", n.name, n.res.Key.Share.I, n.nidx)
		}
		if !pp.Check(n.res.Key.Share) {
			r.fail("share-on-poly", "the share of %s does not lie on the agreed commitment polynomial", n.name)
		}
		shares = append(shares, n.res.Key.Share)
	}
	if uint32(len(ref.res.Key.Commits)) != r.newT {
		r.fail("threshold", "the output polynomial has %d coefficients, threshold is %d", len(ref.res.Key.Commits), r.newT)
	}
	if uint32(len(shares)) >= r.newT {
		sub := permuted(r.t, "recoversubset", shares)[:r.newT]
		x, err := share.RecoverSecret(r.g, sub, r.newT, uint32(len(r.newNodes)))
		if err != nil || !r.g.Point().Mul(x, nil).Equal(ref.res.Key.Commits[0]) {
			r.fail("recover", "t output shares do not reconstruct a secret matching the public key (err=%v)", err)
		}
	}
	if expectKey != nil && !ref.res.Key.Commits[0].Equal(expectKey) {
		r.fail("resharing-key-changed", "the public key changed during resharing")
	}
	return done
}

func newPedRun(t *rapid.T, ev *evProp) *pedRun {
	g := edwards25519.NewBlakeSHA256Ed25519()
	return &pedRun{t: t, ev: ev, g: g, suite: vssSuite{g, xofStream(genSeed(t, "rand"))}, stats: map[string]bool{},
		victims: map[int]map[int]bool{}, noJust: map[int]bool{}, mustEvict: map[int]bool{}, justified: map[int]bool{}, nonce: genSeedN(t, "nonce", 32)}
}

func genSeedN(t *rapid.T, label string, n int) []byte {
	return rapid.SliceOfN(rapid.Byte(), n, n).Draw(t, label)
}

func (r *pedRun) mkNodes(n int, prefix string) []*pnode {
	ks := xofStream(genSeed(r.t, prefix+"keys"))
	var out []*pnode
	for i := 0; i < n; i++ {
		l := r.g.Scalar().Pick(ks)
		out = append(out, &pnode{name: fmt.Sprintf("%s%d", prefix, i), long: l, pub: r.g.Point().Mul(l, nil), oidx: -1, nidx: -1})
	}
	return out
}

func c11PedersenFresh(t *rapid.T, ev *evProp, maxN int) {
	r := newPedRun(t, ev)
	n := rapid.IntRange(3, maxN).Draw(t, "n")
	r.newT = uint32(rapid.IntRange(n/2+1, n).Draw(t, "t"))
	r.fast = rapid.Bool().Draw(t, "fastsync")
	r.nodes = r.mkNodes(n, "N")
	maxByz := n - int(r.newT)
	nbyz := 0
	if maxByz > 0 && rapid.IntRange(0, 4).Draw(t, "anybyz") != 0 {
		nbyz = rapid.IntRange(1, maxByz).Draw(t, "nbyz")
	}
	byzIdx := rapid.Permutation(seqInts(n)).Draw(t, "byzperm")[:nbyz]
	for i, nd := range r.nodes {
		nd.oidx, nd.nidx = i, i
		r.newNodes = append(r.newNodes, dkg.Node{Index: uint32(i), Public: nd.pub})
	}
	r.oldNodes = r.newNodes
	for _, b := range byzIdx {
		r.nodes[b].byz = "byzantine"
	}
	r.log("fresh DKG n=%d t=%d fastsync=%v byzantine=%v", n, r.newT, r.fast, byzIdx)
	for _, nd := range r.nodes {
		gen, err := dkg.NewDistKeyHandler(r.cfg(nd))
		if err != nil {
			r.fail("new", "NewDistKeyHandler failed for %s: %v", nd.name, err)
			return
		}
		nd.gen, nd.active = gen, true
	}
	r.run()
	done := r.checkOutputs(nbyz == 0, nil)
	if len(done) > 0 {
		ref := done[0].res
		// the key is the sum of the qualified dealers' contributions
		sum := r.g.Point().Null()
		inQual := map[int]bool{}
		for _, q := range ref.QUAL {
			inQual[int(q.Index)] = true
			if d := r.byOld(int(q.Index)); d != nil && d.dealPub != nil {
				sum = r.g.Point().Add(sum, d.dealPub[0])
			}
		}
		if !sum.Equal(ref.Key.Commits[0]) {
			r.fail("key-not-sum-of-qual", "the public key is not the sum of the constant commitments broadcast by the dealers in QUAL [%s]", qualString(ref.QUAL))
		}
		r.checkQual(ref, inQual)
	}
	var labels []string
	for k := range r.stats {
		labels = append(labels, "dkg-ped:"+k)
	}
	ev.Case(nbyz > 0 || n > 3, strings.Join(r.hist, " | "), append(labels, "dkg:pedersen-fresh", fmt.Sprintf("dkg-ped-fast:%v", r.fast), fmt.Sprintf("dkg-ped-byz:%d", nbyz), fmt.Sprintf("dkg-ped-completed:%d", len(done)))...)
}

// checkQual: who must and who must not be among the qualified dealers (QUAL lists dealers by their
// index in the dealing group: the old group when resharing).
func (r *pedRun) checkQual(ref *dkg.Result, inQual map[int]bool) {
	for _, nd := range r.nodes {
		if nd.oidx < 0 || nd.dealPub == nil {
			continue // not a dealer of this run
		}
		if nd.byz == "" {
			if !inQual[nd.oidx] {
				r.fail("honest-dealer-disqualified", "honest dealer %s (old index %d; fewer than t complaints are possible) is not in QUAL [%s]", nd.name, nd.oidx, qualString(ref.QUAL))
			}
			continue
		}
		// a dealer whose invalid deal to an honest party stayed unjustified must be out
		if len(r.victims[nd.oidx]) > 0 && r.noJust[nd.oidx] && inQual[nd.oidx] {
			r.fail("cheating-dealer-qualified", "dealer %s sent invalid shares to honest nodes %v, never justified them correctly, and is in QUAL [%s]", nd.name, keysOf(r.victims[nd.oidx]), qualString(ref.QUAL))
		}
		if r.mustEvict[nd.oidx] && inQual[nd.oidx] {
			// malformed / duplicated / conflicting bundles: every honest node evicts the dealer
			r.fail("malformed-dealer-qualified", "dealer %s broadcast a malformed, duplicated or conflicting deal bundle and is in QUAL [%s]", nd.name, qualString(ref.QUAL))
		}
	}
}

func keysOf(m map[int]bool) []int {
	var out []int
	for k := range m {
		out = append(out, k)
	}
	sort.Ints(out)
	return out
}

// c11PedersenReshare: an honest fresh DKG, then a resharing to a new group with faults.
func c11PedersenReshare(t *rapid.T, ev *evProp, maxN int) {
	r0 := newPedRun(t, ev)
	n := rapid.IntRange(3, maxN).Draw(t, "n")
	r0.newT = uint32(rapid.IntRange(n/2+1, n).Draw(t, "t"))
	// directed scenario (1 case in 6): the threshold GROWS (old 3-of... t=2, new group larger) and as
	// many Byzantine new members as the new threshold tolerates gang up on one honest old dealer with
	// false complaints - a count that reaches the old threshold but not the new one
	growGang := maxN >= 5 && rapid.IntRange(0, 5).Draw(t, "growgang") == 0
	if growGang {
		n, r0.newT = 3, 2
	}
	r0.nodes = r0.mkNodes(n, "O")
	for i, nd := range r0.nodes {
		nd.oidx, nd.nidx = i, i
		r0.newNodes = append(r0.newNodes, dkg.Node{Index: uint32(i), Public: nd.pub})
	}
	r0.oldNodes = r0.newNodes
	r0.log("honest fresh DKG n=%d t=%d (provides the shares to reshare)", n, r0.newT)
	for _, nd := range r0.nodes {
		gen, err := dkg.NewDistKeyHandler(r0.cfg(nd))
		if err != nil {
			r0.fail("new", "NewDistKeyHandler failed: %v", err)
			return
		}
		nd.gen, nd.active = gen, true
	}
	r0.run()
	done0 := r0.checkOutputs(true, nil)
	if len(done0) != n {
		return
	}
	oldKey := done0[0].res.Key.Commits[0]
	// ---- the new group
	r := newPedRun(t, ev)
	r.reshare = true
	r.fast = rapid.Bool().Draw(t, "fastsync")
	r.hist = append(r.hist, r0.hist...)
	r.oldNodes, r.oldT, r.oldPub = r0.newNodes, r0.newT, done0[0].res.Key.Commits
	shape := rapid.SampledFrom([]string{"identical", "overlapping", "disjoint", "larger", "smaller"}).Draw(t, "shape")
	keep := n
	extra := 0
	switch shape {
	case "overlapping":
		keep, extra = rapid.IntRange(1, n-1).Draw(t, "keep"), rapid.IntRange(1, 3).Draw(t, "extra")
	case "disjoint":
		keep, extra = 0, rapid.IntRange(2, maxN).Draw(t, "extra")
	case "larger":
		extra = rapid.IntRange(1, 3).Draw(t, "extra")
	case "smaller":
		keep = rapid.IntRange(2, n-1).Draw(t, "keep")
	}
	if growGang {
		shape, keep, extra = "larger", n, min(2+rapid.IntRange(0, 1).Draw(t, "ggextra"), maxN-n)
	}
	newN := keep + extra
	if newN < 2 {
		extra += 2 - newN
		newN = 2
	}
	// old members: all of them deal; the first `keep` (in a generated order) also sit in the new group
	oldOrder := rapid.Permutation(seqInts(n)).Draw(t, "keepperm")
	fresh := r.mkNodes(extra, "F")
	pos := 0
	for k, oi := range oldOrder {
		src := r0.nodes[oi]
		nd := &pnode{name: src.name, long: src.long, pub: src.pub, oidx: src.nidx, nidx: -1, oldRes: src.res}
		if k < keep {
			nd.nidx = pos
			pos++
		}
		r.nodes = append(r.nodes, nd)
	}
	for _, f := range fresh {
		f.nidx = pos
		pos++
		r.nodes = append(r.nodes, f)
	}
	for _, nd := range r.nodes {
		if nd.nidx >= 0 {
			r.newNodes = append(r.newNodes, dkg.Node{Index: uint32(nd.nidx), Public: nd.pub})
		}
	}
	sort.Slice(r.newNodes, func(i, j int) bool { return r.newNodes[i].Index < r.newNodes[j].Index })
	r.newT = uint32(rapid.IntRange(newN/2+1, newN).Draw(t, "newt"))
	if growGang {
		r.newT = uint32(newN/2 + 1)
	}
	// Byzantine: at most n - oldT of the old dealers and at most newN - newT of the new holders (the
	// two bounds are separate: a new-only member does not count against the old group)
	maxOld, maxNew := n-int(r.oldT), newN-int(r.newT)
	nbyz := 0
	if growGang {
		for _, nd := range r.nodes {
			if nd.oidx < 0 && nbyz < maxNew { // fresh members only
				nd.byz = "byzantine"
				nbyz++
			}
		}
	} else if maxOld+maxNew > 0 && rapid.IntRange(0, 3).Draw(t, "anybyz") != 0 {
		want := rapid.IntRange(1, maxOld+maxNew).Draw(t, "nbyz")
		byzOld, byzNew := 0, 0
		for _, b := range rapid.Permutation(seqInts(len(r.nodes))).Draw(t, "byzperm") {
			nd := r.nodes[b]
			isOld, isNew := nd.oidx >= 0, nd.nidx >= 0
			if nbyz >= want || (isOld && byzOld >= maxOld) || (isNew && byzNew >= maxNew) {
				continue
			}
			nd.byz = "byzantine"
			nbyz++
			if isOld {
				byzOld++
			}
			if isNew {
				byzNew++
			}
		}
	}
	r.gangMode = growGang || (nbyz >= 2 && rapid.IntRange(0, 2).Draw(t, "gangmode") == 0)
	r.log("resharing shape=%s old n=%d t=%d -> new n=%d t=%d fastsync=%v byzantine=%d gang=%v", shape, n, r.oldT, newN, r.newT, r.fast, nbyz, r.gangMode)
	for _, nd := range r.nodes {
		gen, err := dkg.NewDistKeyHandler(r.cfg(nd))
		if err != nil {
			r.fail("new", "NewDistKeyHandler (resharing) failed for %s: %v", nd.name, err)
			return
		}
		nd.gen, nd.active = gen, true
	}
	r.run()
	done := r.checkOutputs(nbyz == 0, oldKey)
	if len(done) > 0 {
		// After resharing QUAL lists the qualified NEW nodes: those that ran the response phase
		// correctly and are not at the same time a disqualified dealer of the old group.  An honest
		// node is neither, so it is in QUAL - an honest dealer that gets disqualified (though it
		// received no justified complaint) shows up here when it is also a member of the new group.
		inQual := map[int]bool{}
		for _, q := range done[0].res.QUAL {
			inQual[int(q.Index)] = true
		}
		for _, nd := range r.nodes {
			if nd.byz == "" && nd.active && nd.nidx >= 0 && !inQual[nd.nidx] {
				r.fail("honest-node-disqualified", "honest node %s (old index %d, new index %d) is not in QUAL [%s]", nd.name, nd.oidx, nd.nidx, qualString(done[0].res.QUAL))
			}
		}
	}
	var labels []string
	for k := range r.stats {
		labels = append(labels, "dkg-reshare:"+k)
	}
	ev.Case(true, strings.Join(r.hist[len(r0.hist):], " | "), append(labels, "dkg:pedersen-reshare", "dkg-reshare-shape:"+shape, fmt.Sprintf("dkg-reshare-byz:%d", nbyz), fmt.Sprintf("dkg-reshare-completed:%d", len(done)))...)
}
