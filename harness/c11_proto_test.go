//go:build !constantTime

package harness

// C11 (b) — Pedersen DKG through the Protocol driver.  The harness implements Board and Phaser
// with unbuffered channels and hands exactly one packet or one phase tick to one node at a time;
// an InitPhase tick (a no-op in the driver) serves as a barrier that tells the harness that the
// node is back at its select, so the interleaving is the generated one, not the Go scheduler's.

import (
	"fmt"
	"strings"
	"sync"
	"time"

	"go.dedis.ch/kyber/v4"
	"go.dedis.ch/kyber/v4/encrypt/ecies"
	"go.dedis.ch/kyber/v4/share"
	dkg "go.dedis.ch/kyber/v4/share/dkg/pedersen"
	"pgregory.net/rapid"
)

import "crypto/sha256"

type protoPacket struct {
	kind  string // deal | resp | just
	deal  *dkg.DealBundle
	resp  *dkg.ResponseBundle
	just  *dkg.JustificationBundle
	from  int
	phase dkg.Phase
	note  string
}

type protoNode struct {
	idx     int
	name    string
	long    kyber.Scalar
	pub     kyber.Point
	byz     bool
	fault   string
	proto   *dkg.Protocol
	cfg     *dkg.Config
	dealCh  chan dkg.DealBundle
	respCh  chan dkg.ResponseBundle
	justCh  chan dkg.JustificationBundle
	phaseCh chan dkg.Phase
	fin     bool
	res     dkg.OptionResult
	run     *protoRun
}

type protoRun struct {
	mu     sync.Mutex
	outbox []*protoPacket
	t      *rapid.T
	hist   []string
	hung   bool
}

// Board implementation (one per node): pushes are recorded, never block.
func (n *protoNode) PushDeals(b *dkg.DealBundle) {
	n.run.push(&protoPacket{kind: "deal", deal: b, from: n.idx, phase: dkg.DealPhase})
}
func (n *protoNode) PushResponses(b *dkg.ResponseBundle) {
	n.run.push(&protoPacket{kind: "resp", resp: b, from: n.idx, phase: dkg.ResponsePhase})
}
func (n *protoNode) PushJustifications(b *dkg.JustificationBundle) {
	n.run.push(&protoPacket{kind: "just", just: b, from: n.idx, phase: dkg.JustifPhase})
}
func (n *protoNode) IncomingDeal() <-chan dkg.DealBundle                   { return n.dealCh }
func (n *protoNode) IncomingResponse() <-chan dkg.ResponseBundle           { return n.respCh }
func (n *protoNode) IncomingJustification() <-chan dkg.JustificationBundle { return n.justCh }
func (n *protoNode) NextPhase() chan dkg.Phase                             { return n.phaseCh }

func (r *protoRun) push(p *protoPacket) {
	r.mu.Lock()
	r.outbox = append(r.outbox, p)
	r.mu.Unlock()
}

const protoGuard = 30 * time.Second

// hand gives one item to the node (or notices that it has finished) and then waits until the node
// is back at its select.
func (n *protoNode) hand(send func() bool) {
	if n.fin || n.run.hung {
		return
	}
	if !send() {
		return
	}
	// barrier
	select {
	case n.phaseCh <- dkg.InitPhase:
	case res := <-n.proto.WaitEnd():
		n.fin, n.res = true, res
	case <-time.After(protoGuard):
		n.run.hung = true
	}
}

func (n *protoNode) tick(p dkg.Phase) {
	n.hand(func() bool {
		select {
		case n.phaseCh <- p:
			return true
		case res := <-n.proto.WaitEnd():
			n.fin, n.res = true, res
		case <-time.After(protoGuard):
			n.run.hung = true
		}
		return false
	})
}

func (n *protoNode) deliver(p *protoPacket) {
	n.hand(func() bool {
		var ok bool
		switch p.kind {
		case "deal":
			select {
			case n.dealCh <- *p.deal:
				ok = true
			case res := <-n.proto.WaitEnd():
				n.fin, n.res = true, res
			case <-time.After(protoGuard):
				n.run.hung = true
			}
		case "resp":
			select {
			case n.respCh <- *p.resp:
				ok = true
			case res := <-n.proto.WaitEnd():
				n.fin, n.res = true, res
			case <-time.After(protoGuard):
				n.run.hung = true
			}
		case "just":
			select {
			case n.justCh <- *p.just:
				ok = true
			case res := <-n.proto.WaitEnd():
				n.fin, n.res = true, res
			case <-time.After(protoGuard):
				n.run.hung = true
			}
		}
		return ok
	})
}

func c11Protocol(t *rapid.T, ev *evProp, maxN int) {
	pr := newPedRun(t, ev) // reuse key/suite helpers and the output checker
	n := rapid.IntRange(3, maxN).Draw(t, "n")
	pr.newT = uint32(rapid.IntRange(n/2+1, n).Draw(t, "t"))
	pr.fast = rapid.Bool().Draw(t, "fastsync")
	base := pr.mkNodes(n, "P")
	maxByz := n - int(pr.newT)
	nbyz := 0
	if maxByz > 0 && rapid.IntRange(0, 3).Draw(t, "anybyz") != 0 {
		nbyz = rapid.IntRange(1, maxByz).Draw(t, "nbyz")
	}
	byzSet := map[int]bool{}
	for _, b := range rapid.Permutation(seqInts(n)).Draw(t, "byzperm")[:nbyz] {
		byzSet[b] = true
	}
	for i, nd := range base {
		nd.oidx, nd.nidx = i, i
		pr.newNodes = append(pr.newNodes, dkg.Node{Index: uint32(i), Public: nd.pub})
	}
	pr.oldNodes = pr.newNodes
	run := &protoRun{t: t}
	var nodes []*protoNode
	for i, nd := range base {
		pn := &protoNode{idx: i, name: nd.name, long: nd.long, pub: nd.pub, byz: byzSet[i], run: run,
			dealCh: make(chan dkg.DealBundle), respCh: make(chan dkg.ResponseBundle), justCh: make(chan dkg.JustificationBundle), phaseCh: make(chan dkg.Phase)}
		if pn.byz {
			nd.byz = "byzantine"
			pn.fault = rapid.SampledFrom([]string{"absent", "forged-signature", "equivocate", "bad-share", "no-justification", "false-complaint", "false-complaint+unsolicited-justification", "false-complaint+unsolicited-justification", "late-duplicate"}).Draw(t, "fault."+nd.name)
		}
		pn.cfg = pr.cfg(nd)
		p, err := dkg.NewProtocol(pn.cfg, pn, pn, false)
		if err != nil {
			pr.fail("proto-new", "NewProtocol failed: %v", err)
			return
		}
		pn.proto = p
		nodes = append(nodes, pn)
	}
	pr.log("protocol driver n=%d t=%d fastsync=%v byzantine=%v", n, pr.newT, pr.fast, func() []string {
		var o []string
		for _, x := range nodes {
			if x.byz {
				o = append(o, x.name+":"+x.fault)
			}
		}
		return o
	}())
	sign := func(nd *protoNode, p dkg.Packet) []byte {
		h, _ := p.Hash()
		s, _ := nd.cfg.Auth.Sign(nd.long, h)
		return s
	}
	delivered := map[*protoPacket]map[int]bool{}
	taken := 0
	// takeNew moves freshly pushed packets into the schedulable pool, applying Byzantine rewriting
	var pool []*protoPacket
	takeNew := func() {
		run.mu.Lock()
		fresh := run.outbox[taken:]
		taken = len(run.outbox)
		run.mu.Unlock()
		for _, p := range fresh {
			nd := nodes[p.from]
			if !nd.byz {
				pool = append(pool, p)
				continue
			}
			switch {
			case nd.fault == "absent":
				// nothing of this node reaches anybody
			case nd.fault == "forged-signature":
				switch p.kind {
				case "deal":
					p.deal.Signature = flipBits(t, p.deal.Signature, "fs")
				case "resp":
					p.resp.Signature = flipBits(t, p.resp.Signature, "fs")
				case "just":
					p.just.Signature = flipBits(t, p.just.Signature, "fs")
				}
				p.note = "forged"
				pool = append(pool, p)
			case nd.fault == "equivocate" && p.kind == "deal":
				q := *p.deal
				q.Public = append([]kyber.Point(nil), p.deal.Public...)
				q.Public[0] = pr.g.Point().Add(q.Public[0], pr.g.Point().Base())
				q.Signature = sign(nd, &q)
				pool = append(pool, p, &protoPacket{kind: "deal", deal: &q, from: p.from, phase: p.phase, note: "equivocation"})
				pr.mustEvict[p.from] = true
			case (nd.fault == "bad-share" || nd.fault == "no-justification") && p.kind == "deal":
				for k := range p.deal.Deals {
					h := int(p.deal.Deals[k].ShareIndex)
					if nodes[h].byz || !rapid.Bool().Draw(t, fmt.Sprintf("victim.%s.%d", nd.name, k)) {
						continue
					}
					wrong, _ := pr.g.Scalar().Pick(xofStream([]byte("w" + nd.name))).MarshalBinary()
					p.deal.Deals[k].EncryptedShare, _ = ecies.Encrypt(pr.suite, nodes[h].pub, wrong, sha256.New)
					if pr.victims[p.from] == nil {
						pr.victims[p.from] = map[int]bool{}
					}
					pr.victims[p.from][h] = true
				}
				p.deal.Signature = sign(nd, p.deal)
				pool = append(pool, p)
			case nd.fault == "no-justification" && p.kind == "just":
				pr.noJust[p.from] = true
			case (nd.fault == "false-complaint" || nd.fault == "false-complaint+unsolicited-justification") && p.kind == "resp":
				for _, h := range nodes {
					if !h.byz {
						p.resp.Responses = append(p.resp.Responses, dkg.Response{DealerIndex: uint32(h.idx), Status: dkg.Complaint})
						break
					}
				}
				p.resp.Signature = sign(nd, p.resp)
				pool = append(pool, p)
				if nd.fault == "false-complaint+unsolicited-justification" {
					// ... and, although nobody complained about IT, the same node broadcasts a correctly
					// signed justification bundle (for this session, revealing nothing).  It is harmless
					// in itself; it must not take the place of the bundle the honest dealer owes, however
					// the two are ordered at each node.
					jb := &dkg.JustificationBundle{DealerIndex: uint32(nd.idx), SessionID: append([]byte(nil), p.resp.SessionID...)}
					jb.Signature = sign(nd, jb)
					pool = append(pool, &protoPacket{kind: "just", just: jb, from: p.from, phase: dkg.JustifPhase, note: "unsolicited"})
					pr.stats["unsolicited-justification-bundle"] = true
				}
			default:
				if p.kind == "just" {
					pr.justified[p.from] = true
				}
				pool = append(pool, p)
			}
		}
	}
	// pending deliveries of pool packets to nodes, in a generated interleaving with ticks
	phaseTicks := []dkg.Phase{dkg.DealPhase, dkg.ResponsePhase, dkg.JustifPhase, dkg.FinishPhase}
	for _, ph := range phaseTicks {
		tickOrder := rapid.Permutation(seqInts(n)).Draw(t, fmt.Sprintf("tickorder%d", ph))
		ti := 0
		for {
			takeNew()
			// candidate deliveries: (packet, node) not yet delivered
			type cand struct {
				p *protoPacket
				n int
			}
			var cands []cand
			for _, p := range pool {
				for i := range nodes {
					if !delivered[p][i] && !nodes[i].fin {
						cands = append(cands, cand{p, i})
					}
				}
			}
			if ti >= n && len(cands) == 0 {
				break
			}
			doTick := ti < n && (len(cands) == 0 || rapid.Bool().Draw(t, "tickfirst"))
			if doTick {
				nd := nodes[tickOrder[ti]]
				ti++
				nd.tick(ph)
				pr.log("tick %s -> %s", ph, nd.name)
			} else {
				c := cands[rapid.IntRange(0, len(cands)-1).Draw(t, "cand")]
				if delivered[c.p] == nil {
					delivered[c.p] = map[int]bool{}
				}
				delivered[c.p][c.n] = true
				nodes[c.n].deliver(c.p)
				pr.log("%s(%s%s) from %s -> %s", c.p.kind, c.p.phase, c.p.note, nodes[c.p.from].name, nodes[c.n].name)
				// network duplication
				if rapid.IntRange(0, 7).Draw(t, "dup") == 0 {
					nodes[c.n].deliver(c.p)
					pr.log("  (duplicate delivery)")
				}
			}
			if run.hung {
				fmt.Printf("HARNESS-ERROR: protocol driver node did not take a packet within %v (inconclusive)\n", protoGuard)
				t.Fatalf("harness wall-clock guard")
			}
		}
	}
	// collect
	for i, nd := range nodes {
		if !nd.fin {
			select {
			case res := <-nd.proto.WaitEnd():
				nd.fin, nd.res = true, res
			case <-time.After(protoGuard):
				fmt.Printf("HARNESS-ERROR: node %s did not end after FinishPhase (inconclusive)\n", nd.name)
				t.Fatalf("harness wall-clock guard")
			}
		}
		base[i].res, base[i].err, base[i].done, base[i].active = nd.res.Result, nd.res.Error, true, true
		pr.log("%s ended: result=%v err=%v", nd.name, nd.res.Result != nil, nd.res.Error)
	}
	pr.nodes = base
	// Known finding (see DESIGN.md): in fast-sync mode a node processes the deals as soon as it holds
	// one bundle per dealer, so of two conflicting validly signed bundles of an equivocating dealer it
	// uses whichever arrived first; honest nodes that saw them in different orders then disagree.
	equivFast := false
	for _, nd := range nodes {
		if pr.fast && nd.byz && nd.fault == "equivocate" {
			equivFast = true
		}
	}
	if equivFast {
		pr.rekey = func(w string) string {
			switch w {
			case "agreement-commits", "agreement-qual", "recover", "share-on-poly", "key-not-sum-of-qual", "honest-dealer-disqualified":
				return "C11/pedersen/protocol-fastsync-equivocating-dealer-order"
			}
			return "C11/pedersen/" + w
		}
	}
	done := pr.checkOutputs(nbyz == 0, nil)
	if len(done) > 0 {
		inQual := map[int]bool{}
		for _, q := range done[0].res.QUAL {
			inQual[int(q.Index)] = true
		}
		for _, nd := range nodes {
			if !nd.byz {
				if !inQual[nd.idx] {
					pr.fail("honest-dealer-disqualified", "honest dealer %s is not in QUAL [%s]", nd.name, qualString(done[0].res.QUAL))
				}
				continue
			}
			switch nd.fault {
			case "absent", "forged-signature", "equivocate":
				if nd.fault == "equivocate" && pr.fast {
					break // in fast-sync mode the first bundle may legitimately have been used by everybody
				}
				if inQual[nd.idx] {
					pr.fail("silent-dealer-qualified", "node %s (%s: nothing valid of it reached anybody) is in QUAL [%s]", nd.name, nd.fault, qualString(done[0].res.QUAL))
				}
			case "no-justification":
				if len(pr.victims[nd.idx]) > 0 && inQual[nd.idx] {
					pr.fail("cheating-dealer-qualified", "dealer %s sent invalid shares to honest nodes %v, did not justify, and is in QUAL", nd.name, keysOf(pr.victims[nd.idx]))
				}
			}
		}
		// key = sum over QUAL of the constant commitments that were broadcast
		sum := pr.g.Point().Null()
		run.mu.Lock()
		for _, p := range run.outbox {
			if p.kind == "deal" && inQual[p.from] && p.note == "" {
				sum = pr.g.Point().Add(sum, p.deal.Public[0])
			}
		}
		run.mu.Unlock()
		if !sum.Equal(done[0].res.Key.Commits[0]) {
			pr.fail("key-not-sum-of-qual", "the public key is not the sum of the constant commitments broadcast by QUAL")
		}
	}
	_ = share.PriShare{}
	ev.Case(true, strings.Join(pr.hist, " | "), "dkg:pedersen-protocol", fmt.Sprintf("dkg-proto-fast:%v", pr.fast), fmt.Sprintf("dkg-proto-byz:%d", nbyz), fmt.Sprintf("dkg-proto-completed:%d", len(done)))
}
