//go:build !constantTime

package harness

// C11 (c) — Rabin DKG: message passing harness over the public API; Byzantine parties use the real
// generator for their verifier role and a harness-made vss.Dealer (edited deals, hand-made
// responses) for their dealer role.

import (
	"fmt"
	"sort"
	"strings"

	"go.dedis.ch/kyber/v4"
	"go.dedis.ch/kyber/v4/group/edwards25519"
	"go.dedis.ch/kyber/v4/share"
	rdkg "go.dedis.ch/kyber/v4/share/dkg/rabin"
	rvss "go.dedis.ch/kyber/v4/share/vss/rabin"
	"go.dedis.ch/kyber/v4/sign/schnorr"
	"pgregory.net/rapid"
)

type rnode struct {
	idx    int
	name   string
	long   kyber.Scalar
	pub    kyber.Point
	gen    *rdkg.DistKeyGenerator
	byz    string
	dealer *rvss.Dealer // Byzantine dealer role
	secret kyber.Scalar
	res    *rdkg.DistKeyShare
	err    error
}

type rabinRun struct {
	t       *rapid.T
	ev      *evProp
	g       kyber.Group
	suite   vssSuite
	n       int
	th      uint32
	nodes   []*rnode
	pubs    []kyber.Point
	hist    []string
	victims map[int]map[int]bool
	noJust  map[int]bool
	absent  map[int]bool
	stats   map[string]bool
}

func (r *rabinRun) log(format string, args ...any) {
	r.hist = append(r.hist, fmt.Sprintf(format, args...))
}
func (r *rabinRun) fail(w, format string, args ...any) {
	violationOrKnown(r.t, r.ev, "C11/rabin/"+w, format+"\nrun:\n  %s", append(args, strings.Join(r.hist, "\n  "))...)
}

type rmsg struct {
	to   int
	deal *rdkg.Deal
	resp *rdkg.Response
	just *rdkg.Justification
	sc   *rdkg.SecretCommits
	cc   *rdkg.ComplaintCommits
	rc   *rdkg.ReconstructCommits
	from int
}

func c11Rabin(t *rapid.T, ev *evProp, maxN int) {
	g := edwards25519.NewBlakeSHA256Ed25519()
	r := &rabinRun{t: t, ev: ev, g: g, suite: vssSuite{g, xofStream(genSeed(t, "rand"))}, stats: map[string]bool{},
		victims: map[int]map[int]bool{}, noJust: map[int]bool{}, absent: map[int]bool{}}
	r.n = rapid.IntRange(3, maxN).Draw(t, "n")
	r.th = uint32(rapid.IntRange(r.n/2+1, r.n).Draw(t, "t"))
	ks := xofStream(genSeed(t, "keys"))
	for i := 0; i < r.n; i++ {
		l := g.Scalar().Pick(ks)
		nd := &rnode{idx: i, name: fmt.Sprintf("R%d", i), long: l, pub: g.Point().Mul(l, nil)}
		r.nodes = append(r.nodes, nd)
		r.pubs = append(r.pubs, nd.pub)
	}
	maxByz := r.n - int(r.th)
	nbyz := 0
	if maxByz > 0 && rapid.IntRange(0, 3).Draw(t, "anybyz") != 0 {
		nbyz = rapid.IntRange(1, maxByz).Draw(t, "nbyz")
	}
	for _, b := range rapid.Permutation(seqInts(r.n)).Draw(t, "byzperm")[:nbyz] {
		r.nodes[b].byz = rapid.SampledFrom([]string{"bad-deal-justified", "bad-deal-unjustified", "false-complaint", "absent", "bad-secret-commits", "bad-secret-commits", "honest-behaviour"}).Draw(t, fmt.Sprintf("byz%d", b))
	}
	for _, nd := range r.nodes {
		gen, err := rdkg.NewDistKeyGenerator(r.suite, nd.long, r.pubs, r.th)
		if err != nil {
			r.fail("new", "NewDistKeyGenerator failed: %v", err)
			return
		}
		nd.gen = gen
	}
	r.log("rabin DKG n=%d t=%d byzantine=%v", r.n, r.th, func() []string {
		var o []string
		for _, nd := range r.nodes {
			if nd.byz != "" {
				o = append(o, nd.name+":"+nd.byz)
			}
		}
		return o
	}())
	// ---- deals
	var msgs []rmsg
	for _, nd := range r.nodes {
		switch nd.byz {
		case "absent":
			r.absent[nd.idx] = true
			continue
		case "bad-deal-justified", "bad-deal-unjustified":
			nd.secret = g.Scalar().Pick(ks)
			d, err := rvss.NewDealer(r.suite, nd.long, nd.secret, r.pubs, r.th)
			if err != nil {
				t.Fatalf("harness: NewDealer: %v", err)
			}
			nd.dealer = d
			for j := 0; j < r.n; j++ {
				if j == nd.idx {
					continue
				}
				pd, _ := d.PlaintextDeal(j)
				honestV := pd.SecShare.V.Clone()
				cheat := r.nodes[j].byz == "" && rapid.Bool().Draw(t, fmt.Sprintf("victim%d.%d", nd.idx, j))
				if cheat {
					pd.SecShare.V = g.Scalar().Add(pd.SecShare.V, g.Scalar().One())
					if r.victims[nd.idx] == nil {
						r.victims[nd.idx] = map[int]bool{}
					}
					r.victims[nd.idx][j] = true
					r.stats["invalid-deal-to-honest"] = true
				}
				enc, err := d.EncryptedDeal(j)
				pd.SecShare.V = honestV // a later justification reveals the correct share
				if err != nil {
					t.Fatalf("harness: EncryptedDeal: %v", err)
				}
				msgs = append(msgs, rmsg{to: j, from: nd.idx, deal: &rdkg.Deal{Index: uint32(nd.idx), Deal: enc}})
			}
			if nd.byz == "bad-deal-unjustified" {
				r.noJust[nd.idx] = true
			}
			continue
		}
		ds, err := nd.gen.Deals()
		if err != nil {
			r.fail("deals", "%s: Deals failed: %v", nd.name, err)
			return
		}
		for j, d := range ds {
			msgs = append(msgs, rmsg{to: j, from: nd.idx, deal: d})
		}
	}
	sort.SliceStable(msgs, func(i, j int) bool { return msgs[i].from*100+msgs[i].to < msgs[j].from*100+msgs[j].to })
	// ---- process deals -> responses (broadcast)
	var resps []rmsg
	for _, m := range permuted(t, "dealorder", msgs) {
		to := r.nodes[m.to]
		if r.absent[to.idx] {
			continue
		}
		var resp *rdkg.Response
		var err error
		if pn := safely(func() { resp, err = to.gen.ProcessDeal(m.deal) }); pn != "" {
			r.fail("processdeal-panic", "%s: ProcessDeal(from %d) panicked: %s", to.name, m.from, pn)
			return
		}
		if err != nil {
			if to.byz == "" && r.nodes[m.from].byz == "" {
				r.fail("processdeal", "%s refused the honest deal of R%d: %v", to.name, m.from, err)
			}
			continue
		}
		if to.byz == "" && r.nodes[m.from].byz == "" && !resp.Response.Approved {
			r.fail("honest-deal-complaint", "%s complains about the honest deal of R%d", to.name, m.from)
		}
		if to.byz == "" && r.victims[m.from][to.idx] && resp.Response.Approved {
			r.fail("bad-deal-approved", "%s approved the invalid deal of R%d", to.name, m.from)
		}
		if !resp.Response.Approved {
			r.stats["complaint"] = true
		}
		if to.byz == "false-complaint" && r.nodes[m.from].byz == "" && resp.Response.Approved {
			// a Byzantine verifier turns its approval of an honest deal into a validly signed complaint
			resp.Response.Approved = false
			resp.Response.Signature, _ = schnorrSign(r.suite, to.long, resp.Response.Hash(r.suite))
			r.stats["false-complaint"] = true
		}
		for k := 0; k < r.n; k++ {
			if k != to.idx {
				resps = append(resps, rmsg{to: k, from: to.idx, resp: resp})
			}
		}
	}
	// ---- process responses -> justifications
	var justs []rmsg
	for _, m := range permuted(t, "resporder", resps) {
		to := r.nodes[m.to]
		if r.absent[to.idx] {
			continue
		}
		dealerIdx := int(m.resp.Index)
		// Byzantine dealer role: answer complaints from its own vss.Dealer
		if to.dealer != nil && dealerIdx == to.idx {
			j, err := to.dealer.ProcessResponse(m.resp.Response)
			if err == nil && j != nil && to.byz == "bad-deal-justified" {
				for k := 0; k < r.n; k++ {
					if k != to.idx {
						justs = append(justs, rmsg{to: k, from: to.idx, just: &rdkg.Justification{Index: uint32(to.idx), Justification: j}})
					}
				}
				r.stats["justification"] = true
			}
			continue
		}
		var j *rdkg.Justification
		var err error
		if pn := safely(func() { j, err = to.gen.ProcessResponse(m.resp) }); pn != "" {
			r.fail("processresponse-panic", "%s: ProcessResponse panicked: %s", to.name, pn)
			return
		}
		if err != nil && to.byz == "" && r.nodes[dealerIdx].byz == "" && r.nodes[m.from].byz == "" {
			r.fail("processresponse", "%s refused the honest response of R%d about the deal of R%d: %v", to.name, m.from, dealerIdx, err)
		}
		if j != nil {
			r.stats["justification"] = true
			for k := 0; k < r.n; k++ {
				if k != to.idx {
					justs = append(justs, rmsg{to: k, from: to.idx, just: j})
				}
			}
		}
	}
	for _, m := range permuted(t, "justorder", justs) {
		to := r.nodes[m.to]
		if r.absent[to.idx] || to.dealer != nil && int(m.just.Index) == to.idx {
			continue
		}
		var err error
		if pn := safely(func() { err = to.gen.ProcessJustification(m.just) }); pn != "" {
			r.fail("processjustification-panic", "%s: ProcessJustification panicked: %s", to.name, pn)
			return
		}
		if err != nil && to.byz == "" {
			r.log("%s: justification of R%d refused: %v", to.name, m.just.Index, err)
		}
	}
	// ---- timeout, QUAL
	for _, nd := range r.nodes {
		if !r.absent[nd.idx] {
			nd.gen.SetTimeout()
		}
	}
	quals := map[int]string{}
	for _, nd := range r.nodes {
		if nd.byz != "" {
			continue
		}
		q := nd.gen.QUAL()
		sort.Slice(q, func(i, j int) bool { return q[i] < q[j] })
		quals[nd.idx] = fmt.Sprint(q)
		r.log("%s: QUAL=%v certified=%v", nd.name, q, nd.gen.Certified())
		inQ := map[int]bool{}
		for _, x := range q {
			inQ[int(x)] = true
		}
		for _, d := range r.nodes {
			if d.byz == "" && !inQ[d.idx] {
				r.fail("honest-dealer-disqualified", "%s: honest dealer %s is not in QUAL %v", nd.name, d.name, q)
			}
			if d.byz != "" && len(r.victims[d.idx]) > 0 && r.noJust[d.idx] && inQ[d.idx] {
				violationOrKnown(r.t, r.ev, "C11/rabin/unjustified-complaint-dealer-in-QUAL",
					"%s keeps dealer %s in QUAL %v although its invalid deals to honest nodes %v were never justified\nrun:\n  %s", nd.name, d.name, q, keysOf(r.victims[d.idx]), strings.Join(r.hist, "\n  "))
			}
			if r.absent[d.idx] && inQ[d.idx] {
				r.fail("absent-dealer-qualified", "%s: absent dealer %s is in QUAL %v", nd.name, d.name, q)
			}
		}
	}
	first := ""
	for _, nd := range r.nodes {
		if nd.byz == "" {
			if first == "" {
				first = quals[nd.idx]
			} else if quals[nd.idx] != first {
				r.fail("agreement-qual", "honest nodes disagree on QUAL: %v", quals)
				break
			}
		}
	}
	// ---- secret commits phase
	var scs []rmsg
	dealerCommit := map[int]kyber.Point{}
	for _, nd := range r.nodes {
		if r.absent[nd.idx] {
			continue
		}
		if nd.dealer != nil {
			// the Byzantine dealer publishes the commitments of the polynomial it really used
			var fs []*share.PriShare
			for j := 0; j < r.n; j++ {
				pd, _ := nd.dealer.PlaintextDeal(j)
				fs = append(fs, pd.SecShare)
			}
			fpoly, err := share.RecoverPriPoly(g, fs, r.th, uint32(r.n))
			if err != nil {
				t.Fatalf("harness: cannot recover the Byzantine dealer's polynomial: %v", err)
			}
			_, fcommits := fpoly.Commit(nil).Info()
			sc := &rdkg.SecretCommits{Index: uint32(nd.idx), Commitments: fcommits, SessionID: nd.dealer.SessionID()}
			sc.Signature, _ = schnorrSign(r.suite, nd.long, sc.Hash(r.suite))
			dealerCommit[nd.idx] = sc.Commitments[0]
			for k := 0; k < r.n; k++ {
				if k != nd.idx {
					scs = append(scs, rmsg{to: k, from: nd.idx, sc: sc})
				}
			}
			continue
		}
		sc, err := nd.gen.SecretCommits()
		if err != nil {
			// with an absent participant the dealer side never sees all responses (DistKeyGenerator.SetTimeout
			// only times out the verifiers), so honest nodes cannot publish: a liveness limit, not a
			// statement of C11 unless everybody is honest
			if nbyz == 0 {
				r.fail("secretcommits", "%s: SecretCommits failed although everybody is honest: %v", nd.name, err)
			} else if nd.byz == "" {
				r.stats["honest-cannot-publish-commits"] = true
			}
			continue
		}
		dealerCommit[nd.idx] = sc.Commitments[0]
		if nd.byz == "bad-secret-commits" {
			sc.Commitments = append([]kyber.Point(nil), sc.Commitments...)
			if rapid.Bool().Draw(t, "partialcommits") && r.n >= 3 {
				// commitments of F' = F + c * prod_{j in S} (x - x_j): consistent with the shares of
				// the nodes in S (they accept and store them), inconsistent with everybody else's
				// (they complain).  |S| may exceed t-1 because nobody bounds the number of
				// coefficients; with >= t accepting nodes the complaint makes them reveal their shares
				// and everybody reconstructs the polynomial that was really dealt.
				var others []int
				for k := 0; k < r.n; k++ {
					if k != nd.idx {
						others = append(others, k)
					}
				}
				others = permuted(t, "partialS", others)
				// mostly large S (>= t accepting nodes make the reconstruction possible), sometimes small
				sz := len(others) - 1
				if rapid.IntRange(0, 3).Draw(t, "partialSmall") == 0 {
					sz = rapid.IntRange(1, len(others)-1).Draw(t, "partialSize")
				}
				S := others[:sz]
				prod := []kyber.Scalar{g.Scalar().Pick(xofStream(genSeed(t, "partialc")))} // c
				for _, j := range S {
					xj := g.Scalar().SetInt64(int64(j + 1))
					next := make([]kyber.Scalar, len(prod)+1)
					for k := range next {
						next[k] = g.Scalar().Zero()
					}
					for k, ck := range prod { // (sum ck x^k)(x - xj)
						next[k+1] = g.Scalar().Add(next[k+1], ck)
						next[k] = g.Scalar().Sub(next[k], g.Scalar().Mul(ck, xj))
					}
					prod = next
				}
				for k, ck := range prod {
					for len(sc.Commitments) <= k {
						sc.Commitments = append(sc.Commitments, g.Point().Null())
					}
					sc.Commitments[k] = g.Point().Add(sc.Commitments[k], g.Point().Mul(ck, nil))
				}
				r.log("%s publishes secret commits that match only the shares of %v (%d coefficients, t=%d)", nd.name, S, len(sc.Commitments), r.th)
				r.stats["partial-secret-commits"] = true
				if len(S) >= int(r.th) {
					r.stats["partial-secret-commits-reconstructable"] = true
				}
			} else {
				sc.Commitments[0] = g.Point().Add(sc.Commitments[0], g.Point().Base())
			}
			sc.Signature, _ = schnorrSign(r.suite, nd.long, sc.Hash(r.suite))
			r.stats["bad-secret-commits"] = true
		}
		for k := 0; k < r.n; k++ {
			if k != nd.idx {
				scs = append(scs, rmsg{to: k, from: nd.idx, sc: sc})
			}
		}
	}
	var ccs []rmsg
	for _, m := range permuted(t, "scorder", scs) {
		to := r.nodes[m.to]
		if r.absent[to.idx] {
			continue
		}
		var cc *rdkg.ComplaintCommits
		var err error
		if pn := safely(func() { cc, err = to.gen.ProcessSecretCommits(m.sc) }); pn != "" {
			r.fail("processsecretcommits-panic", "%s panicked: %s", to.name, pn)
			return
		}
		if err != nil && to.byz == "" && r.nodes[m.from].byz == "" {
			r.fail("processsecretcommits", "%s refused the honest secret commits of R%d: %v", to.name, m.from, err)
		}
		if cc != nil {
			r.stats["complaint-commits"] = true
			for k := 0; k < r.n; k++ {
				if k != to.idx {
					ccs = append(ccs, rmsg{to: k, from: to.idx, cc: cc})
				}
			}
		}
	}
	var rcs []rmsg
	for _, m := range permuted(t, "ccorder", ccs) {
		to := r.nodes[m.to]
		if r.absent[to.idx] {
			continue
		}
		var rc *rdkg.ReconstructCommits
		var err error
		if pn := safely(func() { rc, err = to.gen.ProcessComplaintCommits(m.cc) }); pn != "" {
			r.fail("processcomplaintcommits-panic", "%s panicked: %s", to.name, pn)
			return
		}
		_ = err
		if rc != nil {
			r.stats["reconstruct-commits"] = true
			for k := 0; k < r.n; k++ {
				if k != to.idx {
					rcs = append(rcs, rmsg{to: k, from: to.idx, rc: rc})
				}
			}
		}
	}
	for _, m := range permuted(t, "rcorder", rcs) {
		to := r.nodes[m.to]
		if r.absent[to.idx] {
			continue
		}
		var rerr error
		if pn := safely(func() { rerr = to.gen.ProcessReconstructCommits(m.rc) }); pn != "" {
			r.fail("processreconstructcommits-panic", "%s panicked: %s", to.name, pn)
			return
		}
		if rerr == nil {
			r.stats["reconstruct-commits-accepted"] = true
		}
	}
	// ---- outputs
	var done []*rnode
	for _, nd := range r.nodes {
		if nd.byz != "" {
			continue
		}
		if pn := safely(func() { nd.res, nd.err = nd.gen.DistKeyShare() }); pn != "" {
			r.fail("distkeyshare-panic", "%s: DistKeyShare panicked: %s", nd.name, pn)
			continue
		}
		r.log("%s: DistKeyShare err=%v finished=%v", nd.name, nd.err, nd.gen.Finished())
		if nd.err == nil {
			done = append(done, nd)
		} else if nbyz == 0 {
			r.fail("honest-incomplete", "all participants are honest but %s did not complete: %v", nd.name, nd.err)
		}
	}
	if len(done) > 0 {
		ref := done[0]
		pp := share.NewPubPoly(g, g.Point().Base(), ref.res.Commits)
		var shares []*share.PriShare
		for _, nd := range done {
			same := len(nd.res.Commits) == len(ref.res.Commits)
			for k := 0; same && k < len(ref.res.Commits); k++ {
				same = nd.res.Commits[k].Equal(ref.res.Commits[k])
			}
			if !same {
				r.fail("agreement-commits", "%s and %s output different commitment polynomials", ref.name, nd.name)
			}
			if int(nd.res.Share.I) != nd.idx {
				r.fail("share-index", "%s outputs share index %d", nd.name, nd.res.Share.I)
			}
			if !pp.Check(nd.res.Share) {
				key := "share-on-poly"
				// consequence of the known finding: the victim of an unjustified bad deal adds the bad share
				for d, vs := range r.victims {
					if vs[nd.idx] && r.noJust[d] {
						key = "unjustified-complaint-dealer-in-QUAL"
					}
				}
				violationOrKnown(r.t, r.ev, "C11/rabin/"+key, "the share of %s does not lie on the agreed commitment polynomial\nrun:\n  %s", nd.name, strings.Join(r.hist, "\n  "))
			} else {
				shares = append(shares, nd.res.Share)
			}
		}
		if uint32(len(shares)) >= r.th {
			sub := permuted(t, "recoversubset", shares)[:r.th]
			x, err := share.RecoverSecret(g, sub, r.th, uint32(r.n))
			if err != nil || !g.Point().Mul(x, nil).Equal(ref.res.Commits[0]) {
				r.fail("recover", "t output shares do not reconstruct a secret matching the public key (err=%v)", err)
			}
		}
		// key = sum of the qualified dealers' contributions (for dealers whose commitment we know)
		q := ref.gen.QUAL()
		sum := g.Point().Null()
		known := true
		for _, i := range q {
			c, ok := dealerCommit[int(i)]
			if !ok {
				if d := r.nodes[i]; d.dealer != nil {
					c, ok = g.Point().Mul(d.secret, nil), true
				}
			}
			if !ok {
				known = false
				break
			}
			sum = g.Point().Add(sum, c)
		}
		if known && !sum.Equal(ref.res.Commits[0]) {
			r.fail("key-not-sum-of-qual", "the public key is not the sum of the contributions of QUAL %v", q)
		}
	}
	var labels []string
	for k := range r.stats {
		labels = append(labels, "dkg-rabin:"+k)
	}
	for _, nd := range r.nodes {
		if nd.byz != "" {
			labels = append(labels, "dkg-rabin-byz:"+nd.byz)
		}
	}
	ev.Case(nbyz > 0 || r.n > 3, strings.Join(r.hist, " | "), append(labels, "dkg:rabin", fmt.Sprintf("dkg-rabin-completed:%d", len(done)))...)
}

func schnorrSign(s vssSuite, x kyber.Scalar, msg []byte) ([]byte, error) {
	return schnorrSignImpl(s, x, msg)
}

func schnorrSignImpl(s vssSuite, x kyber.Scalar, msg []byte) ([]byte, error) {
	return schnorr.Sign(s, x, msg)
}
