//go:build !constantTime

package harness

import (
	"testing"

	"pgregory.net/rapid"
)

func c11MaxN() int {
	if tier() == "thorough" {
		return 9
	}
	return 6
}

const c11Rule = "three harnesses. (a) Pedersen DistKeyGenerator level: n in 3..6 (thorough 9), t in [n/2+1, n], fast-sync on/off, up to n-t Byzantine nodes whose outgoing bundles are rewritten from a menu " +
	"{deal phase: absent, wrong share / corrupted ciphertext for chosen honest victims, share-holder index outside the group, wrong number of public coefficients, wrong nonce, duplicated bundle, two conflicting bundles; response phase: false complaint against an honest dealer, success in regular mode, unknown dealer, wrong nonce, absent, duplicated bundle; justification phase: none, wrong share, unknown holder, wrong nonce, duplicated bundle}; every honest node receives the same multiset of bundles in its own generated order; " +
	"also resharing after an honest fresh DKG, to an identical / overlapping / disjoint / larger / smaller group with a new threshold and the same fault menu. (b) Pedersen Protocol driver with a harness Board and Phaser that hand exactly one packet or phase tick to one node at a time in a generated order, with forged-signature and equivocating packets. (c) Rabin DKG message passing with Byzantine dealers built from the public VSS API. " +
	"Oracle on all honest nodes that complete: identical commitment polynomial and QUAL, each share on that polynomial with the node's index, any t shares reconstruct a secret matching the public key, fresh: key = sum of the constant commitments broadcast by QUAL dealers; resharing: key unchanged; a dealer with an unjustified invalid deal to an honest node, or with a malformed/duplicated/conflicting bundle, is not in QUAL; honest dealers are in QUAL; all honest => everybody completes. " +
	"non-trivial = at least one Byzantine node, n > 3, or a resharing; distinct = distinct run text" +
	" Added after the sensitivity rounds: misdirected deal at any position of the bundle; after resharing every honest active new node must be in QUAL; the regular-mode-only Success response fault has triple weight."

func TestC11_PedersenFresh(t *testing.T) {
	ev := evFor("C11")
	ev.Rule(c11Rule)
	ev.Assume("broadcast channel: all honest nodes see the same multiset of bundles per phase (what VerifyPacketSignature + a bulletin board provide); at most n-t Byzantine nodes")
	rcheck(t, 150, 16000, func(t *rapid.T) { c11PedersenFresh(t, ev, c11MaxN()) })
}

func TestC11_PedersenReshare(t *testing.T) {
	ev := evFor("C11")
	rcheck(t, 300, 12000, func(t *rapid.T) { c11PedersenReshare(t, ev, min(c11MaxN(), 6)) })
}

func TestC11_PedersenProtocol(t *testing.T) {
	ev := evFor("C11")
	ev.Assume("synchronous phases: every packet pushed in a phase reaches every node before that node is ticked into the next phase; a 30 s wall-clock guard only turns a hang of the driver into 'inconclusive' (exit 2)")
	rcheck(t, 80, 10000, func(t *rapid.T) { c11Protocol(t, ev, min(c11MaxN(), 7)) })
}

func TestC11_Rabin(t *testing.T) {
	ev := evFor("C11")
	rcheck(t, 120, 16000, func(t *rapid.T) { c11Rabin(t, ev, min(c11MaxN(), 7)) })
}
