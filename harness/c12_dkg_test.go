//go:build !constantTime

package harness

// Distributed keys for C12 from real DKG runs: the long-term key from an honest Pedersen DKG, the
// one-time keys from an honest Rabin DKG and another Pedersen DKG.

import (
	"go.dedis.ch/kyber/v4"
	dkg "go.dedis.ch/kyber/v4/share/dkg/pedersen"
	rdkg "go.dedis.ch/kyber/v4/share/dkg/rabin"
	"go.dedis.ch/kyber/v4/sign/schnorr"
	"pgregory.net/rapid"
)

func honestPedersenDKG(t *rapid.T, g kyber.Group, privs []kyber.Scalar, pubs []kyber.Point, th int, label string) []*dks {
	suite := vssSuite{g, xofStream(genSeed(t, label+".rand"))}
	var nodes []dkg.Node
	for i, p := range pubs {
		nodes = append(nodes, dkg.Node{Index: uint32(i), Public: p})
	}
	nonce := genSeedN(t, label+".nonce", 32)
	var gens []*dkg.DistKeyGenerator
	for i := range privs {
		c := &dkg.Config{Suite: suite, Longterm: privs[i], NewNodes: nodes, Threshold: uint32(th), Nonce: nonce, Auth: schnorr.NewScheme(suite)}
		gen, err := dkg.NewDistKeyHandler(c)
		if err != nil {
			return nil
		}
		gens = append(gens, gen)
	}
	var deals []*dkg.DealBundle
	for _, gen := range gens {
		b, err := gen.Deals()
		if err != nil {
			return nil
		}
		deals = append(deals, b)
	}
	var resps []*dkg.ResponseBundle
	for _, gen := range gens {
		rb, err := gen.ProcessDeals(deals)
		if err != nil {
			return nil
		}
		if rb != nil {
			resps = append(resps, rb)
		}
	}
	var out []*dks
	for _, gen := range gens {
		res, _, err := gen.ProcessResponses(resps)
		if err != nil || res == nil {
			return nil
		}
		out = append(out, &dks{sh: res.Key.Share, commits: res.Key.Commits})
	}
	return out
}

func honestRabinDKG(t *rapid.T, g kyber.Group, privs []kyber.Scalar, pubs []kyber.Point, th int, label string) []*dks {
	suite := vssSuite{g, xofStream(genSeed(t, label+".rand"))}
	var gens []*rdkg.DistKeyGenerator
	for i := range privs {
		gen, err := rdkg.NewDistKeyGenerator(suite, privs[i], pubs, uint32(th))
		if err != nil {
			return nil
		}
		gens = append(gens, gen)
	}
	var resps []*rdkg.Response
	for _, gen := range gens {
		ds, err := gen.Deals()
		if err != nil {
			return nil
		}
		for j, d := range ds {
			r, err := gens[j].ProcessDeal(d)
			if err != nil {
				return nil
			}
			resps = append(resps, r)
		}
	}
	for _, r := range resps {
		for i, gen := range gens {
			if int(r.Response.Index) == i {
				continue
			}
			if _, err := gen.ProcessResponse(r); err != nil {
				return nil
			}
		}
	}
	for _, gen := range gens {
		gen.SetTimeout()
	}
	for i, gen := range gens {
		sc, err := gen.SecretCommits()
		if err != nil {
			return nil
		}
		for j, g2 := range gens {
			if i != j {
				if _, err := g2.ProcessSecretCommits(sc); err != nil {
					return nil
				}
			}
		}
	}
	var out []*dks
	for _, gen := range gens {
		k, err := gen.DistKeyShare()
		if err != nil {
			return nil
		}
		out = append(out, &dks{sh: k.Share, commits: k.Commits})
	}
	return out
}

var c12DKGShares = func(t *rapid.T, g kyber.Group, privs []kyber.Scalar, pubs []kyber.Point, tl, tr int) (l, r, r2 []*dks) {
	if min(tl, tr) < 2 || min(tl, tr) < len(privs)/2+1 {
		return nil, nil, nil // the DKGs require a majority threshold
	}
	l = honestPedersenDKG(t, g, privs, pubs, tl, "dkg.long")
	r = honestRabinDKG(t, g, privs, pubs, tr, "dkg.rand")
	r2 = honestPedersenDKG(t, g, privs, pubs, tr, "dkg.rand2")
	if l == nil || r == nil || r2 == nil {
		return nil, nil, nil
	}
	return l, r, r2
}
