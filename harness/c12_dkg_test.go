//go:build !constantTime

package harness

import (
	"go.dedis.ch/kyber/v4"
	"pgregory.net/rapid"
)

// c12DKGShares produces the long-term and two one-time distributed keys from real DKG runs
// (filled in by the C11 harness; nil = not available, the case is skipped).
var c12DKGShares = func(t *rapid.T, g kyber.Group, privs []kyber.Scalar, pubs []kyber.Point, th int) (l, r, r2 []*dks) {
	return nil, nil, nil
}
