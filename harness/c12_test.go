//go:build !constantTime

package harness

// C12 — threshold Schnorr (sign/dss): any t valid partials, in any order at any participant,
// give one standard Ed25519 signature; invalid / forged / cross-session / duplicate / out-of-range
// partials are refused and never contribute.

import (
	"bytes"
	"crypto/cipher"
	"crypto/ed25519"
	"crypto/sha256"
	"fmt"
	"hash"
	"testing"

	"go.dedis.ch/kyber/v4"
	"go.dedis.ch/kyber/v4/group/edwards25519"
	"go.dedis.ch/kyber/v4/share"
	"go.dedis.ch/kyber/v4/sign/dss"
	"go.dedis.ch/kyber/v4/sign/eddsa"
	"go.dedis.ch/kyber/v4/sign/schnorr"
	"pgregory.net/rapid"
)

type dssSuite struct {
	kyber.Group
	r cipher.Stream
}

func (s dssSuite) Hash() hash.Hash             { return sha256.New() }
func (s dssSuite) RandomStream() cipher.Stream { return s.r }

// dks implements dss.DistKeyShare from a dealer polynomial (what a DKG outputs).
type dks struct {
	sh      *share.PriShare
	commits []kyber.Point
}

func (d *dks) PriShare() *share.PriShare  { return d.sh }
func (d *dks) Commitments() []kyber.Point { return d.commits }

func dealDKS(g kyber.Group, t, n int, seed []byte) (secret kyber.Scalar, out []*dks) {
	st := xofStream(seed)
	secret = g.Scalar().Pick(st)
	pri := share.NewPriPoly(g, uint32(t), secret, st)
	_, commits := pri.Commit(nil).Info()
	for _, s := range pri.Shares(uint32(n)) {
		out = append(out, &dks{sh: s, commits: commits})
	}
	return secret, out
}

func c12Case(t *rapid.T, ev *evProp, realDKG bool) {
	g := edwards25519.NewBlakeSHA256Ed25519()
	suite := dssSuite{g, xofStream(genSeed(t, "rand"))}
	n := rapid.IntRange(3, 7).Draw(t, "n")
	th := rapid.IntRange(n/2+1, n).Draw(t, "t")
	if rapid.IntRange(0, 3).Draw(t, "lowt") == 0 {
		th = rapid.IntRange(1, n).Draw(t, "t.any")
	}
	// The long-term and the one-time key need not have been shared with the same threshold: NewDSS
	// takes its own T, and T = max(tLong, tRandom) partials determine s = r + h*x (a polynomial of
	// degree max-1).  One case in three uses different thresholds.
	tl, tr := th, th
	switch rapid.SampledFrom([]string{"same", "same", "long-lower", "random-lower"}).Draw(t, "tshape") {
	case "long-lower":
		tl = rapid.IntRange(min(th, n/2+1), th).Draw(t, "tlong")
	case "random-lower":
		tr = rapid.IntRange(min(th, n/2+1), th).Draw(t, "trandom")
	}
	ks := xofStream(genSeed(t, "keys"))
	privs := make([]kyber.Scalar, n)
	pubs := make([]kyber.Point, n)
	for i := range privs {
		privs[i] = g.Scalar().Pick(ks)
		pubs[i] = g.Point().Mul(privs[i], nil)
	}
	var longs, rands, rands2 []*dks
	if realDKG {
		longs, rands, rands2 = c12DKGShares(t, g, privs, pubs, tl, tr)
		if longs == nil {
			return
		}
	} else {
		_, longs = dealDKS(g, tl, n, genSeed(t, "long"))
		_, rands = dealDKS(g, tr, n, genSeed(t, "random"))
		_, rands2 = dealDKS(g, tr, n, genSeed(t, "random2"))
	}
	msg := genMsg(t, 200)
	ctx := fmt.Sprintf("dss n=%d T=%d tLong=%d tRandom=%d realDKG=%v |msg|=%d", n, th, tl, tr, realDKG, len(msg))
	key := func(w string) string { return "C12/dss/" + w }
	ds := make([]*dss.DSS, n)
	other := make([]*dss.DSS, n) // same long-term key, another one-time key: a different session
	for i := range ds {
		var err error
		ds[i], err = dss.NewDSS(suite, privs[i], pubs, longs[i], rands[i], msg, uint32(th))
		if err != nil {
			violationOrKnown(t, ev, key("new"), "NewDSS failed: %v\n%s", err, ctx)
			return
		}
		other[i], _ = dss.NewDSS(suite, privs[i], pubs, longs[i], rands2[i], msg, uint32(th))
	}
	ps := make([]*dss.PartialSig, n)
	ops := make([]*dss.PartialSig, n)
	// fresh receivers: the DSS objects above have already recorded their own partial
	for i := range ds {
		var err error
		if ps[i], err = ds[i].PartialSig(); err != nil {
			violationOrKnown(t, ev, key("partialsig"), "PartialSig failed: %v\n%s", err, ctx)
			return
		}
		ops[i], _ = other[i].PartialSig()
	}
	X := longs[0].commits[0]
	Xb := mustMarshal(t, X)
	var sigs [][]byte
	// every participant receives its own generated sequence
	nrecv := rapid.IntRange(1, n).Draw(t, "receivers")
	recvs := rapid.Permutation(seqInts(n)).Draw(t, "recvperm")[:nrecv]
	nontrivial := false
	var hist []string
	for _, r := range recvs {
		// a fresh object for the receiver: it issues its own partial at a generated point of the
		// delivery sequence (first, in the middle, or after everything it receives)
		d, err := dss.NewDSS(suite, privs[r], pubs, longs[r], rands[r], msg, uint32(th))
		if err != nil {
			violationOrKnown(t, ev, key("new"), "NewDSS failed: %v\n%s", err, ctx)
			return
		}
		accepted := map[int]bool{}
		m := rapid.IntRange(0, n-1).Draw(t, fmt.Sprintf("nvalid%d", r))
		signAt := rapid.IntRange(0, m).Draw(t, fmt.Sprintf("signat%d", r))
		signOwn := func() {
			if _, err := d.PartialSig(); err != nil {
				violationOrKnown(t, ev, key("partialsig"), "PartialSig failed: %v\n%s", err, ctx)
			}
			accepted[r] = true
		}
		var others []int
		for _, i := range rapid.Permutation(seqInts(n)).Draw(t, fmt.Sprintf("order%d", r)) {
			if i != r {
				others = append(others, i)
			}
		}
		others = others[:m]
		h := fmt.Sprintf("recv%d:(signs own at %d)", r, signAt)
		if signAt > 0 {
			nontrivial = true
		}
		for k, i := range others {
			if k == signAt {
				signOwn()
			}
			// optionally an invalid partial first
			if rapid.IntRange(0, 2).Draw(t, fmt.Sprintf("inj%d.%d", r, k)) == 0 {
				kind := rapid.SampledFrom([]string{"value+delta", "value+delta-resigned", "signed-by-other", "other-session", "other-session-relabelled", "duplicate", "index>=n", "foreign-index", "garbage-sig", "nil-sessionid"}).Draw(t, fmt.Sprintf("injkind%d.%d", r, k))
				j := rapid.IntRange(0, n-1).Draw(t, fmt.Sprintf("injfrom%d.%d", r, k))
				if j == r && !accepted[r] {
					j = (r + 1) % n // nobody can hold r's partial before r has issued it
				}
				bad := &dss.PartialSig{Partial: &share.PriShare{I: ps[j].Partial.I, V: ps[j].Partial.V.Clone()},
					SessionID: append([]byte(nil), ps[j].SessionID...), Signature: append([]byte(nil), ps[j].Signature...)}
				resign := func(signer int) {
					bad.Signature, _ = schnorr.Sign(suite, privs[signer], bad.Hash(suite))
				}
				expectErr := true
				switch kind {
				case "value+delta":
					bad.Partial.V = g.Scalar().Add(bad.Partial.V, g.Scalar().One())
				case "value+delta-resigned":
					bad.Partial.V = g.Scalar().Add(bad.Partial.V, g.Scalar().One())
					resign(j)
				case "signed-by-other":
					resign((j + 1) % n)
				case "other-session":
					bad = ops[j]
				case "other-session-relabelled":
					bad.Partial.V = ops[j].Partial.V.Clone()
					resign(j)
					// identical to the honest value only if both one-time shares coincide
					expectErr = !ops[j].Partial.V.Equal(ps[j].Partial.V)
				case "duplicate":
					if !accepted[j] {
						expectErr = false // first delivery of a valid partial: an honest acceptance
					}
				case "index>=n":
					bad.Partial.I = uint32(n + rapid.IntRange(0, 3).Draw(t, fmt.Sprintf("oob%d.%d", r, k)))
					resign(j)
				case "foreign-index":
					o := (j + 1) % n
					bad.Partial.I = uint32(o)
					resign(o)
					expectErr = !ps[o].Partial.V.Equal(ps[j].Partial.V)
				case "garbage-sig":
					bad.Signature = flipBits(t, bad.Signature, fmt.Sprintf("gs%d.%d", r, k))
				case "nil-sessionid":
					bad.SessionID = nil
					resign(j)
				}
				before := d.EnoughPartialSig()
				var err error
				if pn := safely(func() { err = d.ProcessPartialSig(bad) }); pn != "" {
					violationOrKnown(t, ev, "C04/dss/process-panic", "ProcessPartialSig panicked on %s: %s\n%s", kind, pn, ctx)
					return
				}
				h += fmt.Sprintf(" !%s(%d)", kind, j)
				nontrivial = true
				if expectErr {
					if err == nil {
						violationOrKnown(t, ev, key("invalid-accepted"), "participant %d accepted an invalid partial (%s from %d)\n%s %s", r, kind, j, ctx, h)
					}
					if d.EnoughPartialSig() != before {
						violationOrKnown(t, ev, key("invalid-contributes"), "a refused partial (%s) changed EnoughPartialSig\n%s %s", kind, ctx, h)
					}
				} else if err == nil {
					accepted[int(bad.Partial.I)] = true
				}
			}
			if accepted[i] {
				continue
			}
			if err := d.ProcessPartialSig(ps[i]); err != nil {
				violationOrKnown(t, ev, key("valid-refused"), "participant %d refused the valid partial of %d: %v\n%s %s", r, i, err, ctx, h)
				continue
			}
			accepted[i] = true
			h += fmt.Sprintf(" %d", i)
			if k > 0 && others[k-1] > i {
				nontrivial = true
			}
			if want := len(accepted) >= th; d.EnoughPartialSig() != want {
				violationOrKnown(t, ev, key("enough"), "participant %d: EnoughPartialSig=%v with %d distinct valid partials (t=%d)\n%s %s", r, d.EnoughPartialSig(), len(accepted), th, ctx, h)
			}
			// an impatient caller probes Signature() while partials are still arriving: an error below
			// t, and no lasting effect on what the object does later
			if rapid.IntRange(0, 3).Draw(t, fmt.Sprintf("probe%d.%d", r, k)) == 0 {
				_, perr := d.Signature()
				h += " probe"
				if (perr == nil) != (len(accepted) >= th) {
					violationOrKnown(t, ev, key("signature-probe"), "participant %d: Signature() probed with %d accepted partials (t=%d) returns err=%v\n%s %s", r, len(accepted), th, perr, ctx, h)
				}
			}
		}
		if !accepted[r] {
			signOwn() // signAt == number of deliveries: own partial last
			if want := len(accepted) >= th; d.EnoughPartialSig() != want {
				violationOrKnown(t, ev, key("enough"), "participant %d: EnoughPartialSig=%v with %d distinct valid partials incl. its own, issued last (t=%d)\n%s %s", r, d.EnoughPartialSig(), len(accepted), th, ctx, h)
			}
		}
		hist = append(hist, h)
		sig, err := d.Signature()
		if len(accepted) < th {
			if err == nil {
				violationOrKnown(t, ev, key("signature-below-t"), "participant %d produced a signature from %d < t partials\n%s %s", r, len(accepted), ctx, h)
			}
			continue
		}
		if err != nil {
			violationOrKnown(t, ev, key("signature"), "participant %d has %d >= t partials but Signature fails: %v\n%s %s", r, len(accepted), err, ctx, h)
			continue
		}
		sigs = append(sigs, sig)
		if err := dss.Verify(X, msg, sig); err != nil {
			violationOrKnown(t, ev, key("verify-dss"), "dss.Verify rejects the signature: %v\n%s %s", err, ctx, h)
		}
		if err := eddsa.Verify(X, msg, sig); err != nil {
			violationOrKnown(t, ev, key("verify-eddsa"), "eddsa.Verify rejects the signature: %v\n%s %s", err, ctx, h)
		}
		if err := schnorr.Verify(g, X, msg, sig); err != nil {
			violationOrKnown(t, ev, key("verify-schnorr"), "schnorr.Verify rejects the signature: %v\n%s %s", err, ctx, h)
		}
		if !ed25519.Verify(ed25519.PublicKey(Xb), msg, sig) {
			violationOrKnown(t, ev, key("verify-stdlib"), "crypto/ed25519 rejects the signature\n%s %s", ctx, h)
		}
		// the object stays usable after it has produced the signature (partials keep arriving in a
		// broadcast setting): the caller overwrites the signature bytes it was given, late valid
		// partials are accepted, a late invalid one is refused, the own partial is still the same
		// valid one, and Signature() is still the same signature
		snap := append([]byte(nil), sig...)
		for i := range sig {
			sig[i] ^= 0xa5
		}
		var late []int
		for i := 0; i < n; i++ {
			if !accepted[i] {
				late = append(late, i)
			}
		}
		for _, i := range late {
			if rapid.Bool().Draw(t, fmt.Sprintf("latebad%d.%d", r, i)) {
				bad := &dss.PartialSig{Partial: &share.PriShare{I: ps[i].Partial.I, V: g.Scalar().Add(ps[i].Partial.V, g.Scalar().One())}, SessionID: append([]byte(nil), ps[i].SessionID...)}
				bad.Signature, _ = schnorr.Sign(suite, privs[i], bad.Hash(suite))
				if d.ProcessPartialSig(bad) == nil {
					violationOrKnown(t, ev, key("invalid-accepted"), "participant %d accepted an invalid late partial (value+1 re-signed by %d) after Signature()\n%s %s", r, i, ctx, h)
				}
			}
			if err := d.ProcessPartialSig(ps[i]); err != nil {
				violationOrKnown(t, ev, key("valid-refused"), "participant %d refused the valid late partial of %d after Signature(): %v\n%s %s", r, i, err, ctx, h)
			}
		}
		if own, err := d.PartialSig(); err != nil || !own.Partial.V.Equal(ps[r].Partial.V) || own.Partial.I != ps[r].Partial.I ||
			schnorr.Verify(suite, pubs[r], own.Hash(suite), own.Signature) != nil || !bytes.Equal(own.SessionID, ps[r].SessionID) {
			violationOrKnown(t, ev, key("partialsig"), "participant %d: PartialSig() after Signature() is not its valid partial any more (%v)\n%s %s", r, err, ctx, h)
		}
		if again, err := d.Signature(); err != nil || !bytes.Equal(again, snap) {
			violationOrKnown(t, ev, key("same-signature"), "participant %d: Signature() after late partials / after the caller overwrote the first result gives %x, %v; first %x\n%s %s", r, again, err, snap, ctx, h)
		}
		sigs[len(sigs)-1] = snap
	}
	for _, s := range sigs[min(1, len(sigs)):] {
		if !bytes.Equal(s, sigs[0]) {
			violationOrKnown(t, ev, key("same-signature"), "participants derived different signatures: %x vs %x\n%s %v", sigs[0], s, ctx, hist)
		}
	}
	ev.Case(nontrivial, fmt.Sprintf("%s %v", ctx, hist), fmt.Sprintf("dss-n:%d", n), fmt.Sprintf("dss-signed:%d", len(sigs)), fmt.Sprintf("dss-realdkg:%v", realDKG), fmt.Sprintf("dss-thresholds-differ:%v", tl != tr))
}

const c12Rule = "case = Ed25519, n in 3..7, t in [n/2+1, n] (1/4 of the cases: any t in 1..n), long-term and two one-time distributed keys (dealer polynomials wrapped as DistKeyShare; in 1/5 of the thorough cases the outputs of real Pedersen and Rabin DKG runs), a message of 0..200 bytes; " +
	"1..n receiving participants each get their own random subset of the other participants' partial signatures in a random order, with injected partials before 1/3 of them from {value+1, value+1 re-signed by its owner, signed by another participant, partial of another session, other-session value relabelled with this session id and re-signed, duplicate, index >= n, another participant's index re-signed by that participant, corrupted signature, nil session id}. " +
	"Oracle: an injected invalid partial returns an error and does not change EnoughPartialSig; valid ones are accepted; EnoughPartialSig <=> >= t distinct accepted (own included); Signature errors below t; otherwise it verifies with dss.Verify, eddsa.Verify, schnorr.Verify and crypto/ed25519.Verify under the distributed key, and all participants derive byte-identical signatures. " +
	"non-trivial = at least one injected partial or an out-of-index-order delivery; distinct = distinct rendered case" +
	" Added after the sensitivity rounds: long-term and one-time thresholds drawn independently (T = max); each receiver issues its own partial at a generated position of its delivery sequence; Signature() is probed at generated points of the delivery sequence (error below t, no lasting effect); after Signature() the returned bytes are overwritten, late valid partials must be accepted, a late invalid one refused, PartialSig() and Signature() unchanged."

func TestC12_DSS(t *testing.T) {
	ev := evFor("C12")
	ev.Rule(c12Rule)
	rcheck(t, 1200, 60000, func(t *rapid.T) {
		real := tier() == "thorough" && rapid.IntRange(0, 4).Draw(t, "realdkg") == 0
		c12Case(t, ev, real)
	})
}
