//go:build !constantTime

package harness

// C13 — PVSS (share/pvss) and DLEQ proofs (proof/dleq).

import (
	"crypto/cipher"
	"fmt"
	"math/big"
	"testing"

	"go.dedis.ch/kyber/v4"
	"go.dedis.ch/kyber/v4/group/edwards25519"
	"go.dedis.ch/kyber/v4/group/p256"
	"go.dedis.ch/kyber/v4/proof/dleq"
	"go.dedis.ch/kyber/v4/share"
	"go.dedis.ch/kyber/v4/share/pvss"
	"pgregory.net/rapid"
)

type pvssSuiteRand struct {
	pvss.Suite
	r cipher.Stream
}

func (s pvssSuiteRand) RandomStream() cipher.Stream { return s.r }

func genPVSSSuite(t *rapid.T) (pvss.Suite, *GroupInfo) {
	name := rapid.SampledFrom([]string{"ed25519", "ed25519", "p256"}).Draw(t, "suite")
	r := xofStream(genSeed(t, "rand"))
	if name == "p256" {
		return pvssSuiteRand{p256.NewBlakeSHA256P256(), r}, groupByName("p256")
	}
	return pvssSuiteRand{edwards25519.NewBlakeSHA256Ed25519(), r}, groupByName("ed25519")
}

func nonzeroScalar(t *rapid.T, gi *GroupInfo, label string) SVal {
	s := genScalar(t, gi, label)
	if s.V.Sign() == 0 {
		return SVal{S: gi.G.Scalar().One(), V: big.NewInt(1), Class: "one", Door: "fix"}
	}
	return s
}

func nonzeroPoint(t *rapid.T, gi *GroupInfo, label string) PVal {
	p := genPoint(t, gi, label)
	if p.P.Equal(nullPoint(gi)) {
		return PVal{P: basePoint(gi), Class: "base", Desc: "B(fix)", Edge: true}
	}
	return p
}

func copyPVS(s *pvss.PubVerShare) *pvss.PubVerShare {
	return &pvss.PubVerShare{
		S: share.PubShare{I: s.S.I, V: s.S.V.Clone()},
		P: dleq.Proof{C: s.P.C.Clone(), R: s.P.R.Clone(), VG: s.P.VG.Clone(), VH: s.P.VH.Clone()},
	}
}

// mutateField changes one component of a share to a really different value.
func mutateField(t *rapid.T, gi *GroupInfo, s *pvss.PubVerShare, label string) string {
	f := rapid.SampledFrom([]string{"S.V", "P.C", "P.R", "P.VG", "P.VH"}).Draw(t, label)
	g := gi.G
	dp := nonzeroPoint(t, gi, label+".dp").P
	ds := nonzeroScalar(t, gi, label+".ds").S
	switch f {
	case "S.V":
		s.S.V = g.Point().Add(s.S.V, dp)
	case "P.C":
		s.P.C = g.Scalar().Add(s.P.C, ds)
	case "P.R":
		s.P.R = g.Scalar().Add(s.P.R, ds)
	case "P.VG":
		s.P.VG = g.Point().Add(s.P.VG, dp)
	case "P.VH":
		s.P.VH = g.Point().Add(s.P.VH, dp)
	}
	return f
}

func c13PVSS(t *rapid.T, ev *evProp) {
	suite, gi := genPVSSSuite(t)
	g := gi.G
	n := rapid.IntRange(2, 10).Draw(t, "n")
	th := rapid.IntRange(1, n).Draw(t, "t")
	secret := genScalar(t, gi, "secret")
	H := nonzeroPoint(t, gi, "H")
	G := g.Point().Base()
	ks := xofStream(genSeed(t, "keys"))
	x := make([]kyber.Scalar, n)
	X := make([]kyber.Point, n)
	for i := range x {
		for {
			x[i] = g.Scalar().Pick(ks)
			if !x[i].Equal(g.Scalar().Zero()) {
				break
			}
		}
		X[i] = g.Point().Mul(x[i], nil)
	}
	ctx := fmt.Sprintf("pvss group=%s t=%d n=%d secret=%s H=%s", gi.Name, th, n, secret, H.Desc)
	key := func(w string) string { return "C13/pvss/" + gi.Name + "/" + w }
	enc, pub, err := pvss.EncShares(suite, H.P, X, secret.S, uint32(th))
	if err != nil {
		violationOrKnown(t, ev, key("EncShares"), "EncShares failed: %v\n%s", err, ctx)
		return
	}
	sH := make([]kyber.Point, n)
	for i := range sH {
		sH[i] = pub.Eval(uint32(i)).V
	}
	K, E, err := pvss.VerifyEncShareBatch(suite, H.P, X, sH, pub, enc)
	if err != nil || len(K) != n || len(E) != n {
		violationOrKnown(t, ev, key("VerifyEncShareBatch"), "honest encrypted shares: %d/%d accepted, err=%v\n%s", len(E), n, err, ctx)
		return
	}
	gc := enc[0].P.C
	dec := make([]*pvss.PubVerShare, n)
	for i := range dec {
		d, err := pvss.DecShare(suite, H.P, X[i], sH[i], x[i], gc, enc[i])
		if err != nil {
			violationOrKnown(t, ev, key("DecShare"), "honest DecShare %d failed: %v\n%s", i, err, ctx)
			return
		}
		dec[i] = d
		if err := pvss.VerifyDecShare(suite, G, X[i], enc[i], d); err != nil {
			violationOrKnown(t, ev, key("VerifyDecShare"), "honest decrypted share %d rejected: %v\n%s", i, err, ctx)
		}
		// a decrypted share is s_i * G
		if !d.S.V.Equal(g.Point().Mul(g.Scalar().Inv(x[i]), enc[i].S.V)) {
			violationOrKnown(t, ev, key("DecShare-value"), "decrypted share %d is not x^-1 * encrypted share\n%s", i, ctx)
		}
	}
	want := g.Point().Mul(secret.S, nil)
	// recovery from a random subset / order: the others are replaced by garbage
	m := rapid.IntRange(0, n).Draw(t, "nvalid")
	perm := rapid.Permutation(seqInts(n)).Draw(t, "perm")
	valid := map[int]bool{}
	for _, i := range perm[:m] {
		valid[i] = true
	}
	order := rapid.Permutation(seqInts(n)).Draw(t, "order")
	var rX []kyber.Point
	var rE, rD []*pvss.PubVerShare
	for _, i := range order {
		rX, rE = append(rX, X[i]), append(rE, enc[i])
		if valid[i] {
			rD = append(rD, dec[i])
		} else {
			bad := copyPVS(dec[i])
			mutateField(t, gi, bad, fmt.Sprintf("garbage%d", i))
			rD = append(rD, bad)
		}
	}
	// a trustee's message may arrive more than once: further copies of (key, enc, dec) triples at
	// generated positions of the lists, not necessarily next to the first copy; a copy adds nothing
	// to the number of distinct valid shares
	for k := rapid.IntRange(0, 3).Draw(t, "repeats"); k > 1; k-- {
		src := uniformInt(t, 0, len(rX)-1, "repeatOf")
		pos := uniformInt(t, 0, len(rX), "repeatAt")
		x0, e0, d0 := rX[src], rE[src], rD[src]
		rX = append(rX[:pos], append([]kyber.Point{x0}, rX[pos:]...)...)
		rE = append(rE[:pos], append([]*pvss.PubVerShare{e0}, rE[pos:]...)...)
		rD = append(rD[:pos], append([]*pvss.PubVerShare{d0}, rD[pos:]...)...)
		order = append(order[:pos], append([]int{order[src]}, order[pos:]...)...)
	}
	before := 0
	for k := range rX {
		if pvss.VerifyDecShare(suite, G, rX[k], rE[k], rD[k]) == nil {
			before++
		}
	}
	rec, err := pvss.RecoverSecret(suite, G, rX, rE, rD, uint32(th), uint32(n))
	// The caller's slices must still hold the same m verifiable (key, encrypted share, decrypted share)
	// triples afterwards: a verification pass that filters one slice in place misaligns them, and the
	// next use of the same slices no longer finds the t valid shares that were supplied.
	still := 0
	for k := range rX {
		if pvss.VerifyDecShare(suite, G, rX[k], rE[k], rD[k]) == nil {
			still++
		}
	}
	if still != before {
		violationOrKnown(t, ev, key("RecoverSecret-input-misaligned"), "after RecoverSecret only %d of the caller's %d valid (key, enc, dec) triples still verify (order %v, valid %v)\n%s", still, before, order, valid, ctx)
	}
	if rec2, err2 := pvss.RecoverSecret(suite, G, rX, rE, rD, uint32(th), uint32(n)); (err == nil) != (err2 == nil) || (err == nil && !rec.Equal(rec2)) {
		violationOrKnown(t, ev, key("RecoverSecret-repeat"), "a second RecoverSecret on the same arguments gives err=%v, the first gave err=%v (%d valid shares, t=%d, order %v, valid %v)\n%s", err2, err, m, th, order, valid, ctx)
	}
	if m >= th {
		if err != nil || !rec.Equal(want) {
			violationOrKnown(t, ev, key("RecoverSecret"), "recovery from %d >= t verified shares (order %v, valid %v): err=%v, correct=%v\n%s", m, order, valid, err, err == nil && rec.Equal(want), ctx)
		}
	} else if err == nil {
		violationOrKnown(t, ev, key("RecoverSecret-refuse"), "recovery succeeded with %d < t valid shares\n%s", m, ctx)
	}
	// one mutation
	mut := rapid.SampledFrom([]string{"encfield", "encfield", "decfield", "decfield", "swapenc", "swapdec", "wrongkey", "wrongcommit", "wrongH", "wrongchallenge", "wrongsH"}).Draw(t, "mut")
	i := rapid.IntRange(0, n-1).Draw(t, "mi")
	j := (i + 1 + rapid.IntRange(0, n-2).Draw(t, "mj")) % n
	switch mut {
	case "encfield":
		e2 := make([]*pvss.PubVerShare, n)
		copy(e2, enc)
		e2[i] = copyPVS(enc[i])
		f := mutateField(t, gi, e2[i], "f")
		mut += ":" + f
		if err := pvss.VerifyEncShare(suite, H.P, X[i], sH[i], gc, e2[i]); err == nil {
			violationOrKnown(t, ev, key("enc-mutation-accepted"), "encrypted share %d with altered %s verifies\n%s", i, f, ctx)
		}
		K2, E2, berr := pvss.VerifyEncShareBatch(suite, H.P, X, sH, pub, e2)
		for _, e := range E2 {
			if e == e2[i] {
				violationOrKnown(t, ev, key("enc-mutation-in-batch"), "altered (%s) encrypted share %d is in the batch result\n%s", f, i, ctx)
			}
		}
		// exactly the right survivors: the response and the challenge of a proof concern that share
		// alone, so the other n-1 shares (with their keys, aligned, in order) stay; the share value and
		// the proof commitments enter the global challenge, so nothing verifies any more
		if f == "P.C" || f == "P.R" {
			ok := berr == nil && len(E2) == n-1 && len(K2) == n-1
			for k, q := 0, 0; ok && k < n; k++ {
				if k == i {
					continue
				}
				ok = E2[q] == e2[k] && K2[q].Equal(X[k])
				q++
			}
			if !ok {
				violationOrKnown(t, ev, key("batch-drops-correct-shares"), "with only %s of share %d altered the batch returns %d shares / %d keys, err=%v (expected the other %d, aligned)\n%s", f, i, len(E2), len(K2), berr, n-1, ctx)
			}
		} else if len(E2) != 0 {
			violationOrKnown(t, ev, key("enc-mutation-in-batch"), "%d shares verify although %s of share %d (an input of the global challenge) was altered\n%s", len(E2), f, i, ctx)
		}
		if _, err := pvss.DecShare(suite, H.P, X[i], sH[i], x[i], gc, e2[i]); err == nil {
			violationOrKnown(t, ev, key("enc-mutation-decrypted"), "DecShare accepts the altered (%s) encrypted share %d\n%s", f, i, ctx)
		}
	case "decfield":
		d2 := copyPVS(dec[i])
		f := mutateField(t, gi, d2, "f")
		mut += ":" + f
		if err := pvss.VerifyDecShare(suite, G, X[i], enc[i], d2); err == nil {
			violationOrKnown(t, ev, key("dec-mutation-accepted"), "decrypted share %d with altered %s verifies\n%s", i, f, ctx)
		}
		ds := make([]*pvss.PubVerShare, n)
		copy(ds, dec)
		ds[i] = d2
		D2, _ := pvss.VerifyDecShareBatch(suite, G, X, enc, ds)
		for _, d := range D2 {
			if d == d2 {
				violationOrKnown(t, ev, key("dec-mutation-in-batch"), "altered (%s) decrypted share %d is in the batch result\n%s", f, i, ctx)
			}
		}
	case "swapenc":
		// trustee i is given trustee j's encrypted share (different unless the shares coincide)
		if !enc[i].S.V.Equal(enc[j].S.V) {
			if err := pvss.VerifyEncShare(suite, H.P, X[i], sH[i], gc, enc[j]); err == nil {
				violationOrKnown(t, ev, key("swap-accepted"), "encrypted share of trustee %d verifies for trustee %d\n%s", j, i, ctx)
			}
		}
	case "swapdec":
		if !dec[i].S.V.Equal(dec[j].S.V) || !X[i].Equal(X[j]) {
			if err := pvss.VerifyDecShare(suite, G, X[i], enc[i], dec[j]); err == nil {
				violationOrKnown(t, ev, key("swap-accepted"), "decrypted share of trustee %d verifies for trustee %d\n%s", j, i, ctx)
			}
		}
	case "wrongkey":
		if !X[i].Equal(X[j]) {
			if err := pvss.VerifyEncShare(suite, H.P, X[j], sH[i], gc, enc[i]); err == nil {
				violationOrKnown(t, ev, key("wrongkey-accepted"), "encrypted share %d verifies under trustee %d's key\n%s", i, j, ctx)
			}
			if err := pvss.VerifyDecShare(suite, G, X[j], enc[i], dec[i]); err == nil {
				violationOrKnown(t, ev, key("wrongkey-accepted"), "decrypted share %d verifies under trustee %d's key\n%s", i, j, ctx)
			}
		}
	case "wrongsH":
		// the commitment of another evaluation point (differs unless the polynomial takes the same value)
		if !sH[i].Equal(sH[j]) {
			if err := pvss.VerifyEncShare(suite, H.P, X[i], sH[j], gc, enc[i]); err == nil {
				violationOrKnown(t, ev, key("wrongcommit-accepted"), "encrypted share %d verifies against the commitment of index %d\n%s", i, j, ctx)
			}
		}
	case "wrongcommit":
		// alter one coefficient of the public polynomial: the batch must drop every share whose
		// commitment changed (all of them: the global challenge changes as well)
		b, cs := pub.Info()
		k := rapid.IntRange(0, len(cs)-1).Draw(t, "ck")
		cs2 := make([]kyber.Point, len(cs))
		copy(cs2, cs)
		cs2[k] = g.Point().Add(cs[k], nonzeroPoint(t, gi, "cd").P)
		pub2 := share.NewPubPoly(g, b, cs2)
		sH2 := make([]kyber.Point, n)
		for q := range sH2 {
			sH2[q] = pub2.Eval(uint32(q)).V
		}
		_, E2, _ := pvss.VerifyEncShareBatch(suite, H.P, X, sH2, pub2, enc)
		if len(E2) != 0 {
			violationOrKnown(t, ev, key("wrongcommit-accepted"), "%d encrypted shares verify against a polynomial with coefficient %d altered\n%s", len(E2), k, ctx)
		}
		// the two inputs that describe the commitments disagree.  (a) altered polynomial, original
		// per-trustee commitments: the global challenge is bound to the polynomial, nothing verifies;
		// (b) original polynomial, ONE per-trustee commitment altered: exactly that share is dropped
		_, E3, _ := pvss.VerifyEncShareBatch(suite, H.P, X, sH, pub2, enc)
		if len(E3) != 0 {
			violationOrKnown(t, ev, key("wrongcommit-accepted"), "%d encrypted shares verify although the commitment polynomial passed to the batch has coefficient %d altered (per-trustee commitments unchanged)\n%s", len(E3), k, ctx)
		}
		sH3 := append([]kyber.Point(nil), sH...)
		sH3[i] = g.Point().Add(sH[i], nonzeroPoint(t, gi, "sd").P)
		K4, E4, _ := pvss.VerifyEncShareBatch(suite, H.P, X, sH3, pub, enc)
		if len(E4) != n-1 || len(K4) != n-1 {
			violationOrKnown(t, ev, key("batch-one-commitment-altered"), "with the commitment of trustee %d altered the batch keeps %d of %d shares (expected all but that one)\n%s", i, len(E4), n, ctx)
		}
	case "wrongH":
		H2 := g.Point().Add(H.P, nonzeroPoint(t, gi, "hd").P)
		if !H2.Equal(nullPoint(gi)) {
			if err := pvss.VerifyEncShare(suite, H2, X[i], sH[i], gc, enc[i]); err == nil {
				violationOrKnown(t, ev, key("wrongH-accepted"), "encrypted share %d verifies with another base H\n%s", i, ctx)
			}
		}
	case "wrongchallenge":
		gc2 := g.Scalar().Add(gc, nonzeroScalar(t, gi, "gd").S)
		if err := pvss.VerifyEncShare(suite, H.P, X[i], sH[i], gc2, enc[i]); err == nil {
			violationOrKnown(t, ev, key("wrongchallenge-accepted"), "encrypted share %d verifies against another global challenge\n%s", i, ctx)
		}
	}
	ev.Case(true, ctx+fmt.Sprintf(" nvalid=%d order=%v mut=%s", m, order, mut), "pvss:"+gi.Name, "pvss-mut:"+mut, fmt.Sprintf("pvss-enough:%v", m >= th))
}

func c13DLEQ(t *rapid.T, ev *evProp) {
	suite, gi := genPVSSSuite(t)
	g := gi.G
	G, H := nonzeroPoint(t, gi, "G"), nonzeroPoint(t, gi, "H")
	x := nonzeroScalar(t, gi, "x")
	ctx := fmt.Sprintf("dleq group=%s G=%s H=%s x=%s", gi.Name, G.Desc, H.Desc, x)
	key := func(w string) string { return "C13/dleq/" + gi.Name + "/" + w }
	p, xG, xH, err := dleq.NewDLEQProof(suite, G.P, H.P, x.S)
	if err != nil {
		violationOrKnown(t, ev, key("prove"), "NewDLEQProof failed: %v\n%s", err, ctx)
		return
	}
	if !xG.Equal(g.Point().Mul(x.S, G.P)) || !xH.Equal(g.Point().Mul(x.S, H.P)) {
		violationOrKnown(t, ev, key("points"), "returned points are not (xG, xH)\n%s", ctx)
	}
	if err := p.Verify(suite, G.P, H.P, xG, xH); err != nil {
		violationOrKnown(t, ev, key("honest"), "honest proof rejected: %v\n%s", err, ctx)
		return
	}
	if p.C.Equal(g.Scalar().Zero()) {
		return // a zero challenge (probability 2^-250) makes the claimed points irrelevant
	}
	mut := rapid.SampledFrom([]string{"C", "R", "VG", "VH", "xG", "xH", "G", "H", "swapGH"}).Draw(t, "mut")
	q := &dleq.Proof{C: p.C.Clone(), R: p.R.Clone(), VG: p.VG.Clone(), VH: p.VH.Clone()}
	mG, mH, mxG, mxH := G.P, H.P, xG, xH
	dp, ds := nonzeroPoint(t, gi, "dp").P, nonzeroScalar(t, gi, "ds").S
	applies := true
	switch mut {
	case "C":
		q.C = g.Scalar().Add(q.C, ds)
	case "R":
		q.R = g.Scalar().Add(q.R, ds)
	case "VG":
		q.VG = g.Point().Add(q.VG, dp)
	case "VH":
		q.VH = g.Point().Add(q.VH, dp)
	case "xG":
		mxG = g.Point().Add(xG, dp)
	case "xH":
		mxH = g.Point().Add(xH, dp)
	case "G":
		mG = g.Point().Add(G.P, dp)
		applies = !p.R.Equal(g.Scalar().Zero())
	case "H":
		mH = g.Point().Add(H.P, dp)
		applies = !p.R.Equal(g.Scalar().Zero())
	case "swapGH":
		mG, mH = H.P, G.P
		applies = !G.P.Equal(H.P)
	}
	if applies {
		if err := q.Verify(suite, mG, mH, mxG, mxH); err == nil {
			violationOrKnown(t, ev, key("mutation-accepted"), "proof verifies after changing %s\n%s", mut, ctx)
		}
	}
	ev.Case(applies, ctx+" mut="+mut, "dleq:"+gi.Name, "dleq-mut:"+mut)
}

const c13Rule = "two generated families over Ed25519 and P-256. (PVSS) n in 2..10 trustees, 1<=t<=n, secret from edge scalar classes incl. 0, base H from the point generator (non-identity), trustee keys from a seeded stream: all encrypted shares verify singly and in the batch, every DecShare succeeds, verifies and equals x^-1*encshare; RecoverSecret from a random subset of valid decrypted shares in a random order (the others altered in one field) returns secret*G iff >= t are valid, else errors; " +
	"then one mutation from {one field S.V/P.C/P.R/P.VG/P.VH of an encrypted or decrypted share, another trustee's encrypted/decrypted share, another trustee's key, the commitment of another index, one altered polynomial coefficient, another H, another global challenge}, applied only when the value really differs, must fail single verification, be absent from the batch results and be refused by DecShare. " +
	"(DLEQ) non-identity G,H, non-zero x: the proof verifies for (xG,xH); changing C, R, VG, VH, xG, xH, G, H or swapping G and H makes it fail. non-trivial = every PVSS case (each carries a negative check) and every DLEQ case whose mutation applies; distinct = distinct rendered case" +
	" Added after the sensitivity rounds: after RecoverSecret the caller's triples still verify and a repeat agrees; VerifyEncShareBatch with disagreeing polynomial / per-trustee commitments; exact survivor set of VerifyEncShareBatch when one share's P.C / P.R is altered; TestC13_Batch: several dealers, DecShareBatch with tampered entries vs DecShare, caller slices preserved."

func TestC13_PVSS(t *testing.T) {
	ev := evFor("C13")
	ev.Rule(c13Rule)
	ev.Assume("the share index field is positional in this API and not bound by the proofs: it is not in the mutation set")
	rcheck(t, 500, 96000, func(t *rapid.T) { c13PVSS(t, ev) })
}

func TestC13_DLEQ(t *testing.T) {
	ev := evFor("C13")
	rcheck(t, 800, 160000, func(t *rapid.T) { c13DLEQ(t, ev) })
}

// c13Batch: several dealers share their secrets with the same trustees; trustee j decrypts the shares
// meant for it in ONE DecShareBatch call, some of them tampered.  The batch must keep exactly the
// correct ones, decrypt them like DecShare does, and leave the caller's slices as they were (the
// trustee goes on using them: to tell which dealer was dropped, to verify, to recover).
func c13Batch(t *rapid.T, ev *evProp) {
	suite, gi := genPVSSSuite(t)
	g := gi.G
	n := rapid.IntRange(2, 6).Draw(t, "n")
	th := rapid.IntRange(1, n).Draw(t, "t")
	m := rapid.IntRange(2, 5).Draw(t, "dealers")
	H := nonzeroPoint(t, gi, "H")
	G := g.Point().Base()
	ks := xofStream(genSeed(t, "keys"))
	x := make([]kyber.Scalar, n)
	X := make([]kyber.Point, n)
	for i := range x {
		x[i] = g.Scalar().Add(g.Scalar().Pick(ks), g.Scalar().One())
		X[i] = g.Point().Mul(x[i], nil)
	}
	j := rapid.IntRange(0, n-1).Draw(t, "trustee")
	ctx := fmt.Sprintf("pvss batch group=%s t=%d n=%d dealers=%d trustee=%d", gi.Name, th, n, m, j)
	key := func(w string) string { return "C13/pvss/" + gi.Name + "/" + w }
	var bX, bsH []kyber.Point
	var bgc []kyber.Scalar
	var bE []*pvss.PubVerShare
	good := make([]bool, m)
	for d := 0; d < m; d++ {
		enc, pub, err := pvss.EncShares(suite, H.P, X, g.Scalar().Pick(ks), uint32(th))
		if err != nil {
			violationOrKnown(t, ev, key("EncShares"), "EncShares failed: %v\n%s", err, ctx)
			return
		}
		e := enc[j]
		good[d] = true
		if rapid.IntRange(0, 2).Draw(t, fmt.Sprintf("bad%d", d)) == 0 {
			e = copyPVS(enc[j])
			mutateField(t, gi, e, fmt.Sprintf("mut%d", d))
			good[d] = false
		}
		bX, bsH, bgc, bE = append(bX, X[j]), append(bsH, pub.Eval(uint32(j)).V), append(bgc, enc[0].P.C), append(bE, e)
	}
	snapX, snapS, snapE := append([]kyber.Point(nil), bX...), append([]kyber.Point(nil), bsH...), append([]*pvss.PubVerShare(nil), bE...)
	encBytes := make([]string, m)
	for d := range bE {
		encBytes[d] = pointHex(bE[d].S.V)
	}
	K, E, D, err := pvss.DecShareBatch(suite, H.P, bX, bsH, x[j], bgc, bE)
	if err != nil {
		violationOrKnown(t, ev, key("DecShareBatch"), "DecShareBatch failed: %v\n%s", err, ctx)
		return
	}
	want := 0
	for d := 0; d < m; d++ {
		if !good[d] {
			continue
		}
		if want >= len(D) || E[want] != snapE[d] || !K[want].Equal(X[j]) {
			violationOrKnown(t, ev, key("DecShareBatch"), "the batch result does not list the correct share of dealer %d at position %d (good=%v, %d results)\n%s", d, want, good, len(D), ctx)
			return
		}
		single, err := pvss.DecShare(suite, H.P, X[j], snapS[d], x[j], bgc[d], snapE[d])
		if err != nil || !single.S.V.Equal(D[want].S.V) {
			violationOrKnown(t, ev, key("DecShareBatch"), "batch decryption of dealer %d's share differs from DecShare (err=%v)\n%s", d, err, ctx)
		}
		if err := pvss.VerifyDecShare(suite, G, X[j], snapE[d], D[want]); err != nil {
			violationOrKnown(t, ev, key("DecShareBatch"), "decrypted share of dealer %d does not verify: %v\n%s", d, err, ctx)
		}
		want++
	}
	if want != len(D) || len(K) != len(D) || len(E) != len(D) {
		violationOrKnown(t, ev, key("DecShareBatch"), "the batch kept %d shares, %d are correct (good=%v)\n%s", len(D), want, good, ctx)
	}
	// the caller's slices are what they were
	for d := 0; d < m; d++ {
		if bX[d] != snapX[d] || bsH[d] != snapS[d] || bE[d] != snapE[d] || pointHex(bE[d].S.V) != encBytes[d] {
			violationOrKnown(t, ev, key("DecShareBatch-input-disturbed"), "DecShareBatch changed the caller's slices at position %d (good=%v)\n%s", d, good, ctx)
			break
		}
	}
	nbad := 0
	for _, ok := range good {
		if !ok {
			nbad++
		}
	}
	ev.Case(nbad > 0, ctx+fmt.Sprintf(" good=%v", good), "pvss-batch", fmt.Sprintf("pvss-batch-bad:%d", nbad))
}

func TestC13_Batch(t *testing.T) {
	ev := evFor("C13")
	rcheck(t, 300, 40000, func(t *rapid.T) { c13Batch(t, ev) })
}
