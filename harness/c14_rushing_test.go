//go:build !constantTime

package harness

// C14 — the deniable (interactive) protocol against a RUSHING prover.  The master challenge of a
// step must not be computable before all provers are committed: it is derived from keys that are
// only revealed after the commitments.  The harness plays one participant itself, speaking the
// wire format (128-byte randomness commitment || prover message; then the 128-byte key), and
// always sends last in a round.  It claims to know the discrete logarithm of a random point: it
// PREDICTS the challenge c from what is public at that moment, sends V = c*X + r*B and later r.
// The prediction strategies are the ways a challenge derivation can go wrong without any honest run
// noticing (all honest parties would still agree on the challenge):
//
//	xor-of-commitments   the public commitments mixed instead of the secret keys
//	own-key-only         only one participant's contribution is used
//	zero                 nothing is mixed in
//	others-commitments   the others' commitments and the adversary's own key
//
// With a sound derivation every prediction is wrong and every honest verifier rejects.

import (
	"bytes"
	"fmt"
	"strings"
	"testing"

	"go.dedis.ch/kyber/v4"
	"go.dedis.ch/kyber/v4/proof"
	"pgregory.net/rapid"
)

const c14KeySize = 128 // proof/deniable.go: keySize

func c14DeniableRushing(t *rapid.T, ev *evProp) {
	suite, gi := genProofSuite(t)
	g := gi.G
	k := rapid.IntRange(2, 3).Draw(t, "nodes")
	mal := rapid.IntRange(0, k-1).Draw(t, "malicious")
	strategy := rapid.SampledFrom([]string{"xor-of-commitments", "xor-of-commitments", "own-key-only", "zero", "others-commitments"}).Draw(t, "strategy")
	B := nonzeroPoint(t, gi, "B").P
	X := g.Point().Pick(xofStream(genSeed(t, "X")))
	malPred := proof.Rep("X", "x", "B")
	malPts := map[string]kyber.Point{"X": X, "B": B}
	stmts := make([]*stmt, k)
	nodes := make([]*dnode, k)
	var desc []string
	for i := 0; i < k; i++ {
		if i == mal {
			desc = append(desc, fmt.Sprintf("node%d: RUSHING adversary (%s) claiming X=x*B for a random X", i, strategy))
			continue
		}
		stmts[i] = genStmt(t, gi, fmt.Sprintf("n%d", i))
		n := &dnode{i: i, seed: genSeed(t, fmt.Sprintf("noderand%d", i)), suite: suite, outbox: make(chan []byte), inbox: make(chan [][]byte), failAt: -1}
		nodes[i] = n
		prv, _ := stmts[i].prover(suite, stmts[i].secrets, false)
		vrfs := make([]proof.Verifier, k)
		for j := range vrfs {
			switch {
			case j == mal:
				vrfs[j] = malPred.Verifier(suite, malPts)
			case j != i && stmts[j] != nil:
				pj, _ := buildPred(stmts[j].branches, false)
				vrfs[j] = pj.Verifier(suite, stmts[j].points)
			}
		}
		// statements of honest nodes with a higher index are generated later: verify only lower ones
		desc = append(desc, fmt.Sprintf("node%d: %s", i, stmts[i]))
		proto := proof.DeniableProver(suite, i, prv, vrfs)
		go func() {
			defer func() {
				if p := recover(); p != nil {
					n.panic = fmt.Sprint(p)
				}
				n.done = true
				n.outbox <- nil
			}()
			n.errs = proto(n)
		}()
	}
	ctx := fmt.Sprintf("deniable/rushing group=%s nodes=%d\n  %s", gi.Name, k, strings.Join(desc, "\n  "))
	// the adversary's state
	rnd := xofStream(genSeed(t, "advrand"))
	newKey := func() (key, com []byte) {
		key = make([]byte, c14KeySize)
		rnd.XORKeyStream(key, key)
		com = make([]byte, c14KeySize)
		_, _ = suite.XOF(key).Read(com)
		return
	}
	key, com := newKey()
	r := g.Scalar().Pick(rnd)
	proofSteps := 0
	active := make([]bool, k)
	for i := range active {
		active[i] = i != mal
	}
	for round := 0; ; round++ {
		msgs := make([][]byte, k)
		any := false
		for i, n := range nodes {
			if n == nil || !active[i] {
				continue
			}
			any = true
			msgs[i] = <-n.outbox
			if n.done {
				active[i] = false
			}
		}
		if !any {
			break
		}
		// the adversary speaks last, having seen everybody else's message of this round
		if round%2 == 0 { // proof step
			var payload []byte
			switch proofSteps {
			case 0:
				mix := make([]byte, c14KeySize)
				xor := func(b []byte) {
					for j := 0; j < c14KeySize && j < len(b); j++ {
						mix[j] ^= b[j]
					}
				}
				switch strategy {
				case "xor-of-commitments":
					xor(com)
					for i, m := range msgs {
						if i != mal && len(m) >= c14KeySize {
							xor(m[:c14KeySize])
						}
					}
				case "own-key-only":
					xor(key)
				case "zero":
				case "others-commitments":
					xor(key)
					for i, m := range msgs {
						if i != mal && len(m) >= c14KeySize {
							xor(m[:c14KeySize])
						}
					}
				}
				c := g.Scalar()
				if err := suite.Read(suite.XOF(mix), c); err != nil {
					t.Fatalf("harness: cannot derive the predicted challenge: %v", err)
				}
				V := g.Point().Add(g.Point().Mul(c, X), g.Point().Mul(r, B))
				var buf bytes.Buffer
				if err := suite.Write(&buf, V); err != nil {
					t.Fatalf("harness: %v", err)
				}
				payload = buf.Bytes()
			case 1:
				var buf bytes.Buffer
				if err := suite.Write(&buf, []kyber.Scalar{r}); err != nil {
					t.Fatalf("harness: %v", err)
				}
				payload = buf.Bytes()
			}
			proofSteps++
			msgs[mal] = append(append([]byte(nil), com...), payload...)
		} else { // challenge step: reveal the key, commit to a fresh one for the next step
			msgs[mal] = key
			key, com = newKey()
		}
		for i, n := range nodes {
			if n != nil && active[i] {
				n.inbox <- msgs
			}
		}
		if round > 200 {
			t.Fatalf("harness: deniable protocol did not terminate\n%s", ctx)
		}
	}
	for i, n := range nodes {
		if n == nil {
			continue
		}
		if n.panic != "" {
			violationOrKnown(t, ev, "C14/deniable/"+gi.Name+"/panic", "node %d panicked: %s\n%s", i, n.panic, ctx)
			continue
		}
		if mal < len(n.errs) && n.errs[mal] == nil {
			violationOrKnown(t, ev, "C14/deniable/"+gi.Name+"/rushing-prover-accepted", "node %d accepted a proof of knowledge of the discrete log of a random point from a prover that sent its commitment last and predicted the challenge (%s): the challenge is computable before the provers are committed\n%s", i, strategy, ctx)
		}
		if n.errs[i] != nil {
			// an honest prover may notice nothing wrong: the adversary's messages are well-formed
			violationOrKnown(t, ev, "C14/deniable/"+gi.Name+"/prover", "honest prover %d reports %v in a run with a well-formed rushing participant\n%s", i, n.errs[i], ctx)
		}
	}
	ev.Case(true, ctx, "deniable-rushing:"+strategy, "deniable:"+gi.Name)
}

func TestC14_DeniableRushing(t *testing.T) {
	ev := evFor("C14")
	rcheck(t, 60, 3000, func(t *rapid.T) { c14DeniableRushing(t, ev) })
}

// c14SharedPredicates: predicate objects are documented as reusable.  One Rep object is placed under
// two different roots (where its secret gets different positions in the variable enumeration), and
// provers / verifiers of both roots are created and run in a generated interleaving: every proof of
// these true statements verifies, whatever was created in between.
func c14SharedPredicates(t *rapid.T, ev *evProp) {
	suite, gi := genProofSuite(t)
	g := gi.G
	B1, B2 := nonzeroPoint(t, gi, "B1").P, nonzeroPoint(t, gi, "B2").P
	x, y, z := genScalar(t, gi, "x").S, genScalar(t, gi, "y").S, genScalar(t, gi, "z").S
	pts := map[string]kyber.Point{"B1": B1, "B2": B2, "X": g.Point().Mul(x, B1), "Y": g.Point().Mul(y, B2), "Z": g.Point().Add(g.Point().Mul(z, B1), g.Point().Mul(y, B2))}
	sec := map[string]kyber.Scalar{"x": x, "y": y, "z": z}
	a := proof.Rep("X", "x", "B1")
	b := proof.Rep("Y", "y", "B2")
	c := proof.Rep("Z", "z", "B1", "y", "B2")
	roots := map[string]proof.Predicate{
		"And(a,b)":   proof.And(a, b),
		"b":          b,
		"And(b,a)":   proof.And(b, a),
		"And(c,a,b)": proof.And(c, a, b),
		"And(a,c)":   proof.And(a, c),
	}
	names := []string{"And(a,b)", "b", "And(b,a)", "And(c,a,b)", "And(a,c)"}
	type job struct {
		root string
		prv  proof.Prover
		vrf  proof.Verifier
		prf  []byte
	}
	var jobs []*job
	var hist []string
	nsteps := rapid.IntRange(3, 10).Draw(t, "nsteps")
	for s := 0; s < nsteps; s++ {
		switch rapid.SampledFrom([]string{"new", "new", "prove", "verify"}).Draw(t, "step") {
		case "new":
			rn := rapid.SampledFrom(names).Draw(t, "root")
			jobs = append(jobs, &job{root: rn, prv: roots[rn].Prover(suite, sec, pts, nil), vrf: roots[rn].Verifier(suite, pts)})
			hist = append(hist, fmt.Sprintf("create prover+verifier #%d of %s", len(jobs)-1, rn))
		case "prove":
			if len(jobs) == 0 {
				continue
			}
			k := rapid.IntRange(0, len(jobs)-1).Draw(t, "job")
			j := jobs[k]
			if j.prf != nil {
				continue
			}
			hist = append(hist, fmt.Sprintf("run prover #%d", k))
			var err error
			if pn := safely(func() { j.prf, err = proof.HashProve(suite, "shared", j.prv) }); pn != "" || err != nil {
				violationOrKnown(t, ev, "C14/hash/"+gi.Name+"/shared-predicate", "prover #%d of %s fails on a true statement: %v %s\nhistory: %s", k, j.root, err, pn, strings.Join(hist, "; "))
				return
			}
		case "verify":
			if len(jobs) == 0 {
				continue
			}
			k := rapid.IntRange(0, len(jobs)-1).Draw(t, "job")
			j := jobs[k]
			if j.prf == nil || j.vrf == nil {
				continue
			}
			hist = append(hist, fmt.Sprintf("run verifier #%d", k))
			var err error
			if pn := safely(func() { err = proof.HashVerify(suite, "shared", j.vrf, j.prf) }); pn != "" || err != nil {
				violationOrKnown(t, ev, "C14/hash/"+gi.Name+"/shared-predicate", "verifier #%d (created with its prover) rejects the honest proof of %s: %v %s\nhistory: %s", k, j.root, err, pn, strings.Join(hist, "; "))
				return
			}
			j.vrf = nil // a verifier object is used once
		}
	}
	// every proof made verifies with a fresh verifier too
	for k, j := range jobs {
		if j.prf == nil {
			continue
		}
		if err := proof.HashVerify(suite, "shared", roots[j.root].Verifier(suite, pts), j.prf); err != nil {
			violationOrKnown(t, ev, "C14/hash/"+gi.Name+"/shared-predicate", "a fresh verifier rejects the honest proof #%d of %s: %v\nhistory: %s", k, j.root, err, strings.Join(hist, "; "))
			return
		}
	}
	ev.Case(len(jobs) >= 2, "shared predicates: "+strings.Join(hist, "; "), "proof-shared-predicates", "proof:"+gi.Name)
}

func TestC14_SharedPredicates(t *testing.T) {
	ev := evFor("C14")
	rcheck(t, 200, 20000, func(t *rapid.T) { c14SharedPredicates(t, ev) })
}
