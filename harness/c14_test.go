//go:build !constantTime

package harness

// C14 — Sigma-protocol proofs (package proof): completeness for every satisfied Or-of-And-of-Rep
// predicate and branch choice, via HashProve/HashVerify and via the interactive deniable prover;
// rejection of falsified secrets, altered / truncated proofs, other points, predicates, names.

import (
	"crypto/cipher"
	"errors"
	"fmt"
	"strings"
	"testing"

	"go.dedis.ch/kyber/v4"
	"go.dedis.ch/kyber/v4/group/edwards25519"
	"go.dedis.ch/kyber/v4/group/p256"
	"go.dedis.ch/kyber/v4/pairing/bn256"
	"go.dedis.ch/kyber/v4/proof"
	"pgregory.net/rapid"
)

type proofSuiteRand struct {
	proof.Suite
	r cipher.Stream
}

func (s proofSuiteRand) RandomStream() cipher.Stream { return s.r }

func genProofSuite(t *rapid.T) (proof.Suite, *GroupInfo) {
	name := rapid.SampledFrom([]string{"ed25519", "ed25519", "p256", "bn256.G1"}).Draw(t, "suite")
	r := xofStream(genSeed(t, "rand"))
	switch name {
	case "p256":
		return proofSuiteRand{p256.NewBlakeSHA256P256(), r}, groupByName("p256")
	case "bn256.G1":
		return proofSuiteRand{bn256.NewSuiteG1(), r}, groupByName("bn256.G1")
	}
	return proofSuiteRand{edwards25519.NewBlakeSHA256Ed25519(), r}, groupByName("ed25519")
}

// a generated statement: predicate tree + public points + secrets + chosen branch
type repSpec struct {
	P     string
	terms [][2]string // (scalar name, base name)
}

type stmt struct {
	branches [][]repSpec
	proven   int
	trueB    []bool // which non-proven branches are true as well
	secrets  map[string]kyber.Scalar
	points   map[string]kyber.Point
	shared   bool // some scalar or base name is used in more than one term
}

func (s *stmt) String() string {
	var bs []string
	for _, b := range s.branches {
		var rs []string
		for _, r := range b {
			var ts []string
			for _, tm := range r.terms {
				ts = append(ts, tm[0]+"*"+tm[1])
			}
			rs = append(rs, r.P+"="+strings.Join(ts, "+"))
		}
		bs = append(bs, strings.Join(rs, " && "))
	}
	return fmt.Sprintf("[%s] proven=%d alsoTrue=%v", strings.Join(bs, " || "), s.proven, s.trueB)
}

func buildPred(branches [][]repSpec, wrapSingle bool) (proof.Predicate, []proof.Predicate) {
	var subs []proof.Predicate
	for _, b := range branches {
		var reps []proof.Predicate
		for _, r := range b {
			var sb []string
			for _, tm := range r.terms {
				sb = append(sb, tm[0], tm[1])
			}
			reps = append(reps, proof.Rep(r.P, sb...))
		}
		if len(reps) == 1 {
			subs = append(subs, reps[0])
		} else {
			subs = append(subs, proof.And(reps...))
		}
	}
	if len(subs) == 1 && !wrapSingle {
		return subs[0], subs
	}
	return proof.Or(subs...), subs
}

func genStmt(t *rapid.T, gi *GroupInfo, label string) *stmt {
	g := gi.G
	s := &stmt{secrets: map[string]kyber.Scalar{}, points: map[string]kyber.Point{}}
	scalarPool := []string{"x1", "x2", "x3", "x4", "x5", "x6"}
	basePool := []string{"B1", "B2", "B3", "B4", "B5"}
	for _, b := range basePool {
		s.points[b] = nonzeroPoint(t, gi, label+"."+b).P
	}
	for _, x := range scalarPool {
		s.secrets[x] = genScalar(t, gi, label+"."+x).S
	}
	nb := rapid.IntRange(1, 4).Draw(t, label+".branches")
	s.proven = rapid.IntRange(0, nb-1).Draw(t, label+".proven")
	used := map[string]int{}
	for b := 0; b < nb; b++ {
		nr := rapid.IntRange(1, 4).Draw(t, fmt.Sprintf("%s.b%d.reps", label, b))
		var reps []repSpec
		for r := 0; r < nr; r++ {
			nt := rapid.IntRange(1, 3).Draw(t, fmt.Sprintf("%s.b%d.r%d.terms", label, b, r))
			rs := repSpec{P: fmt.Sprintf("P%d_%d", b, r)}
			for k := 0; k < nt; k++ {
				x := rapid.SampledFrom(scalarPool).Draw(t, fmt.Sprintf("%s.b%d.r%d.t%d.x", label, b, r, k))
				B := rapid.SampledFrom(basePool).Draw(t, fmt.Sprintf("%s.b%d.r%d.t%d.B", label, b, r, k))
				rs.terms = append(rs.terms, [2]string{x, B})
				used[x]++
				used[B]++
			}
			reps = append(reps, rs)
		}
		s.branches = append(s.branches, reps)
		isTrue := b == s.proven || rapid.Bool().Draw(t, fmt.Sprintf("%s.b%d.true", label, b))
		s.trueB = append(s.trueB, isTrue)
		for _, r := range reps {
			if isTrue {
				P := nullPoint(gi)
				for _, tm := range r.terms {
					P = g.Point().Add(P, g.Point().Mul(s.secrets[tm[0]], s.points[tm[1]]))
				}
				s.points[r.P] = P
			} else {
				s.points[r.P] = g.Point().Pick(xofStream(genSeed(t, fmt.Sprintf("%s.%s.rnd", label, r.P))))
			}
		}
	}
	for _, c := range used {
		if c > 1 {
			s.shared = true
		}
	}
	return s
}

// freeResponse: some branch has a secret whose bases cancel (x*B + x*(-B)) in every representation of
// that branch that uses it.  The response for that secret is then multiplied by the identity in every
// verification equation: no verifier can distinguish two values of it, so a proof that differs only
// there is not "altered to a semantically different value".
func (s *stmt) freeResponse(gi *GroupInfo) bool {
	for _, br := range s.branches {
		constrained := map[string]bool{}
		seen := map[string]bool{}
		for _, r := range br {
			sum := map[string]kyber.Point{}
			for _, tm := range r.terms {
				if sum[tm[0]] == nil {
					sum[tm[0]] = nullPoint(gi)
				}
				sum[tm[0]] = gi.G.Point().Add(sum[tm[0]], s.points[tm[1]])
			}
			for x, b := range sum {
				seen[x] = true
				if !b.Equal(nullPoint(gi)) {
					constrained[x] = true
				}
			}
		}
		for x := range seen {
			if !constrained[x] {
				return true
			}
		}
	}
	return false
}

// sameBranchValues: two Or-branches with the same shape whose public points and bases are equal by
// value, position by position.
func sameBranchValues(s *stmt, gi *GroupInfo, a, b []repSpec) bool {
	if len(a) != len(b) {
		return false
	}
	for i := range a {
		if len(a[i].terms) != len(b[i].terms) || !s.points[a[i].P].Equal(s.points[b[i].P]) {
			return false
		}
		for j := range a[i].terms {
			if !s.points[a[i].terms[j][1]].Equal(s.points[b[i].terms[j][1]]) {
				return false
			}
		}
	}
	return true
}

// allBasesNull: every base used in the given branches is the identity.
func allBasesNull(s *stmt, gi *GroupInfo, brs ...[]repSpec) bool {
	for _, br := range brs {
		for _, r := range br {
			for _, tm := range r.terms {
				if !s.points[tm[1]].Equal(nullPoint(gi)) {
					return false
				}
			}
		}
	}
	return true
}

func (s *stmt) prover(suite proof.Suite, secrets map[string]kyber.Scalar, wrapSingle bool) (proof.Prover, proof.Predicate) {
	pred, _ := buildPred(s.branches, wrapSingle)
	choice := map[proof.Predicate]int{}
	if len(s.branches) > 1 || wrapSingle {
		choice[pred] = s.proven
	}
	return pred.Prover(suite, secrets, s.points, choice), pred
}

func c14Hash(t *rapid.T, ev *evProp) {
	suite, gi := genProofSuite(t)
	g := gi.G
	st := genStmt(t, gi, "s")
	wrap := len(st.branches) == 1 && rapid.Bool().Draw(t, "wrapsingle")
	name := rapid.SampledFrom([]string{"", "proto", "another protocol name"}).Draw(t, "protoname")
	ctx := fmt.Sprintf("proof group=%s name=%q wrapSingleOr=%v stmt=%s", gi.Name, name, wrap, st)
	key := func(w string) string { return "C14/hash/" + gi.Name + "/" + w }
	prv, pred := st.prover(suite, st.secrets, wrap)
	var prf []byte
	var err error
	if pn := safely(func() { prf, err = proof.HashProve(suite, name, prv) }); pn != "" {
		violationOrKnown(t, ev, key("prove-panic"), "HashProve panicked: %s\n%s", pn, ctx)
		return
	}
	if err != nil {
		violationOrKnown(t, ev, key("prove"), "HashProve failed on a true statement: %v\n%s", err, ctx)
		return
	}
	verify := func(pr proof.Predicate, pts map[string]kyber.Point, nm string, p []byte) (e error, pn string) {
		pn = safely(func() { e = proof.HashVerify(suite, nm, pr.Verifier(suite, pts), p) })
		return
	}
	if e, pn := verify(pred, st.points, name, prf); e != nil || pn != "" {
		violationOrKnown(t, ev, key("complete"), "honest proof rejected: %v %s\n%s", e, pn, ctx)
		return
	}
	// the same Prover value run again (a prover handed to several verifiers, or to a second deniable
	// round): every run yields a proof of the same true statement that verifies
	for run := 2; run <= 1+rapid.IntRange(0, 2).Draw(t, "reruns"); run++ {
		var prfN []byte
		var errN error
		if pn := safely(func() { prfN, errN = proof.HashProve(suite, name, prv) }); pn != "" || errN != nil {
			violationOrKnown(t, ev, key("prove-again"), "run %d of the same Prover fails: %v %s\n%s", run, errN, pn, ctx)
			return
		}
		if e, pn := verify(pred, st.points, name, prfN); e != nil || pn != "" {
			violationOrKnown(t, ev, key("complete-again"), "the proof from run %d of the same Prover is rejected: %v %s\n%s", run, e, pn, ctx)
			return
		}
	}
	if e, pn := verify(pred, st.points, name, prf); e != nil || pn != "" {
		violationOrKnown(t, ev, key("complete"), "the first proof is rejected after the Prover ran again: %v %s\n%s", e, pn, ctx)
		return
	}
	neg := rapid.SampledFrom([]string{"falsify-secret", "bitflip", "bitflip", "truncate", "other-point", "other-base", "drop-term", "reorder-branches", "other-name", "swap-proofs"}).Draw(t, "neg")
	applies := true
	reject := func(e error, pn string, what string) {
		if pn != "" {
			violationOrKnown(t, ev, "C04/proof/"+gi.Name+"/verify-panic", "HashVerify panicked (%s): %s\n%s", what, pn, ctx)
		} else if e == nil {
			violationOrKnown(t, ev, key("sound-"+neg), "%s: accepted\n%s", what, ctx)
		}
	}
	switch neg {
	case "falsify-secret":
		// one secret used by the proven branch gets another value: the branch is now false for the prover
		var names []string
		for _, r := range st.branches[st.proven] {
			for _, tm := range r.terms {
				names = append(names, tm[0])
			}
		}
		x := rapid.SampledFrom(names).Draw(t, "fx")
		bad := map[string]kyber.Scalar{}
		for k, v := range st.secrets {
			bad[k] = v
		}
		bad[x] = g.Scalar().Add(st.secrets[x], nonzeroScalar(t, gi, "fd").S)
		// the changed assignment may still satisfy the branch (e.g. bases B and -B cancel): then
		// the statement is not false for this prover and nothing may be concluded
		stillTrue := true
		for _, r := range st.branches[st.proven] {
			P := nullPoint(gi)
			for _, tm := range r.terms {
				P = g.Point().Add(P, g.Point().Mul(bad[tm[0]], st.points[tm[1]]))
			}
			if !P.Equal(st.points[r.P]) {
				stillTrue = false
			}
		}
		if stillTrue {
			applies = false
			break
		}
		prv2, _ := st.prover(suite, bad, wrap)
		var p2 []byte
		var e2 error
		if pn := safely(func() { p2, e2 = proof.HashProve(suite, name, prv2) }); pn != "" {
			violationOrKnown(t, ev, key("prove-panic"), "HashProve panicked on falsified secrets: %s\n%s", pn, ctx)
		} else if e2 == nil {
			e, pn := verify(pred, st.points, name, p2)
			reject(e, pn, "proof made with a wrong value for "+x)
		}
	case "bitflip":
		if st.freeResponse(gi) {
			ev.Assume("proof byte mutations are not judged on statements in which the bases of some secret cancel (its response is unconstrained by the verification equations)")
			applies = false
			break
		}
		pos := uniformInt(t, 0, len(prf)*8-1, "bit")
		m := append([]byte(nil), prf...)
		m[pos/8] ^= 1 << uint(pos%8)
		e, pn := verify(pred, st.points, name, m)
		reject(e, pn, fmt.Sprintf("proof with bit %d of %d flipped", pos, len(prf)*8))
	case "truncate":
		l := uniformInt(t, 0, len(prf)-1, "len")
		e, pn := verify(pred, st.points, name, prf[:l])
		reject(e, pn, fmt.Sprintf("proof truncated to %d of %d bytes", l, len(prf)))
	case "other-point":
		r := st.branches[rapid.IntRange(0, len(st.branches)-1).Draw(t, "opb")]
		P := r[rapid.IntRange(0, len(r)-1).Draw(t, "opr")].P
		pts := map[string]kyber.Point{}
		for k, v := range st.points {
			pts[k] = v
		}
		pts[P] = g.Point().Add(st.points[P], nonzeroPoint(t, gi, "opd").P)
		e, pn := verify(pred, pts, name, prf)
		reject(e, pn, "verification with public point "+P+" replaced")
	case "other-base":
		// replace a base that is actually used by some term
		var bs []string
		for _, b := range st.branches {
			for _, r := range b {
				for _, tm := range r.terms {
					bs = append(bs, tm[1])
				}
			}
		}
		B := rapid.SampledFrom(bs).Draw(t, "ob")
		pts := map[string]kyber.Point{}
		for k, v := range st.points {
			pts[k] = v
		}
		pts[B] = g.Point().Add(st.points[B], nonzeroPoint(t, gi, "obd").P)
		e, pn := verify(pred, pts, name, prf)
		reject(e, pn, "verification with base "+B+" replaced")
	case "drop-term":
		b := rapid.IntRange(0, len(st.branches)-1).Draw(t, "dtb")
		r := rapid.IntRange(0, len(st.branches[b])-1).Draw(t, "dtr")
		if len(st.branches[b][r].terms) < 2 {
			applies = false
			break
		}
		br := make([][]repSpec, len(st.branches))
		for i := range br {
			br[i] = append([]repSpec(nil), st.branches[i]...)
		}
		rs := br[b][r]
		br[b][r] = repSpec{P: rs.P, terms: rs.terms[:len(rs.terms)-1]}
		p2, _ := buildPred(br, wrap)
		e, pn := verify(p2, st.points, name, prf)
		reject(e, pn, fmt.Sprintf("verification against the predicate with the last term of %s dropped", rs.P))
	case "reorder-branches":
		if len(st.branches) < 2 {
			applies = false
			break
		}
		br := append([][]repSpec(nil), st.branches...)
		i := rapid.IntRange(0, len(br)-2).Draw(t, "rb")
		// Exchanging two branches that are the same statement by value (same shape, equal public points
		// and bases position by position - point NAMES are not part of a proof), or whose bases are all
		// the identity (every equation reads O = O), gives the statement that was proven: not a mutation.
		if sameBranchValues(st, gi, br[i], br[i+1]) || allBasesNull(st, gi, br[i], br[i+1]) {
			applies = false
			break
		}
		br[i], br[i+1] = br[i+1], br[i]
		p2, _ := buildPred(br, wrap)
		e, pn := verify(p2, st.points, name, prf)
		reject(e, pn, fmt.Sprintf("verification against the predicate with branches %d and %d exchanged", i, i+1))
	case "other-name":
		// The protocol name only enters through the challenge c.  For a plain conjunction of
		// representations whose public points are ALL the identity (secret 0, or cancelling terms) the
		// verification equation V = sum r_i*B_i + c*P does not depend on c at all, so the proof is
		// valid under every name - a property of the degenerate statement, not of the library.
		// (a single-branch Or is transmitted like its only branch: no sub-challenges are sent)
		if len(st.branches) == 1 {
			dep := false
			for _, r := range st.branches[0] {
				if !st.points[r.P].Equal(nullPoint(gi)) {
					dep = true
				}
			}
			if !dep {
				applies = false
				break
			}
		}
		e, pn := verify(pred, st.points, name+"x", prf)
		reject(e, pn, "verification under another protocol name")
	case "swap-proofs":
		// a second honest proof of the same statement: responses of one spliced after commits of the other
		prvB, _ := st.prover(proofSuiteRand{suite, xofStream(genSeed(t, "rand2"))}, st.secrets, wrap)
		p2, e2 := proof.HashProve(proofSuiteRand{suite, xofStream(genSeed(t, "rand3"))}, name, prvB)
		if e2 != nil || len(p2) != len(prf) || string(p2) == string(prf) {
			applies = false
			break
		}
		if st.freeResponse(gi) {
			applies = false
			break
		}
		cut := uniformInt(t, 1, len(prf)-1, "cut")
		m := append(append([]byte(nil), prf[:cut]...), p2[cut:]...)
		if string(m) == string(prf) || string(m) == string(p2) {
			applies = false
			break
		}
		e, pn := verify(pred, st.points, name, m)
		reject(e, pn, fmt.Sprintf("splice of two honest proofs at byte %d", cut))
	}
	nontrivial := applies || (len(st.branches) >= 2 && st.proven != 0) || st.shared
	ev.Case(nontrivial, ctx+" neg="+neg, "proof:"+gi.Name, "proof-neg:"+neg, fmt.Sprintf("proof-branches:%d", len(st.branches)), fmt.Sprintf("proof-applies:%v", applies))
}

// ------------------------------------------------------------------ deniable (interactive) prover

type dnode struct {
	i      int
	seed   []byte
	suite  proof.Suite
	outbox chan []byte
	inbox  chan [][]byte
	done   bool
	errs   []error
	panic  string
	failAt int // from its failAt-th Step on, every Step of this node fails (transport error); -1: never
	steps  int
}

func (n *dnode) Step(msg []byte) ([][]byte, error) {
	if n.failAt >= 0 && n.steps >= n.failAt {
		n.steps++
		return nil, errors.New("harness: transport failure") // permanent from then on
	}
	n.steps++
	n.outbox <- msg
	return <-n.inbox, nil
}

func (n *dnode) Random() kyber.XOF { return n.suite.XOF(n.seed) }

func c14Deniable(t *rapid.T, ev *evProp) {
	suite, gi := genProofSuite(t)
	g := gi.G
	k := rapid.IntRange(2, 4).Draw(t, "nodes")
	stmts := make([]*stmt, k)
	falsified := make([]bool, k)
	for i := range stmts {
		stmts[i] = genStmt(t, gi, fmt.Sprintf("n%d", i))
	}
	bad := -1
	if rapid.Bool().Draw(t, "negative") {
		bad = rapid.IntRange(0, k-1).Draw(t, "badnode")
		falsified[bad] = true
	}
	nodes := make([]*dnode, k)
	verifies := make([][]int, k)
	var desc []string
	// optionally one participant's transport fails at its first or second step: its run aborts before
	// any verification can have completed, so it must not report any peer's proof as accepted
	aborted := -1
	if rapid.IntRange(0, 3).Draw(t, "abort") == 0 {
		aborted = rapid.IntRange(0, k-1).Draw(t, "abortnode")
	}
	for i := range nodes {
		n := &dnode{i: i, seed: genSeed(t, fmt.Sprintf("noderand%d", i)), suite: suite, outbox: make(chan []byte), inbox: make(chan [][]byte), failAt: -1}
		if i == aborted {
			n.failAt = rapid.IntRange(0, 1).Draw(t, "abortstep")
		}
		nodes[i] = n
		secrets := stmts[i].secrets
		if falsified[i] {
			secrets = map[string]kyber.Scalar{}
			for kk, v := range stmts[i].secrets {
				secrets[kk] = v
			}
			x := stmts[i].branches[stmts[i].proven][0].terms[0][0]
			secrets[x] = g.Scalar().Add(secrets[x], g.Scalar().One())
			// if the changed assignment still satisfies the branch the node is not cheating
			stillTrue := true
			for _, r := range stmts[i].branches[stmts[i].proven] {
				P := nullPoint(gi)
				for _, tm := range r.terms {
					P = g.Point().Add(P, g.Point().Mul(secrets[tm[0]], stmts[i].points[tm[1]]))
				}
				if !P.Equal(stmts[i].points[r.P]) {
					stillTrue = false
				}
			}
			if stillTrue {
				falsified[i] = false
				bad = -1
			}
		}
		prv, _ := stmts[i].prover(suite, secrets, false)
		vrfs := make([]proof.Verifier, k)
		for j := range vrfs {
			if j != i && (j == (i+1)%k || rapid.Bool().Draw(t, fmt.Sprintf("v%d.%d", i, j))) {
				pj, _ := buildPred(stmts[j].branches, false)
				vrfs[j] = pj.Verifier(suite, stmts[j].points)
				verifies[i] = append(verifies[i], j)
			}
		}
		desc = append(desc, fmt.Sprintf("node%d: %s verifies %v", i, stmts[i], verifies[i]))
		proto := proof.DeniableProver(suite, i, prv, vrfs)
		go func() {
			defer func() {
				if p := recover(); p != nil {
					n.panic = fmt.Sprint(p)
				}
				n.done = true
				n.outbox <- nil
			}()
			n.errs = proto(n)
		}()
	}
	ctx := fmt.Sprintf("deniable group=%s nodes=%d falsified=%d aborted=%d\n  %s", gi.Name, k, bad, aborted, strings.Join(desc, "\n  "))
	// lock-step relay: collect one message from every active node, hand all of them to everybody
	active := make([]bool, k)
	for i := range active {
		active[i] = true
	}
	for rounds := 0; ; rounds++ {
		msgs := make([][]byte, k)
		any := false
		for i, n := range nodes {
			if !active[i] {
				continue
			}
			any = true
			msgs[i] = <-n.outbox
			if n.done {
				active[i] = false
			}
		}
		if !any {
			break
		}
		if aborted >= 0 && nodes[aborted].done {
			// the aborted run is over and only its verdicts are judged; the other participants would
			// wait for the missing one (liveness under drop-outs is not part of the property) - they are
			// left blocked on purpose
			break
		}
		for i, n := range nodes {
			if active[i] {
				n.inbox <- msgs
			}
		}
		if rounds > 200 {
			t.Fatalf("harness: deniable protocol did not terminate\n%s", ctx)
		}
	}
	for i, n := range nodes {
		if aborted >= 0 && i != aborted {
			continue // still blocked, see above
		}
		if n.panic != "" {
			violationOrKnown(t, ev, "C14/deniable/"+gi.Name+"/panic", "node %d panicked: %s\n%s", i, n.panic, ctx)
			continue
		}
		if i == aborted {
			for _, j := range verifies[i] {
				if n.errs[j] == nil {
					violationOrKnown(t, ev, "C14/deniable/"+gi.Name+"/aborted-run-accepts", "node %d's run was aborted by a transport failure at its step %d, before any verification could complete, yet it reports the proof of node %d as accepted\n%s", i, n.failAt, j, ctx)
				}
			}
			continue
		}
		for _, j := range verifies[i] {
			e := n.errs[j]
			if j == aborted {
				continue // the aborted participant's proof is incomplete: any verdict but a panic is fine
			}
			if falsified[j] {
				if e == nil {
					violationOrKnown(t, ev, "C14/deniable/"+gi.Name+"/sound", "node %d accepted the proof of node %d, whose secrets do not satisfy its claimed branch\n%s", i, j, ctx)
				}
			} else if e != nil {
				violationOrKnown(t, ev, "C14/deniable/"+gi.Name+"/complete", "node %d rejected the honest proof of node %d: %v\n%s", i, j, e, ctx)
			}
		}
		if !falsified[i] && n.errs[i] != nil {
			violationOrKnown(t, ev, "C14/deniable/"+gi.Name+"/prover", "honest prover %d reports %v\n%s", i, n.errs[i], ctx)
		}
	}
	ev.Case(true, ctx, "deniable:"+gi.Name, fmt.Sprintf("deniable-nodes:%d", k), fmt.Sprintf("deniable-negative:%v", bad >= 0))
}

const c14Rule = "two generated families over Ed25519, P-256 and BN256-G1. (hash) a predicate tree Or of 1..4 branches, each an And of 1..4 Reps with 1..3 (scalar,base) terms, scalar names from a pool of 6 and base names from a pool of 5 (so variables are shared across terms and branches), a proven branch index, edge-class secrets, non-proven branches true or with random points, optional trivial single-branch Or, three protocol names: HashProve then HashVerify must accept; " +
	"one negative from {one secret of the proven branch changed, any single bit flip of the proof, truncation at any length, a public point replaced, a used base replaced, verification against the predicate with a term dropped / two branches exchanged, another protocol name, splice of two honest proofs} must be rejected (prover error or verifier error), never a panic. " +
	"(deniable) 2..4 participants run the interactive clique protocol in lock step through a harness relay, each proving its own generated statement and verifying its successor plus a random subset; optionally one participant's secret is falsified: honest proofs are accepted by every verifier, the falsified one by none. " +
	"non-trivial = an applicable negative, or >= 2 branches with proven index != 0, or a shared variable; every deniable run; distinct = distinct rendered case" +
	" Added after the sensitivity rounds: degenerate statements (all public points identity; cancelling bases) are excluded from challenge/response mutations; one participant's transport may fail permanently at step 0/1 and must then report no peer as accepted; TestC14_DeniableRushing: the harness is a rushing participant predicting the challenge (four strategies)."

func TestC14_HashProofs(t *testing.T) {
	ev := evFor("C14")
	ev.Rule(c14Rule)
	ev.Assume("trailing bytes after a complete proof are not a mutation of the proof (HashVerify reads only what the predicate needs); bases are non-identity points")
	rcheck(t, 900, 200000, func(t *rapid.T) { c14Hash(t, ev) })
}

func TestC14_Deniable(t *testing.T) {
	ev := evFor("C14")
	rcheck(t, 120, 24000, func(t *rapid.T) { c14Deniable(t, ev) })
}
