//go:build !constantTime

package harness

// C15 — forged pair-shuffle transcripts, one adversary per verifier equation.
//
// The claimed output is an invertible LINEAR relation of the input ciphertexts that is not a
// permutation (a homomorphic sum, a scalar multiple, a shear, a random invertible matrix), so it is
// not a shuffle.  For every check the verifier performs there is a cheating prover whose transcript
// satisfies ALL the other checks:
//
//	bind-both    sigma, W, D consistent with the relation; the embedded simple shuffle is an honest
//	             one about unrelated vectors                 (stopped only by the R/S binding)
//	bind-R       as above but S_i = C_i + lambda*D_i is what the simple shuffle talks about (only R is unrelated)
//	bind-S       ... only S is unrelated
//	eq33         the honest protocol for the identity permutation, but the response vector sigma is
//	             chosen after the challenge so that (34)/(35) hold  (stopped only by (33))
//	simple-link  R and S are bound and D encodes the relation; the simple k-shuffle proof is forged so
//	             that every Theta equation but the j-th holds       (stopped only by that equation)
//
// A reference verifier written in the harness, which can be told to skip exactly one check, accepts
// each forged transcript when the designated check is skipped (self-check of the adversary: it is
// precisely one equation away from acceptance) and the library verifier must reject it.

import (
	"errors"
	"fmt"
	"math/big"

	"go.dedis.ch/kyber/v4"
	"go.dedis.ch/kyber/v4/proof"
	"go.dedis.ch/kyber/v4/shuffle"
	"pgregory.net/rapid"
)

type fSsa0 struct{ X, Y []kyber.Point }
type fSsa1 struct{ Zt kyber.Scalar }
type fSsa2 struct{ Theta []kyber.Point }
type fSsa3 struct{ Zc kyber.Scalar }
type fSsa4 struct{ Zalpha []kyber.Scalar }

// shufRel: output = (M^T)^-1 (input + t*(G,H)) for an invertible non-permutation matrix M.
type shufRel struct {
	kind   string
	M      [][]*big.Int
	ts     []*big.Int
	xb, yb []kyber.Point
	perm   []int
	a, b   int
}

func genShufRel(t *rapid.T, e *shufEnv) *shufRel {
	g, q := e.gi.G, e.gi.Order
	k := len(e.X)
	r := &shufRel{kind: rapid.SampledFrom([]string{"sum", "scalar-multiple", "shear", "random-invertible"}).Draw(t, "mkind")}
	M := make([][]*big.Int, k)
	for i := range M {
		M[i] = make([]*big.Int, k)
		for j := range M[i] {
			M[i][j] = big.NewInt(0)
		}
	}
	r.perm = rapid.Permutation(seqInts(k)).Draw(t, "perm")
	for i := range M {
		M[i][r.perm[i]] = big.NewInt(1)
	}
	r.a = rapid.IntRange(0, k-1).Draw(t, "a")
	r.b = (r.a + 1 + rapid.IntRange(0, k-2).Draw(t, "b")) % k
	switch r.kind {
	case "sum":
		M[r.a][r.perm[r.b]] = big.NewInt(1) // row a now selects two inputs
	case "scalar-multiple":
		M[r.a][r.perm[r.a]] = big.NewInt(int64(rapid.IntRange(2, 9).Draw(t, "c")))
	case "shear":
		c, _ := genBig(t, q, "c")
		if c.Sign() == 0 {
			c = big.NewInt(3)
		}
		M[r.a][r.perm[r.b]] = c
	case "random-invertible":
		for i := range M {
			for j := range M[i] {
				M[i][j], _ = genBig(t, q, fmt.Sprintf("m%d_%d", i, j))
			}
		}
	}
	Minv := matInv(M, q)
	if Minv == nil || isPermMatrix(M) {
		return nil
	}
	r.M = M
	r.ts = make([]*big.Int, k)
	for j := range r.ts {
		r.ts[j], _ = genBig(t, q, fmt.Sprintf("t%d", j))
	}
	// Xbar_i = sum_j Minv[j][i] (X_j + t_j G)
	r.xb, r.yb = make([]kyber.Point, k), make([]kyber.Point, k)
	for i := 0; i < k; i++ {
		r.xb[i], r.yb[i] = nullPoint(e.gi), nullPoint(e.gi)
		for j := 0; j < k; j++ {
			c := scalarFromBig(g, Minv[j][i])
			tj := scalarFromBig(g, r.ts[j])
			r.xb[i] = g.Point().Add(r.xb[i], g.Point().Mul(c, g.Point().Add(e.X[j], g.Point().Mul(tj, e.G))))
			r.yb[i] = g.Point().Add(r.yb[i], g.Point().Mul(c, g.Point().Add(e.Y[j], g.Point().Mul(tj, e.H))))
		}
	}
	return r
}

// forgeSimple emits a simple k-shuffle transcript about X_i = x_i*G, Y_i = y_i*G.  drop < 0: the
// honest prover of the library (y must be gamma * a permutation of x).  drop = j: every Theta
// equation but the j-th holds, whatever x and y are: the Thetas are committed at random, the
// alphas before link j are solved forwards from the challenge and those after it backwards.
func forgeSimple(g kyber.Group, G kyber.Point, gamma kyber.Scalar, x, y []kyber.Scalar, drop, drop2 int, st interface {
	XORKeyStream(dst, src []byte)
}, pc proof.ProverContext) error {
	k := len(x)
	if drop < 0 {
		ss := shuffle.SimpleShuffle{}
		ss.Init(g, k)
		return ss.Prove(G, gamma, x, y, nil, pc)
	}
	p0 := &fSsa0{}
	for i := 0; i < k; i++ {
		p0.X = append(p0.X, g.Point().Mul(x[i], G))
		p0.Y = append(p0.Y, g.Point().Mul(y[i], G))
	}
	if err := pc.Put(p0); err != nil {
		return err
	}
	v1 := &fSsa1{}
	if err := pc.PubRand(v1); err != nil {
		return err
	}
	gt := g.Scalar().Mul(gamma, v1.Zt)
	xh, yh := make([]kyber.Scalar, k), make([]kyber.Scalar, k)
	for i := 0; i < k; i++ {
		xh[i] = g.Scalar().Sub(x[i], v1.Zt)
		yh[i] = g.Scalar().Sub(y[i], gt)
	}
	n := 2 * k // number of Theta equations
	th := make([]kyber.Scalar, n)
	p2 := &fSsa2{}
	for i := range th {
		th[i] = g.Scalar().Pick(st)
		p2.Theta = append(p2.Theta, g.Point().Mul(th[i], G))
	}
	if err := pc.Put(p2); err != nil {
		return err
	}
	v3 := &fSsa3{}
	if err := pc.PubRand(v3); err != nil {
		return err
	}
	c := v3.Zc
	al := make([]kyber.Scalar, n-1)
	// equation i reads  th_i = L_i * alpha_{i-1} - Rr_i * alpha_i  with alpha_{-1} = alpha_{n-1} = c,
	// (L_i, Rr_i) = (xh_i, yh_i) for i < k and (gamma, 1) for i >= k
	L := func(i int) kyber.Scalar {
		if i < k {
			return xh[i]
		}
		return gamma
	}
	Rr := func(i int) kyber.Scalar {
		if i < k {
			return yh[i]
		}
		return g.Scalar().One()
	}
	alpha := func(i int) kyber.Scalar {
		if i < 0 || i == n-1 {
			return c
		}
		return al[i]
	}
	for i := 0; i < drop; i++ { // forwards: alpha_i = (L_i alpha_{i-1} - th_i) / Rr_i
		v := g.Scalar().Sub(g.Scalar().Mul(L(i), alpha(i-1)), th[i])
		al[i] = g.Scalar().Div(v, Rr(i))
	}
	hi := drop
	if drop2 > drop {
		hi = drop2
	}
	for i := n - 1; i > hi; i-- { // backwards: alpha_{i-1} = (th_i + Rr_i alpha_i) / L_i
		v := g.Scalar().Add(th[i], g.Scalar().Mul(Rr(i), alpha(i)))
		al[i-1] = g.Scalar().Div(v, L(i))
	}
	if hi > drop {
		// window of links drop..hi (all over the bases Gamma, G: drop >= k): none of them holds, but
		// their SUM does - the errors cancel.  alpha_drop .. alpha_{hi-1} are free; all but the first
		// are random and alpha_drop solves  sum th_i = sum (L_i alpha_{i-1} - Rr_i alpha_i)
		for j := drop + 1; j < hi; j++ {
			al[j] = g.Scalar().Pick(st)
		}
		al[drop] = g.Scalar().Zero()
		rest := g.Scalar().Zero() // sum th_i - sum(...) with alpha_drop = 0
		for i := drop; i <= hi; i++ {
			rest = g.Scalar().Add(rest, th[i])
			rest = g.Scalar().Sub(rest, g.Scalar().Mul(L(i), alpha(i-1)))
			rest = g.Scalar().Add(rest, g.Scalar().Mul(Rr(i), alpha(i)))
		}
		// alpha_drop enters with coefficient L_{drop+1} - Rr_drop
		coef := g.Scalar().Sub(L(drop+1), Rr(drop))
		al[drop] = g.Scalar().Div(rest, coef)
	}
	for i := range al {
		if al[i] == nil { // drop == 0 leaves nothing forwards, drop == n-1 nothing backwards: all set; defensive
			al[i] = g.Scalar().Zero()
		}
	}
	return pc.Put(&fSsa4{Zalpha: al})
}

// lastPairTranscript: challenges and responses of the transcript refPairVerify read last (the
// harness runs one case at a time)
var lastPairTranscript struct {
	rho, sigma []kyber.Scalar
	tau        kyber.Scalar
}

// refPairVerify: the harness' own pair-shuffle verifier (Neff 2004, as implemented by the library)
// with the possibility to skip exactly one check.  skip: "", "bind-R", "bind-S", "bind-both", "eq33",
// "eq34", "eq35", "simple-link" (with link = index of the skipped Theta equation).
func refPairVerify(e *shufEnv, xb, yb []kyber.Point, skip string, link, link2 int) proof.Verifier {
	g := e.gi.G
	k := len(e.X)
	return func(vc proof.VerifierContext) error {
		p1 := &fEga1{A: make([]kyber.Point, k), C: make([]kyber.Point, k), U: make([]kyber.Point, k), W: make([]kyber.Point, k)}
		if err := vc.Get(p1); err != nil {
			return err
		}
		v2 := &fEga2{Zrho: make([]kyber.Scalar, k)}
		if err := vc.PubRand(v2); err != nil {
			return err
		}
		p3 := &fEga3{D: make([]kyber.Point, k)}
		if err := vc.Get(p3); err != nil {
			return err
		}
		v4 := &fEga4{}
		if err := vc.PubRand(v4); err != nil {
			return err
		}
		p5 := &fEga5{Zsigma: make([]kyber.Scalar, k)}
		if err := vc.Get(p5); err != nil {
			return err
		}
		// simple k-shuffle
		s0 := &fSsa0{X: make([]kyber.Point, k), Y: make([]kyber.Point, k)}
		if err := vc.Get(s0); err != nil {
			return err
		}
		s1 := &fSsa1{}
		if err := vc.PubRand(s1); err != nil {
			return err
		}
		s2 := &fSsa2{Theta: make([]kyber.Point, 2*k)}
		if err := vc.Get(s2); err != nil {
			return err
		}
		s3 := &fSsa3{}
		if err := vc.PubRand(s3); err != nil {
			return err
		}
		s4 := &fSsa4{Zalpha: make([]kyber.Scalar, 2*k-1)}
		if err := vc.Get(s4); err != nil {
			return err
		}
		negt := g.Scalar().Neg(s1.Zt)
		Ut, Wt := g.Point().Mul(negt, e.G), g.Point().Mul(negt, p1.Gamma)
		n := 2 * k
		alpha := func(i int) kyber.Scalar {
			if i < 0 || i == n-1 {
				return s3.Zc
			}
			return s4.Zalpha[i]
		}
		if skip == "simple-links-sum" {
			// the links link..link2 (same bases Gamma, G) are checked on their sum only
			lhs, rhs := nullPoint(e.gi), nullPoint(e.gi)
			for i := link; i <= link2; i++ {
				lhs = g.Point().Add(lhs, g.Point().Sub(g.Point().Mul(alpha(i-1), p1.Gamma), g.Point().Mul(alpha(i), e.G)))
				rhs = g.Point().Add(rhs, s2.Theta[i])
			}
			if !lhs.Equal(rhs) {
				return fmt.Errorf("simple shuffle: sum of Theta equations %d..%d", link, link2)
			}
		}
		for i := 0; i < n; i++ {
			if skip == "simple-link" && i == link {
				continue
			}
			if skip == "simple-links-sum" && i >= link && i <= link2 {
				continue
			}
			var A, B kyber.Point
			if i < k {
				A, B = g.Point().Add(s0.X[i], Ut), g.Point().Add(s0.Y[i], Wt)
			} else {
				A, B = p1.Gamma, e.G
			}
			lhs := g.Point().Sub(g.Point().Mul(alpha(i-1), A), g.Point().Mul(alpha(i), B))
			if !lhs.Equal(s2.Theta[i]) {
				return fmt.Errorf("simple shuffle: Theta equation %d", i)
			}
		}
		for i := 0; i < k; i++ {
			Bi := g.Point().Sub(g.Point().Mul(v2.Zrho[i], e.G), p1.U[i])
			R := g.Point().Add(p1.A[i], g.Point().Mul(v4.Zlambda, Bi))
			S := g.Point().Add(p1.C[i], g.Point().Mul(v4.Zlambda, p3.D[i]))
			if skip != "bind-R" && skip != "bind-both" && !R.Equal(s0.X[i]) {
				return errors.New("R binding")
			}
			if skip != "bind-S" && skip != "bind-both" && !S.Equal(s0.Y[i]) {
				return errors.New("S binding")
			}
		}
		phi1, phi2 := nullPoint(e.gi), nullPoint(e.gi)
		for i := 0; i < k; i++ {
			phi1 = g.Point().Add(phi1, g.Point().Sub(g.Point().Mul(p5.Zsigma[i], xb[i]), g.Point().Mul(v2.Zrho[i], e.X[i])))
			phi2 = g.Point().Add(phi2, g.Point().Sub(g.Point().Mul(p5.Zsigma[i], yb[i]), g.Point().Mul(v2.Zrho[i], e.Y[i])))
			if skip != "eq33" && !g.Point().Mul(p5.Zsigma[i], p1.Gamma).Equal(g.Point().Add(p1.W[i], p3.D[i])) {
				return errors.New("(33)")
			}
		}
		lastPairTranscript.rho, lastPairTranscript.sigma, lastPairTranscript.tau = v2.Zrho, p5.Zsigma, p5.Ztau
		if skip != "eq34" && !g.Point().Add(p1.Lambda1, g.Point().Mul(p5.Ztau, e.G)).Equal(phi1) {
			return errors.New("(34)")
		}
		if skip != "eq35" && !g.Point().Add(p1.Lambda2, g.Point().Mul(p5.Ztau, e.H)).Equal(phi2) {
			return errors.New("(35)")
		}
		return nil
	}
}

func c15Forged(t *rapid.T, ev *evProp) {
	e := genShufEnv(t, 2, 6)
	g, q := e.gi.G, e.gi.Order
	k := len(e.X)
	rel := genShufRel(t, e)
	if rel == nil {
		ev.Case(false, "forged: singular or permutation matrix drawn", "shuffle-forged-skipped")
		return
	}
	strategy := rapid.SampledFrom([]string{"bind-both", "bind-R", "bind-S", "eq33", "simple-link", "simple-link", "simple-links-sum"}).Draw(t, "strategy")
	link, link2 := -1, -1
	if strategy == "simple-link" {
		link = uniformInt(t, 0, 2*k-1, "link")
	}
	if strategy == "simple-links-sum" {
		// a window of at least two of the links k..2k-1 that share the bases (Gamma, G): every link in it
		// is wrong, their sum is right (an unweighted batch check of those links would accept)
		link = uniformInt(t, k, 2*k-2, "link")
		link2 = uniformInt(t, link+1, 2*k-1, "link2")
	}
	M, ts, xb, yb := rel.M, rel.ts, rel.xb, rel.yb
	ctx := fmt.Sprintf("forged pair-shuffle transcript %s relation=%s perm=%v a=%d b=%d strategy=%s link=%d..%d", e.desc, rel.kind, rel.perm, rel.a, rel.b, strategy, link, link2)
	st := xofStream(genSeed(t, "forger"))
	mul := func(a, b kyber.Scalar) kyber.Scalar { return g.Scalar().Mul(a, b) }
	prover := func(pc proof.ProverContext) error {
		gamma := g.Scalar().Pick(st)
		tau0 := g.Scalar().Pick(st)
		a, c, u, w := make([]kyber.Scalar, k), make([]kyber.Scalar, k), make([]kyber.Scalar, k), make([]kyber.Scalar, k)
		p1 := &fEga1{Gamma: g.Point().Mul(gamma, e.G), Lambda1: g.Point().Mul(g.Scalar().Neg(tau0), e.G), Lambda2: g.Point().Mul(g.Scalar().Neg(tau0), e.H)}
		for i := 0; i < k; i++ {
			a[i], c[i], u[i], w[i] = g.Scalar().Pick(st), g.Scalar().Pick(st), g.Scalar().Pick(st), g.Scalar().Pick(st)
			if strategy == "eq33" {
				c[i] = mul(gamma, a[i]) // honest: C_i = gamma*a_i*G
			}
			p1.A = append(p1.A, g.Point().Mul(a[i], e.G))
			p1.C = append(p1.C, g.Point().Mul(c[i], e.G))
			p1.U = append(p1.U, g.Point().Mul(u[i], e.G))
			p1.W = append(p1.W, g.Point().Mul(mul(gamma, w[i]), e.G))
			if strategy != "eq33" {
				// Lambda absorbs the w part of sigma = w + M*rho
				p1.Lambda1 = g.Point().Add(p1.Lambda1, g.Point().Mul(w[i], xb[i]))
				p1.Lambda2 = g.Point().Add(p1.Lambda2, g.Point().Mul(w[i], yb[i]))
			}
		}
		if err := pc.Put(p1); err != nil {
			return err
		}
		v2 := &fEga2{Zrho: make([]kyber.Scalar, k)}
		if err := pc.PubRand(v2); err != nil {
			return err
		}
		m := make([]kyber.Scalar, k) // m = M rho
		for i := 0; i < k; i++ {
			acc := new(big.Int)
			for j := 0; j < k; j++ {
				acc.Add(acc, new(big.Int).Mul(M[i][j], scalarToBig(v2.Zrho[j])))
			}
			m[i] = scalarFromBig(g, acc.Mod(acc, q))
		}
		// d_i: D_i = gamma*d_i*G
		d := make([]kyber.Scalar, k)
		for i := 0; i < k; i++ {
			if strategy == "eq33" {
				d[i] = g.Scalar().Sub(v2.Zrho[i], u[i]) // honest b_i for the identity permutation
			} else {
				d[i] = m[i]
			}
		}
		p3 := &fEga3{}
		for i := 0; i < k; i++ {
			p3.D = append(p3.D, g.Point().Mul(mul(gamma, d[i]), e.G))
		}
		if err := pc.Put(p3); err != nil {
			return err
		}
		v4 := &fEga4{}
		if err := pc.PubRand(v4); err != nil {
			return err
		}
		p5 := &fEga5{Ztau: g.Scalar().Set(tau0)}
		for i := 0; i < k; i++ {
			if strategy == "eq33" {
				p5.Zsigma = append(p5.Zsigma, m[i])
			} else {
				p5.Zsigma = append(p5.Zsigma, g.Scalar().Add(w[i], m[i]))
			}
			p5.Ztau = g.Scalar().Add(p5.Ztau, mul(v2.Zrho[i], scalarFromBig(g, ts[i])))
		}
		if err := pc.Put(p5); err != nil {
			return err
		}
		// what the verifier will compute: r_i = a_i + lambda*(rho_i - u_i), s_i = c_i + lambda*gamma*d_i
		r, s := make([]kyber.Scalar, k), make([]kyber.Scalar, k)
		for i := 0; i < k; i++ {
			r[i] = g.Scalar().Add(a[i], mul(v4.Zlambda, g.Scalar().Sub(v2.Zrho[i], u[i])))
			s[i] = g.Scalar().Add(c[i], mul(v4.Zlambda, mul(gamma, d[i])))
		}
		x, y := make([]kyber.Scalar, k), make([]kyber.Scalar, k)
		switch strategy {
		case "bind-both": // an honest simple shuffle about unrelated vectors
			for i := range x {
				x[i] = g.Scalar().Pick(st)
			}
			for i := range y {
				y[i] = mul(gamma, x[rel.perm[i]])
			}
		case "bind-R": // about S: x := s/gamma (not R)
			for i := range x {
				y[i] = s[i]
				x[i] = g.Scalar().Div(s[i], gamma)
			}
		case "bind-S": // about R: y := gamma*r (not S)
			for i := range x {
				x[i] = r[i]
				y[i] = mul(gamma, r[i])
			}
		case "eq33": // honest: s = gamma*r holds by construction
			copy(x, r)
			copy(y, s)
		case "simple-link", "simple-links-sum": // bound to R and S, which are NOT in the shuffle relation
			copy(x, r)
			copy(y, s)
		}
		return forgeSimple(g, e.G, gamma, x, y, link, link2, st, pc)
	}
	var prf []byte
	var err error
	if pn := safely(func() { prf, err = proof.HashProve(e.suite, "PairShuffle", prover) }); pn != "" || err != nil {
		t.Fatalf("harness: the forging prover failed: %v %s", err, pn)
	}
	// self-check of the adversary: skipping exactly the designated check makes the transcript acceptable,
	// and the complete reference verifier rejects it
	if err := proof.HashVerify(e.suite, "PairShuffle", refPairVerify(e, xb, yb, strategy, link, link2), prf); err != nil {
		fmt.Printf("HARNESS-ERROR: forged transcript (%s) is not one check away from acceptance: %v\n", ctx, err)
		t.Fatalf("harness self-check failed: %v", err)
	}
	if err := proof.HashVerify(e.suite, "PairShuffle", refPairVerify(e, xb, yb, "", -1, -1), prf); err == nil {
		fmt.Printf("HARNESS-ERROR: the reference verifier accepts the forged transcript (%s)\n", ctx)
		t.Fatalf("harness self-check failed")
	}
	verr, pn := pairVerify(e, e.G, e.H, e.X, e.Y, xb, yb, prf)
	if pn != "" {
		violationOrKnown(t, ev, "C04/shuffle/"+e.gi.Name+"/verify-panic", "verifier panicked on a forged transcript: %s\n%s", pn, ctx)
	} else if verr == nil {
		violationOrKnown(t, ev, "C15/pair/"+e.gi.Name+"/forged-transcript-accepted", "the verifier accepts a forged proof for an output that is a %s of the input ciphertexts, not a permutation of re-encryptions\n%s", rel.kind, ctx)
	}
	ev.Case(true, ctx, "shuffle-forged:"+rel.kind, "shuffle-forger:"+strategy, "shuffle-pair:"+e.gi.Name)
}
