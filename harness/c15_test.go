//go:build !constantTime

package harness

// C15 — verifiable shuffles: honest completeness (pair shuffle with explicit permutations, Shuffle,
// SequencesShuffle, Biffle) and rejection of everything that is not a permutation of
// re-encryptions, including transcripts forged by a malicious prover written against the
// verifier's own equations.

import (
	"bytes"
	"crypto/cipher"
	"fmt"
	"math/big"
	"testing"

	"go.dedis.ch/kyber/v4"
	"go.dedis.ch/kyber/v4/proof"
	"go.dedis.ch/kyber/v4/shuffle"
	"pgregory.net/rapid"
)

type shufEnv struct {
	suite proof.Suite
	gi    *GroupInfo
	G, H  kyber.Point
	X, Y  []kyber.Point
	desc  string
}

// genShufEnv: k ElGamal pairs (r_i*G, r_i*H + M_i) with distinct random plaintext points M_i.
func genShufEnv(t *rapid.T, kmin, kmax int) *shufEnv {
	names := []string{"ed25519", "ed25519", "p256"}
	name := rapid.SampledFrom(names).Draw(t, "suite")
	gi := groupByName(name)
	var suite proof.Suite
	r := xofStream(genSeed(t, "rand"))
	if name == "p256" {
		suite = proofSuiteRand{anonSuites()["p256"].(proof.Suite), r}
	} else {
		suite = proofSuiteRand{anonSuites()["ed25519"].(proof.Suite), r}
	}
	g := gi.G
	k := rapid.IntRange(kmin, kmax).Draw(t, "k")
	e := &shufEnv{suite: suite, gi: gi}
	if rapid.Bool().Draw(t, "customG") {
		e.G = nonzeroPoint(t, gi, "G").P
	} else {
		e.G = g.Point().Base()
	}
	h := nonzeroScalar(t, gi, "h")
	e.H = g.Point().Mul(h.S, e.G)
	st := xofStream(genSeed(t, "cipher"))
	for i := 0; i < k; i++ {
		ri := g.Scalar().Pick(st)
		M := g.Point().Pick(st)
		e.X = append(e.X, g.Point().Mul(ri, e.G))
		e.Y = append(e.Y, g.Point().Add(g.Point().Mul(ri, e.H), M))
	}
	e.desc = fmt.Sprintf("group=%s k=%d", name, k)
	return e
}

func reencrypt(e *shufEnv, pi []int, beta []kyber.Scalar) (xb, yb []kyber.Point) {
	g := e.gi.G
	for i := range pi {
		xb = append(xb, g.Point().Add(g.Point().Mul(beta[pi[i]], e.G), e.X[pi[i]]))
		yb = append(yb, g.Point().Add(g.Point().Mul(beta[pi[i]], e.H), e.Y[pi[i]]))
	}
	return
}

func pairProve(e *shufEnv, pi []int, beta []kyber.Scalar, rnd cipher.Stream) ([]byte, error) {
	ps := shuffle.PairShuffle{}
	ps.Init(e.gi.G, len(pi))
	prover := func(ctx proof.ProverContext) error {
		return ps.Prove(pi, e.G, e.H, beta, e.X, e.Y, rnd, ctx)
	}
	return proof.HashProve(e.suite, "PairShuffle", prover)
}

func pairVerify(e *shufEnv, G, H kyber.Point, X, Y, xb, yb []kyber.Point, prf []byte) (err error, pn string) {
	pn = safely(func() {
		err = proof.HashVerify(e.suite, "PairShuffle", shuffle.Verifier(e.gi.G, G, H, X, Y, xb, yb), prf)
	})
	return
}

func genBetas(t *rapid.T, gi *GroupInfo, k int) []kyber.Scalar {
	out := make([]kyber.Scalar, k)
	st := xofStream(genSeed(t, "beta"))
	for i := range out {
		if rapid.IntRange(0, 9).Draw(t, fmt.Sprintf("betaedge%d", i)) == 0 {
			out[i] = genScalar(t, gi, fmt.Sprintf("beta%d", i)).S
		} else {
			out[i] = gi.G.Scalar().Pick(st)
		}
	}
	return out
}

func c15Pair(t *rapid.T, ev *evProp) {
	e := genShufEnv(t, 2, c15MaxK())
	g := e.gi.G
	k := len(e.X)
	pi := rapid.Permutation(seqInts(k)).Draw(t, "pi")
	beta := genBetas(t, e.gi, k)
	xb, yb := reencrypt(e, pi, beta)
	ctx := fmt.Sprintf("pairshuffle %s pi=%v", e.desc, pi)
	key := func(w string) string { return "C15/pair/" + e.gi.Name + "/" + w }
	prf, err := pairProve(e, pi, beta, xofStream(genSeed(t, "prand")))
	if err != nil {
		violationOrKnown(t, ev, key("prove"), "Prove failed: %v\n%s", err, ctx)
		return
	}
	if err, pn := pairVerify(e, e.G, e.H, e.X, e.Y, xb, yb, prf); err != nil || pn != "" {
		violationOrKnown(t, ev, key("complete"), "honest shuffle proof rejected: %v %s\n%s", err, pn, ctx)
		return
	}
	neg := rapid.SampledFrom([]string{"replace-slot", "duplicate-slot", "swap-slots", "homomorphic-sum", "scale-slot", "drop-reencryption", "swapGH", "otherH", "otherG", "proof-bitflip", "proof-truncate", "other-input", "splice-outputs", "splice-bytes", "drop-output-slot", "add-output-slot", "short-ybar", "lambda-patched", "lambda-patched"}).Draw(t, "neg")
	mxb, myb := append([]kyber.Point(nil), xb...), append([]kyber.Point(nil), yb...)
	mG, mH, mX, mY, mprf := e.G, e.H, e.X, e.Y, prf
	applies := true
	i := rapid.IntRange(0, k-1).Draw(t, "i")
	j := (i + 1 + rapid.IntRange(0, k-2).Draw(t, "j")) % k
	switch neg {
	case "replace-slot":
		mxb[i] = g.Point().Add(xb[i], e.G) // X component re-randomised without the Y component
	case "duplicate-slot":
		mxb[i], myb[i] = xb[j], yb[j]
	case "swap-slots":
		mxb[i], mxb[j] = xb[j], xb[i] // only the X components: pairs are torn apart
	case "homomorphic-sum":
		mxb[i], myb[i] = g.Point().Add(xb[i], xb[j]), g.Point().Add(yb[i], yb[j])
	case "scale-slot":
		two := g.Scalar().SetInt64(2)
		mxb[i], myb[i] = g.Point().Mul(two, xb[i]), g.Point().Mul(two, yb[i])
	case "drop-reencryption":
		// output slot = another input ciphertext than the permutation says
		if pi[i] == pi[j] {
			applies = false
		}
		mxb[i], myb[i] = e.X[pi[j]], e.Y[pi[j]]
	case "swapGH":
		mG, mH = e.H, e.G
		applies = !e.G.Equal(e.H)
	case "otherH":
		mH = g.Point().Add(e.H, e.G)
	case "otherG":
		mG = g.Point().Add(e.G, e.G)
	case "proof-bitflip":
		pos := uniformInt(t, 0, len(prf)*8-1, "bit")
		mprf = append([]byte(nil), prf...)
		mprf[pos/8] ^= 1 << uint(pos%8)
	case "proof-truncate":
		mprf = prf[:uniformInt(t, 0, len(prf)-1, "len")]
	case "lambda-patched":
		// The output enters the verification only through equations (34)/(35), and those contain the
		// two LAST points of the prover's first message, Lambda1 and Lambda2.  A prover that may fix them
		// after the challenges can make any output verify; what stops it is that the challenges are a hash
		// of the complete first message.  Here: an honest proof, one output slot replaced, and
		// Lambda1/Lambda2 recomputed from the challenges and responses of the honest transcript and
		// patched into the proof bytes (for k >= 8 they lie beyond the first KiB of that message).
		lastPairTranscript.rho = nil
		if err := proof.HashVerify(e.suite, "PairShuffle", refPairVerify(e, xb, yb, "", -1, -1), prf); err != nil || len(lastPairTranscript.rho) != k {
			applies = false
			break
		}
		mxb[i] = g.Point().Add(xb[i], e.G)
		if rapid.Bool().Draw(t, "lp.sum") {
			mxb[i], myb[i] = g.Point().Add(xb[i], xb[j]), g.Point().Add(yb[i], yb[j])
		}
		tr := lastPairTranscript
		l1, l2 := g.Point().Neg(g.Point().Mul(tr.tau, e.G)), g.Point().Neg(g.Point().Mul(tr.tau, e.H))
		for q := 0; q < k; q++ {
			l1 = g.Point().Add(l1, g.Point().Sub(g.Point().Mul(tr.sigma[q], mxb[q]), g.Point().Mul(tr.rho[q], e.X[q])))
			l2 = g.Point().Add(l2, g.Point().Sub(g.Point().Mul(tr.sigma[q], myb[q]), g.Point().Mul(tr.rho[q], e.Y[q])))
		}
		pl := g.PointLen()
		off := (1 + 4*k) * pl
		mprf = append([]byte(nil), prf...)
		copy(mprf[off:], mustMarshal(t, l1))
		copy(mprf[off+pl:], mustMarshal(t, l2))
	case "drop-output-slot":
		// an output list with one ciphertext fewer / one more than the input is no permutation of it.
		// The library's vector-length test is an explicit panic: a panic counts as refusal here, a nil
		// error (for instance a recovered panic turned into "no error") is an accepted forgery
		mxb, myb = append(append([]kyber.Point(nil), xb[:i]...), xb[i+1:]...), append(append([]kyber.Point(nil), yb[:i]...), yb[i+1:]...)
	case "add-output-slot":
		mxb, myb = append(mxb, xb[i]), append(myb, yb[i])
	case "short-ybar":
		myb = myb[:k-1]
	case "other-input":
		mX = append([]kyber.Point(nil), e.X...)
		mX[i] = g.Point().Add(e.X[i], e.G)
	case "splice-outputs", "splice-bytes":
		// a second honest shuffle of the same input with another permutation and other betas
		pi2 := rapid.Permutation(seqInts(k)).Draw(t, "pi2")
		beta2 := genBetas(t, e.gi, k)
		xb2, yb2 := reencrypt(e, pi2, beta2)
		prf2, err := pairProve(e, pi2, beta2, xofStream(genSeed(t, "prand2")))
		if err != nil {
			applies = false
			break
		}
		if neg == "splice-outputs" {
			mxb, myb = xb2, yb2 // proof 1 with output 2
			same := true
			for q := range xb {
				if !xb[q].Equal(xb2[q]) || !yb[q].Equal(yb2[q]) {
					same = false
				}
			}
			applies = !same
		} else {
			cut := uniformInt(t, 1, len(prf)-1, "cut")
			if len(prf2) != len(prf) {
				applies = false
				break
			}
			mprf = append(append([]byte(nil), prf[:cut]...), prf2[cut:]...)
			applies = string(mprf) != string(prf)
		}
	}
	if applies {
		err, pn := pairVerify(e, mG, mH, mX, mY, mxb, myb, mprf)
		lengthNeg := neg == "drop-output-slot" || neg == "add-output-slot" || neg == "short-ybar"
		if pn != "" && !lengthNeg {
			violationOrKnown(t, ev, "C04/shuffle/"+e.gi.Name+"/verify-panic", "verifier panicked on %s: %s\n%s", neg, pn, ctx)
		} else if pn == "" && err == nil {
			violationOrKnown(t, ev, key("sound-"+neg), "%s accepted\n%s", neg, ctx)
		}
	}
	identity := true
	for q, p := range pi {
		if p != q {
			identity = false
		}
	}
	ev.Case(applies || !identity, ctx+" neg="+neg, "shuffle-pair:"+e.gi.Name, "shuffle-neg:"+neg, fmt.Sprintf("shuffle-k:%d", k))
}

func c15MaxK() int {
	if tier() == "thorough" {
		return 40
	}
	return 12
}

// ------------------------------------------------------------------ forged transcripts

type fEga1 struct {
	Gamma            kyber.Point
	A, C, U, W       []kyber.Point
	Lambda1, Lambda2 kyber.Point
}
type fEga2 struct{ Zrho []kyber.Scalar }
type fEga3 struct{ D []kyber.Point }
type fEga4 struct{ Zlambda kyber.Scalar }
type fEga5 struct {
	Zsigma []kyber.Scalar
	Ztau   kyber.Scalar
}

// matInv inverts a k x k matrix over Z_q (nil if singular).
func matInv(m [][]*big.Int, q *big.Int) [][]*big.Int {
	k := len(m)
	a := make([][]*big.Int, k)
	for i := range a {
		a[i] = make([]*big.Int, 2*k)
		for j := 0; j < k; j++ {
			a[i][j] = new(big.Int).Mod(m[i][j], q)
			a[i][k+j] = big.NewInt(0)
		}
		a[i][k+i] = big.NewInt(1)
	}
	for c := 0; c < k; c++ {
		p := -1
		for r := c; r < k; r++ {
			if a[r][c].Sign() != 0 {
				p = r
				break
			}
		}
		if p < 0 {
			return nil
		}
		a[c], a[p] = a[p], a[c]
		inv := new(big.Int).ModInverse(a[c][c], q)
		for j := range a[c] {
			a[c][j] = fmul(a[c][j], inv, q)
		}
		for r := 0; r < k; r++ {
			if r != c && a[r][c].Sign() != 0 {
				f := new(big.Int).Set(a[r][c])
				for j := range a[r] {
					a[r][j] = fsub(a[r][j], fmul(f, a[c][j], q), q)
				}
			}
		}
	}
	out := make([][]*big.Int, k)
	for i := range out {
		out[i] = a[i][k:]
	}
	return out
}

func isPermMatrix(m [][]*big.Int) bool {
	for i := range m {
		ones := 0
		for j := range m {
			if m[i][j].Sign() != 0 {
				if m[i][j].Cmp(big1) != 0 {
					return false
				}
				ones++
			}
		}
		if ones != 1 {
			return false
		}
	}
	for j := range m {
		ones := 0
		for i := range m {
			if m[i][j].Sign() != 0 {
				ones++
			}
		}
		if ones != 1 {
			return false
		}
	}
	return true
}

// ------------------------------------------------------------------ Shuffle, SequencesShuffle, Biffle

func c15Others(t *rapid.T, ev *evProp) {
	what := rapid.SampledFrom([]string{"Shuffle", "Sequences", "Biffle", "Simple"}).Draw(t, "what")
	switch what {
	case "Shuffle":
		e := genShufEnv(t, 2, c15MaxK())
		ctx := "shuffle.Shuffle " + e.desc
		xb, yb, prover := shuffle.Shuffle(e.gi.G, e.G, e.H, e.X, e.Y, xofStream(genSeed(t, "srand")))
		prf, err := proof.HashProve(e.suite, "PairShuffle", prover)
		if err != nil {
			violationOrKnown(t, ev, "C15/shuffle/prove", "prove failed: %v\n%s", err, ctx)
			return
		}
		if err, pn := pairVerify(e, e.G, e.H, e.X, e.Y, xb, yb, prf); err != nil || pn != "" {
			violationOrKnown(t, ev, "C15/shuffle/complete", "honest Shuffle proof rejected: %v %s\n%s", err, pn, ctx)
		}
		// the output is a permutation of re-encryptions: each output decrypts to one input plaintext
		// (checked through the proof only; here: a tampered output must fail)
		i := rapid.IntRange(0, len(xb)-1).Draw(t, "i")
		yb2 := append([]kyber.Point(nil), yb...)
		yb2[i] = e.gi.G.Point().Add(yb[i], e.G)
		if err, _ := pairVerify(e, e.G, e.H, e.X, e.Y, xb, yb2, prf); err == nil {
			violationOrKnown(t, ev, "C15/shuffle/sound-replace-slot", "tampered output accepted\n%s", ctx)
		}
		ev.Case(true, ctx, "shuffle-other:Shuffle")
	case "Sequences":
		e := genShufEnv(t, 2, 8)
		g := e.gi.G
		k := len(e.X)
		nq := rapid.IntRange(1, 4).Draw(t, "NQ")
		X, Y := [][]kyber.Point{e.X}, [][]kyber.Point{e.Y}
		st := xofStream(genSeed(t, "seq"))
		for j := 1; j < nq; j++ {
			var xs, ys []kyber.Point
			for i := 0; i < k; i++ {
				r := g.Scalar().Pick(st)
				xs = append(xs, g.Point().Mul(r, e.G))
				ys = append(ys, g.Point().Add(g.Point().Mul(r, e.H), g.Point().Pick(st)))
			}
			X, Y = append(X, xs), append(Y, ys)
		}
		ctx := fmt.Sprintf("SequencesShuffle %s NQ=%d", e.desc, nq)
		xb, yb, getProver := shuffle.SequencesShuffle(g, e.G, e.H, X, Y, xofStream(genSeed(t, "srand")))
		// the verifier's weights: uniform, or from the edge classes (0, 1, q-1, ...) - Remark 7 style
		// shortcuts for a weight of 1 or 0 must not change anything observable
		es := make([]kyber.Scalar, nq)
		wmode := rapid.SampledFrom([]string{"uniform", "uniform", "edge", "first-one", "last-one", "all-one", "first-zero"}).Draw(t, "weights")
		for j := range es {
			switch {
			case wmode == "edge":
				es[j] = genScalar(t, e.gi, fmt.Sprintf("e%d", j)).S
			case wmode == "all-one", wmode == "first-one" && j == 0, wmode == "last-one" && j == nq-1:
				es[j] = g.Scalar().One()
			case wmode == "first-zero" && j == 0:
				es[j] = g.Scalar().Zero()
			default:
				es[j] = g.Scalar().Pick(st)
			}
		}
		snapSeq := func() []byte {
			var b []byte
			for _, m := range [][][]kyber.Point{X, Y, xb, yb} {
				for _, row := range m {
					for _, p := range row {
						b = append(b, mustMarshal(t, p)...)
					}
				}
			}
			return b
		}
		before := snapSeq()
		prover, err := getProver(es)
		if err != nil {
			violationOrKnown(t, ev, "C15/sequences/prove", "getProver failed: %v\n%s", err, ctx)
			return
		}
		prf, err := proof.HashProve(e.suite, "PairShuffle", prover)
		if err != nil {
			violationOrKnown(t, ev, "C15/sequences/prove", "prove failed: %v\n%s", err, ctx)
			return
		}
		xu, yu, xd, yd := shuffle.GetSequenceVerifiable(g, X, Y, xb, yb, es)
		if err, pn := pairVerify(e, e.G, e.H, xu, yu, xd, yd, prf); err != nil || pn != "" {
			violationOrKnown(t, ev, "C15/sequences/complete", "honest sequence shuffle rejected: %v %s (weights %v)\n%s", err, pn, es, ctx)
		}
		if !bytes.Equal(before, snapSeq()) {
			violationOrKnown(t, ev, "C15/sequences/inputs-modified", "proving / consolidating changed the caller's input or output sequences (weights %v)\n%s", es, ctx)
		}
		// several verifiers, each with its own challenge vector, ask for a proof of the SAME shuffle (and
		// the same prover may be run again): every one of these honest proofs verifies
		for round := 2; round <= 3; round++ {
			es2 := make([]kyber.Scalar, nq)
			for j := range es2 {
				es2[j] = g.Scalar().Pick(st)
			}
			pv := prover
			if round == 2 {
				var e2 error
				if pv, e2 = getProver(es2); e2 != nil {
					violationOrKnown(t, ev, "C15/sequences/prove", "getProver failed for a second challenge vector: %v\n%s", e2, ctx)
					break
				}
			} else {
				es2 = es // the first prover run again
			}
			prf2, e2 := proof.HashProve(e.suite, "PairShuffle", pv)
			if e2 != nil {
				violationOrKnown(t, ev, "C15/sequences/prove", "proof #%d of the same shuffle failed: %v\n%s", round, e2, ctx)
				break
			}
			xu2, yu2, xd2, yd2 := shuffle.GetSequenceVerifiable(g, X, Y, xb, yb, es2)
			if err, pn := pairVerify(e, e.G, e.H, xu2, yu2, xd2, yd2, prf2); err != nil || pn != "" {
				violationOrKnown(t, ev, "C15/sequences/complete-repeat", "honest proof #%d of the same sequence shuffle rejected: %v %s\n%s", round, err, pn, ctx)
			}
		}
		// tamper one element of one sequence of the output
		j, i := rapid.IntRange(0, nq-1).Draw(t, "tj"), rapid.IntRange(0, k-1).Draw(t, "ti")
		saved := yb[j][i]
		yb[j][i] = g.Point().Add(saved, e.G)
		_, _, xd2, yd2 := shuffle.GetSequenceVerifiable(g, X, Y, xb, yb, es)
		if err, _ := pairVerify(e, e.G, e.H, xu, yu, xd2, yd2, prf); err == nil && !es[j].Equal(g.Scalar().Zero()) {
			violationOrKnown(t, ev, "C15/sequences/sound-replace-slot", "tampered sequence output accepted\n%s", ctx)
		}
		yb[j][i] = saved
		// a different permutation for one of the sequences (columns must stay aligned)
		if nq > 1 && k > 1 {
			j2 := rapid.IntRange(0, nq-1).Draw(t, "pj")
			xb[j2][0], xb[j2][1] = xb[j2][1], xb[j2][0]
			yb[j2][0], yb[j2][1] = yb[j2][1], yb[j2][0]
			_, _, xd3, yd3 := shuffle.GetSequenceVerifiable(g, X, Y, xb, yb, es)
			if err, _ := pairVerify(e, e.G, e.H, xu, yu, xd3, yd3, prf); err == nil && !es[j2].Equal(g.Scalar().Zero()) {
				violationOrKnown(t, ev, "C15/sequences/sound-misaligned", "output with one sequence permuted differently accepted\n%s", ctx)
			}
		}
		ev.Case(true, ctx, "shuffle-other:Sequences", fmt.Sprintf("shuffle-NQ:%d", nq))
	case "Biffle":
		e := genShufEnv(t, 2, 2)
		g := e.gi.G
		X, Y := [2]kyber.Point{e.X[0], e.X[1]}, [2]kyber.Point{e.Y[0], e.Y[1]}
		ctx := "Biffle " + e.desc
		xb, yb, prover := shuffle.Biffle(e.suite, e.G, e.H, X, Y, xofStream(genSeed(t, "brand")))
		prf, err := proof.HashProve(e.suite, "Biffle", prover)
		if err != nil {
			violationOrKnown(t, ev, "C15/biffle/prove", "prove failed: %v\n%s", err, ctx)
			return
		}
		bv := func(xb, yb [2]kyber.Point, p []byte) (err error) {
			if pn := safely(func() {
				err = proof.HashVerify(e.suite, "Biffle", shuffle.BiffleVerifier(e.suite, e.G, e.H, X, Y, xb, yb), p)
			}); pn != "" {
				violationOrKnown(t, ev, "C04/biffle/verify-panic", "verifier panicked: %s\n%s", pn, ctx)
				return fmt.Errorf("panic")
			}
			return err
		}
		if err := bv(xb, yb, prf); err != nil {
			violationOrKnown(t, ev, "C15/biffle/complete", "honest biffle rejected: %v\n%s", err, ctx)
			return
		}
		neg := rapid.SampledFrom([]string{"not-reencryption", "swap-output", "duplicate", "bitflip", "tear-pair"}).Draw(t, "neg")
		mx, my, mp := xb, yb, prf
		switch neg {
		case "not-reencryption":
			my[0] = g.Point().Add(yb[0], e.G)
		case "swap-output":
			mx[0], mx[1] = xb[1], xb[0]
			my[0], my[1] = yb[1], yb[0]
			// the statement stays true (other branch) but THIS proof commits to the other assignment
		case "duplicate":
			mx[1], my[1] = xb[0], yb[0]
		case "bitflip":
			pos := uniformInt(t, 0, len(prf)*8-1, "bit")
			mp = append([]byte(nil), prf...)
			mp[pos/8] ^= 1 << uint(pos%8)
		case "tear-pair":
			mx[0], mx[1] = xb[1], xb[0]
		}
		if err := bv(mx, my, mp); err == nil {
			violationOrKnown(t, ev, "C15/biffle/sound-"+neg, "%s accepted\n%s", neg, ctx)
		}
		ev.Case(true, ctx+" neg="+neg, "shuffle-other:Biffle", "biffle-neg:"+neg)
	case "Simple":
		// the simple shuffle on its own: y_i = gamma * x_pi(i)
		e := genShufEnv(t, 2, 10)
		g := e.gi.G
		k := len(e.X)
		st := xofStream(genSeed(t, "simple"))
		gamma := nonzeroScalar(t, e.gi, "gamma").S
		pi := rapid.Permutation(seqInts(k)).Draw(t, "pi")
		x, y := make([]kyber.Scalar, k), make([]kyber.Scalar, k)
		for i := range x {
			x[i] = g.Scalar().Pick(st)
		}
		for i := range y {
			y[i] = g.Scalar().Mul(gamma, x[pi[i]])
		}
		bmode := rapid.SampledFrom([]string{"honest", "honest", "plus-one", "adaptive-t0"}).Draw(t, "broken")
		broken := bmode != "honest"
		switch bmode {
		case "plus-one":
			i := rapid.IntRange(0, k-1).Draw(t, "bi")
			y[i] = g.Scalar().Add(y[i], g.Scalar().One())
		case "adaptive-t0":
			// A prover that chooses its OUTPUT after looking at the challenge it would get if the
			// challenge did not depend on the statement: t0 is the first public coin of an empty
			// transcript under this protocol name (obtained from the library itself by a prover that
			// only asks for a coin).  y_0..y_{k-2} are free, y_{k-1} solves
			// prod(y_i - gamma*t0) = gamma^k * prod(x_i - t0): at t = t0 the polynomial identity the
			// simple shuffle tests holds although y is not a permutation of gamma*x.  Against a verifier
			// whose t is bound to (X, Y) this is an ordinary wrong output.
			var coin struct{ Zt kyber.Scalar }
			_, _ = proof.HashProve(e.suite, "SimpleShuffle", func(pc proof.ProverContext) error { return pc.PubRand(&coin) })
			if coin.Zt == nil {
				bmode, broken = "honest", false
				break
			}
			t0 := coin.Zt
			gt := g.Scalar().Mul(gamma, t0)
			num := g.Scalar().One()
			for i := 0; i < k; i++ {
				num.Mul(num, gamma)
				num.Mul(num, g.Scalar().Sub(x[i], t0))
			}
			den := g.Scalar().One()
			for i := 0; i < k-1; i++ {
				y[i] = g.Scalar().Pick(st)
				den.Mul(den, g.Scalar().Sub(y[i], gt))
			}
			if den.Equal(g.Scalar().Zero()) {
				bmode, broken = "honest", false
				for i := range y {
					y[i] = g.Scalar().Mul(gamma, x[pi[i]])
				}
				break
			}
			y[k-1] = g.Scalar().Add(gt, g.Scalar().Div(num, den))
		}
		ctx := fmt.Sprintf("SimpleShuffle %s pi=%v broken=%s", e.desc, pi, bmode)
		ss := shuffle.SimpleShuffle{}
		ss.Init(g, k)
		var prf []byte
		var err error
		if pn := safely(func() {
			prf, err = proof.HashProve(e.suite, "SimpleShuffle", func(pc proof.ProverContext) error { return ss.Prove(e.G, gamma, x, y, st, pc) })
		}); pn != "" {
			if !broken {
				violationOrKnown(t, ev, "C15/simple/prove-panic", "prover panicked: %s\n%s", pn, ctx)
			}
			ev.Case(true, ctx, "shuffle-other:Simple")
			return
		}
		sv := shuffle.SimpleShuffle{}
		sv.Init(g, k)
		var verr error
		if err == nil {
			Gamma := g.Point().Mul(gamma, e.G)
			if pn := safely(func() {
				verr = proof.HashVerify(e.suite, "SimpleShuffle", func(vc proof.VerifierContext) error { return sv.Verify(e.G, Gamma, vc) }, prf)
			}); pn != "" {
				violationOrKnown(t, ev, "C04/simple/verify-panic", "verifier panicked: %s\n%s", pn, ctx)
				return
			}
		}
		if !broken && (err != nil || verr != nil) {
			violationOrKnown(t, ev, "C15/simple/complete", "honest simple shuffle rejected: %v %v\n%s", err, verr, ctx)
		}
		if broken && err == nil && verr == nil {
			violationOrKnown(t, ev, "C15/simple/sound", "simple shuffle proof for vectors that are not a gamma-scaled permutation accepted\n%s", ctx)
		}
		ev.Case(true, ctx, "shuffle-other:Simple", "simple-broken:"+bmode)
	}
}

// TestC15_AllPermutations: every permutation of k<=4 (thorough: 5) elements is proven and verified.
func TestC15_AllPermutations(t *testing.T) {
	ev := evFor("C15")
	maxK := 4
	if tier() == "thorough" {
		maxK = 5
	}
	gi := groupByName("ed25519")
	g := gi.G
	idx := 0
	for k := 2; k <= maxK; k++ {
		perms := allPerms(k)
		for _, pi := range perms {
			idx++
			if !mine(idx) {
				continue
			}
			seed := []byte(fmt.Sprintf("c15-perm-%d-%v-%d", k, pi, envInt("VERIF_SEED", 1)))
			st := xofStream(seed)
			e := &shufEnv{suite: proofSuiteRand{anonSuites()["ed25519"].(proof.Suite), xofStream(append(seed, 1))}, gi: gi, G: g.Point().Base()}
			e.H = g.Point().Mul(g.Scalar().Pick(st), nil)
			beta := make([]kyber.Scalar, k)
			for i := 0; i < k; i++ {
				r := g.Scalar().Pick(st)
				e.X = append(e.X, g.Point().Mul(r, e.G))
				e.Y = append(e.Y, g.Point().Add(g.Point().Mul(r, e.H), g.Point().Pick(st)))
				beta[i] = g.Scalar().Pick(st)
			}
			xb, yb := reencrypt(e, pi, beta)
			prf, err := pairProve(e, pi, beta, st)
			desc := fmt.Sprintf("exhaustive permutation k=%d pi=%v", k, pi)
			if err != nil {
				violationOrKnown(t, ev, "C15/pair/ed25519/prove", "%s: prove failed: %v", desc, err)
				continue
			}
			if err, pn := pairVerify(e, e.G, e.H, e.X, e.Y, xb, yb, prf); err != nil || pn != "" {
				violationOrKnown(t, ev, "C15/pair/ed25519/complete", "%s: honest proof rejected: %v %s", desc, err, pn)
			}
			// and the same proof must not verify for the output arranged by any OTHER permutation
			other := perms[(idx*7+1)%len(perms)]
			if fmt.Sprint(other) != fmt.Sprint(pi) {
				xo, yo := reencrypt(e, other, beta)
				if err, _ := pairVerify(e, e.G, e.H, e.X, e.Y, xo, yo, prf); err == nil {
					violationOrKnown(t, ev, "C15/pair/ed25519/sound-other-permutation", "%s: proof accepted for the output of permutation %v", desc, other)
				}
			}
			ev.Case(true, desc, "shuffle-exhaustive-perms")
		}
	}
	ev.Exhaustive(fmt.Sprintf("all permutations for k<=%d (Ed25519, one ciphertext vector each)", maxK))
}

func allPerms(k int) [][]int {
	var out [][]int
	var rec func(cur []int, used []bool)
	rec = func(cur []int, used []bool) {
		if len(cur) == k {
			out = append(out, append([]int(nil), cur...))
			return
		}
		for i := 0; i < k; i++ {
			if !used[i] {
				used[i] = true
				rec(append(cur, i), used)
				used[i] = false
			}
		}
	}
	rec(nil, make([]bool, k))
	return out
}

const c15Rule = "three generated families over Ed25519 and P-256 with ElGamal pairs (r_i G, r_i H + M_i) under generated (G, H=hG) and distinct random plaintext points. (pair) k in 2..12 (thorough 40), permutation drawn by the generator and passed to PairShuffle.Prove, betas random or edge: honest proof verifies; one negative from {X component of a slot re-randomised alone, slot duplicated, X components of two slots swapped, slot replaced by the homomorphic sum of two, slot doubled, slot replaced by another input, G<->H, other H, other G, proof bit flip, truncation, other input, proof for another honest output, byte splice of two honest proofs} must be rejected. " +
	"(forged) a malicious prover written in the harness against the verifier's equations (33)-(35): for an output Xbar=(M^T)^-1 (X+tG), Ybar likewise with H, for M a sum / scalar-multiple / shear / random invertible non-permutation matrix, it commits Gamma, W, Lambda, answers rho with sigma=w+M rho, D=gamma M rho G, tau=tau0+sum rho_j t_j and appends an honest simple shuffle on unrelated vectors; the verifier must reject. " +
	"(others) shuffle.Shuffle, SequencesShuffle with NQ in 1..4 (tampered and misaligned outputs), Biffle (not a re-encryption, output swapped under the same proof, duplicate, torn pair, bit flip), SimpleShuffle alone (honest and with one broken element); plus the exhaustive enumeration of all permutations for small k. non-trivial = every case except honest identity permutations without an applicable negative; distinct = distinct rendered case" +
	" Added after the sensitivity rounds: one cheating prover per verifier equation (R/S binding, (33), every Theta link) each shown by a harness reference verifier to be exactly one check from acceptance; three proofs per sequence shuffle."

func TestC15_Pair(t *testing.T) {
	ev := evFor("C15")
	ev.Rule(c15Rule)
	ev.Assume("soundness is only attacked through the listed adversary families; outputs are judged 'not a shuffle' because plaintext points are random and distinct")
	rcheck(t, 160, 25000, func(t *rapid.T) { c15Pair(t, ev) })
}

func TestC15_Forged(t *testing.T) {
	ev := evFor("C15")
	rcheck(t, 80, 12500, func(t *rapid.T) { c15Forged(t, ev) })
}

func TestC15_Others(t *testing.T) {
	ev := evFor("C15")
	rcheck(t, 120, 17500, func(t *rapid.T) { c15Others(t, ev) })
}
