//go:build !constantTime

package harness

// C16 — ECIES, IBE (CCA/CPA on either group assignment) and anonymous-set encryption.

import (
	"bytes"
	"crypto/cipher"
	"crypto/sha256"
	"crypto/sha512"
	"fmt"
	"hash"
	"testing"

	"go.dedis.ch/kyber/v4"
	"go.dedis.ch/kyber/v4/encrypt/ecies"
	"go.dedis.ch/kyber/v4/encrypt/ibe"
	"go.dedis.ch/kyber/v4/sign/anon"
	ukey "go.dedis.ch/kyber/v4/util/key"
	"pgregory.net/rapid"
)

// clearBlock reports the first 16-byte aligned plaintext block that appears verbatim at the same
// offset of the ciphertext body (-1 if none).
func clearBlock(msg, body []byte) int {
	for off := 0; off+16 <= len(msg) && off+16 <= len(body); off += 16 {
		if bytes.Equal(msg[off:off+16], body[off:off+16]) {
			return off
		}
	}
	return -1
}

// genPlain: plaintexts with high-entropy blocks so that an accidental match is impossible.
func genPlain(t *rapid.T, maxLen int, sizes []int) []byte {
	n := rapid.SampledFrom(append(append([]int(nil), sizes...), -1, -2)).Draw(t, "ptlen")
	if n == -2 {
		// around a power of two: 2^k + j (stream ciphers and XOFs work in blocks and scratch buffers)
		n = 1<<uint(rapid.IntRange(4, 12).Draw(t, "ptlen.k")) + rapid.SampledFrom([]int{-1, 0, 1, 9}).Draw(t, "ptlen.j")
	}
	if n < 0 || n > maxLen {
		n = uniformInt(t, 0, maxLen, "ptlen.any")
	}
	seed := genSeed(t, "ptseed")
	out := make([]byte, n)
	xofStream(seed).XORKeyStream(out, out)
	return out
}

func c16ECIES(t *rapid.T, ev *evProp) {
	names := []string{"ed25519", "edvar.proj25519", "edvar.proj25519.full", "p256", "qr512"}
	gi := groupByName(rapid.SampledFrom(names).Draw(t, "group"))
	g := gi.G
	var h func() hash.Hash
	hname := rapid.SampledFrom([]string{"nil", "sha256", "sha512"}).Draw(t, "hash")
	switch hname {
	case "sha256":
		h = sha256.New
	case "sha512":
		h = sha512.New
	}
	ks := xofStream(genSeed(t, "keys"))
	msg := genPlain(t, 4096, []int{0, 1, 15, 16, 17, 31, 32, 33, 64, 1000, 4096})
	keygen := rapid.SampledFrom(keygenModes).Draw(t, "keygen")
	ctx := fmt.Sprintf("ecies group=%s hash=%s |msg|=%d keygen=%s", gi.Name, hname, len(msg), keygen)
	key := func(w string) string { return "C16/ecies/" + gi.Name + "/" + w }
	xs, Xs := genKeyPairs(keySuite{g, ks}, keygen, 1+rapid.IntRange(0, 2).Draw(t, "morekeys"))
	if why := keyPairsValid(g, xs, Xs); why != "" {
		violationOrKnown(t, ev, key("keypair"), "%s\n%s", why, ctx)
		return
	}
	x, X := xs[0], Xs[0]
	gmsg, msgIntact := guard(msg)
	ct, err := ecies.Encrypt(g, X, gmsg, h)
	if why := msgIntact(); why != "" {
		violationOrKnown(t, ev, key("input-overwritten"), "ecies.Encrypt wrote into its caller's memory: %s\n%s", why, ctx)
	}
	if err != nil {
		violationOrKnown(t, ev, key("encrypt"), "Encrypt failed: %v\n%s", err, ctx)
		return
	}
	pt, err := ecies.Decrypt(g, x, append([]byte(nil), ct...), h)
	if err != nil || !bytes.Equal(pt, msg) {
		violationOrKnown(t, ev, key("roundtrip"), "Decrypt(Encrypt(m)) = %.20x..., %v\n%s", pt, err, ctx)
		return
	}
	pl := g.PointLen()
	if off := clearBlock(msg, ct[pl:]); off >= 0 {
		violationOrKnown(t, ev, key("plaintext-in-clear"), "plaintext block at offset %d appears in the ciphertext\n%s", off, ctx)
	}
	mut := rapid.SampledFrom([]string{"otherkey", "bitflip", "bitflip", "pointflip", "truncate", "extend", "otherhash", "neg-ephemeral", "neg-key"}).Draw(t, "mut")
	mct, mx, mh := append([]byte(nil), ct...), x, h
	switch mut {
	case "neg-ephemeral":
		// the ephemeral point replaced by its negative (another valid point; on Weierstrass curves only
		// the y coordinate changes): the shared secret becomes -(x*R), body and tag stay
		R := g.Point()
		if err := R.UnmarshalBinary(ct[:g.PointLen()]); err != nil {
			violationOrKnown(t, ev, key("ephemeral"), "the ephemeral point of an honest ciphertext does not decode: %v\n%s", err, ctx)
			return
		}
		copy(mct, mustMarshal(t, g.Point().Neg(R)))
		if bytes.Equal(mct, ct) {
			mut = "bitflip" // R = -R cannot happen for an honest ephemeral key; keep the case meaningful
			mct[len(mct)-1] ^= 1
		}
	case "neg-key":
		mx = g.Scalar().Neg(x)
		if mx.Equal(x) {
			mx = g.Scalar().Add(x, g.Scalar().One())
		}
	case "otherkey":
		for {
			mx = g.Scalar().Pick(ks)
			if !mx.Equal(x) {
				break
			}
		}
	case "bitflip":
		pos := uniformInt(t, 0, len(ct)*8-1, "bit")
		mct[pos/8] ^= 1 << uint(pos%8)
	case "pointflip":
		pos := rapid.IntRange(0, pl*8-1).Draw(t, "bit")
		mct[pos/8] ^= 1 << uint(pos%8)
	case "truncate":
		mct = mct[:uniformInt(t, 0, len(ct)-1, "tl")]
	case "extend":
		mct = append(mct, rapid.SliceOfN(rapid.Byte(), 1, 20).Draw(t, "ext")...)
	case "otherhash":
		if hname == "sha512" {
			mh = sha256.New
		} else {
			mh = sha512.New
		}
	}
	var mpt []byte
	var merr error
	if pn := safely(func() { mpt, merr = ecies.Decrypt(g, mx, mct, mh) }); pn != "" {
		violationOrKnown(t, ev, "C04/ecies/"+gi.Name+"/decrypt-panic", "Decrypt panicked on %s: %s\n%s ct=%x", mut, pn, ctx, mct)
		return
	}
	// equivalent encodings of the same ephemeral point may decrypt to the SAME plaintext; anything
	// else must be an error
	if merr == nil {
		same := bytes.Equal(mpt, msg) && (mut == "bitflip" || mut == "pointflip") && len(mct) == len(ct) && bytes.Equal(mct[pl:], ct[pl:]) && samePoint(gi, mct[:pl], ct[:pl])
		if !same {
			violationOrKnown(t, ev, key("tamper-accepted"), "mutation %s decrypts without error (same plaintext: %v)\n%s", mut, bytes.Equal(mpt, msg), ctx)
		}
	}
	ev.Case(true, ctx+" mut="+mut, "ecies:"+gi.Name, "ecies-mut:"+mut, fmt.Sprintf("ecies-len:%s", lenClass(len(msg))))
}

// keySuite: a group plus a deterministic random stream, as util/key wants it.  NewKey forwards to the
// group's own key generator where it has one (Ed25519 clamps), so key.Pair.Gen takes that path too.
type keySuite struct {
	kyber.Group
	r cipher.Stream
}

func (k keySuite) RandomStream() cipher.Stream { return k.r }
func (k keySuite) NewKey(r cipher.Stream) kyber.Scalar {
	if g, ok := k.Group.(ukey.Generator); ok {
		return g.NewKey(r)
	}
	if w, ok := k.Group.(anonSuiteRand); ok {
		if g, ok := w.Suite.(ukey.Generator); ok {
			return g.NewKey(r)
		}
	}
	return k.Scalar().Pick(r)
}

var keygenModes = []string{"pick", "pick", "NewKeyPair", "one-Pair-regenerated"}

// genKeyPairs: n key pairs, picked directly, through key.NewKeyPair, or through ONE key.Pair object
// whose Gen is called once per key (a scratch pair reused to build a recipient list).
func genKeyPairs(ks keySuite, mode string, n int) ([]kyber.Scalar, []kyber.Point) {
	xs, Xs := make([]kyber.Scalar, n), make([]kyber.Point, n)
	scratch := new(ukey.Pair)
	for i := 0; i < n; i++ {
		switch mode {
		case "NewKeyPair":
			kp := ukey.NewKeyPair(ks)
			xs[i], Xs[i] = kp.Private, kp.Public
		case "one-Pair-regenerated":
			scratch.Gen(ks)
			xs[i], Xs[i] = scratch.Private, scratch.Public
		default:
			xs[i] = ks.Scalar().Pick(ks.r)
			Xs[i] = ks.Point().Mul(xs[i], nil)
		}
	}
	return xs, Xs
}

// keyPairsValid: every public key is its private key times the generator (also the earlier ones).
func keyPairsValid(g kyber.Group, xs []kyber.Scalar, Xs []kyber.Point) string {
	for i := range xs {
		if !Xs[i].Equal(g.Point().Mul(xs[i], nil)) {
			return fmt.Sprintf("key pair %d of %d: the public key handed out is not private*B any more", i, len(xs))
		}
	}
	return ""
}

func lenClass(n int) string {
	switch {
	case n == 0:
		return "0"
	case n < 16:
		return "<16"
	case n <= 32:
		return "16..32"
	case n <= 64:
		return "33..64"
	}
	return ">64"
}

type ibeCombo struct {
	name string
	si   *SuiteInfo
	onG1 bool
}

func ibeCombos() []ibeCombo {
	var out []ibeCombo
	for _, si := range Suites() {
		if si.G2.Hash != nil {
			out = append(out, ibeCombo{si.Name + "/onG1", si, true})
		}
		if si.G1.Hash != nil {
			out = append(out, ibeCombo{si.Name + "/onG2", si, false})
		}
	}
	return out
}

// ibeTagsIntact: the domain-separation tags handed out by the exported getters still have their
// documented values; the slices obtained are then overwritten (they belong to the caller) - a getter
// that hands out the package's own storage lets any caller change the hashes of the whole process.
func ibeTagsIntact(junk byte) string {
	for _, tg := range []struct {
		name string
		get  func() []byte
		want string
	}{{"H2Tag", ibe.H2Tag, "IBE-H2"}, {"H3Tag", ibe.H3Tag, "IBE-H3"}, {"H4Tag", ibe.H4Tag, "IBE-H4"}} {
		b := tg.get()
		if string(b) != tg.want {
			return fmt.Sprintf("ibe.%s() = %q, documented value %q (a caller overwrote a slice it had been given)", tg.name, b, tg.want)
		}
		for i := range b {
			b[i] = junk + byte(i)
		}
	}
	return ""
}

func c16IBE(t *rapid.T, ev *evProp) {
	cs := ibeCombos()
	c := cs[uniformInt(t, 0, len(cs)-1, "combo")]
	if why := ibeTagsIntact(rapid.Byte().Draw(t, "tagjunk")); why != "" {
		violationOrKnown(t, ev, "C16/ibe/tags-shared", "%s", why)
		return
	}
	s := c.si.S
	hs := s.Hash().Size()
	// master key pair and identity key
	keyG, idG := c.si.G1, c.si.G2
	if !c.onG1 {
		keyG, idG = c.si.G2, c.si.G1
	}
	ms := nonzeroScalar(t, keyG, "master")
	master := keyG.G.Point().Mul(ms.S, nil)
	id := rapid.SliceOfN(rapid.Byte(), 0, 40).Draw(t, "id")
	qid := idG.Hash(id, nil)
	priv := idG.G.Point().Mul(ms.S, qid)
	cpa := c.onG1 && rapid.IntRange(0, 2).Draw(t, "cpa") == 0
	maxLen := hs + 48
	msg := genPlain(t, maxLen, []int{0, 1, 15, 16, 17, hs - 1, hs, hs + 1, hs + 16, hs + 48})
	ctx := fmt.Sprintf("ibe %s cpa=%v |id|=%d |msg|=%d hash=%d", c.name, cpa, len(id), len(msg), hs)
	key := func(w string) string { return "C16/ibe/" + c.name + "/" + w }
	// a sender's life: several messages to the same and to another identity under one master key
	// through the same suite value, before the message of this case; every ciphertext decrypts with
	// its identity's key right away and again after all later encryptions
	if k := rapid.IntRange(0, 3).Draw(t, "earlier"); k > 0 {
		id2 := append(append([]byte(nil), id...), 0x01)
		priv2 := idG.G.Point().Mul(ms.S, idG.Hash(id2, nil))
		type sent struct {
			other bool
			msg   []byte
			cca   *ibe.Ciphertext
			cpa   *ibe.CiphertextCPA
		}
		var log []sent
		check := func(e sent, when string) bool {
			pk := priv
			if e.other {
				pk = priv2
			}
			var pt []byte
			var err error
			if e.cpa != nil {
				pt, err = ibe.DecryptCPAonG1(s, pk, &ibe.CiphertextCPA{RP: e.cpa.RP.Clone(), C: append([]byte(nil), e.cpa.C...)})
			} else if c.onG1 {
				pt, err = ibe.DecryptCCAonG1(s, pk, &ibe.Ciphertext{U: e.cca.U.Clone(), V: append([]byte(nil), e.cca.V...), W: append([]byte(nil), e.cca.W...)})
			} else {
				pt, err = ibe.DecryptCCAonG2(s, pk, &ibe.Ciphertext{U: e.cca.U.Clone(), V: append([]byte(nil), e.cca.V...), W: append([]byte(nil), e.cca.W...)})
			}
			if err != nil || !bytes.Equal(pt, e.msg) {
				violationOrKnown(t, ev, key("sequence-roundtrip"), "message %d of a sequence to identities (same/other=%v) does not decrypt %s: err=%v\n%s", len(log), e.other, when, err, ctx)
				return false
			}
			return true
		}
		for i := 0; i < k; i++ {
			e := sent{other: rapid.IntRange(0, 3).Draw(t, "toOther") == 0, msg: rapid.SliceOfN(rapid.Byte(), 1, hs).Draw(t, "emsg")}
			to := id
			if e.other {
				to = id2
			}
			var err error
			if c.onG1 && rapid.IntRange(0, 3).Draw(t, "ecpa") == 0 {
				e.cpa, err = ibe.EncryptCPAonG1(s, keyG.G.Point().Base(), master, to, e.msg)
			} else if c.onG1 {
				e.cca, err = ibe.EncryptCCAonG1(s, master, to, e.msg)
			} else {
				e.cca, err = ibe.EncryptCCAonG2(s, master, to, e.msg)
			}
			if err != nil {
				violationOrKnown(t, ev, key("sequence-encrypt"), "encryption %d of a sequence refused a %d-byte message: %v\n%s", i, len(e.msg), err, ctx)
				return
			}
			if !check(e, "right after encryption") {
				return
			}
			log = append(log, e)
		}
		for _, e := range log {
			if !check(e, "after the later encryptions") {
				return
			}
		}
		ctx += fmt.Sprintf(" after %d earlier messages", k)
		// the master key and the generator were only read
		if !master.Equal(keyG.G.Point().Mul(ms.S, nil)) {
			violationOrKnown(t, ev, key("master-modified"), "the master public key changed during encryption\n%s", ctx)
			return
		}
	}
	if cpa {
		var ct *ibe.CiphertextCPA
		var err error
		if pn := safely(func() { ct, err = ibe.EncryptCPAonG1(s, keyG.G.Point().Base(), master, id, msg) }); pn != "" {
			violationOrKnown(t, ev, key("cpa-encrypt-panic"), "EncryptCPAonG1 panicked: %s\n%s", pn, ctx)
			return
		}
		if err != nil {
			// refusing a message is always allowed; the scheme documents no length it must accept
			// beyond the hash size
			if len(msg) <= hs {
				violationOrKnown(t, ev, key("cpa-refuses-short"), "EncryptCPAonG1 refuses a %d-byte message (hash size %d): %v\n%s", len(msg), hs, err, ctx)
			}
			ev.Case(true, ctx+" refused", "ibe:"+c.name, "ibe-cpa-refused")
			return
		}
		pt, err := ibe.DecryptCPAonG1(s, priv, ct)
		if err != nil || !bytes.Equal(pt, msg) {
			violationOrKnown(t, ev, key("cpa-roundtrip"), "CPA round trip failed: %v\n%s", err, ctx)
		}
		if off := clearBlock(msg, ct.C); off >= 0 {
			violationOrKnown(t, ev, key("cpa-plaintext-in-clear"), "accepted ciphertext carries plaintext block at offset %d in the clear (|msg|=%d > hash size %d)\n%s", off, len(msg), hs, ctx)
		}
		ev.Case(len(msg) == 0 || len(msg) >= 16, ctx, "ibe:"+c.name, "ibe-cpa", "ibe-len:"+lenClass(len(msg)))
		return
	}
	enc, dec := ibe.EncryptCCAonG1, ibe.DecryptCCAonG1
	if !c.onG1 {
		enc, dec = ibe.EncryptCCAonG2, ibe.DecryptCCAonG2
	}
	ct, err := enc(s, master, id, msg)
	if len(msg) > hs {
		if err == nil {
			// accepted although longer than the hash: then it must round-trip and hide the plaintext
			if off := clearBlock(msg, ct.W); off >= 0 {
				violationOrKnown(t, ev, key("cca-plaintext-in-clear"), "over-long message accepted and block at offset %d is in the clear\n%s", off, ctx)
			}
		}
		ev.Case(true, ctx+" overlong", "ibe:"+c.name, "ibe-cca-overlong", fmt.Sprintf("ibe-refused:%v", err != nil))
		return
	}
	if err != nil {
		violationOrKnown(t, ev, key("cca-encrypt"), "EncryptCCA refuses a %d-byte message: %v\n%s", len(msg), err, ctx)
		return
	}
	pt, err := dec(s, priv, ct)
	if err != nil || !bytes.Equal(pt, msg) {
		violationOrKnown(t, ev, key("cca-roundtrip"), "CCA round trip failed: %v\n%s", err, ctx)
		return
	}
	if off := clearBlock(msg, ct.W); off >= 0 {
		violationOrKnown(t, ev, key("cca-plaintext-in-clear"), "plaintext block at offset %d in the clear\n%s", off, ctx)
	}
	mut := rapid.SampledFrom([]string{"otherid", "U", "Uneg", "Vflip", "Wflip", "Vtrunc", "Wtrunc", "VWtrunc", "Wextend", "sweep", "sweep"}).Draw(t, "mut")
	if mut == "sweep" {
		// one flipped bit in EVERY byte position of V and of W in turn: every byte of the ciphertext is
		// authenticated (a hash input assembled in a fixed-size buffer leaves a tail unauthenticated
		// only for the longest messages)
		bit := byte(1) << uint(rapid.IntRange(0, 7).Draw(t, "sweepbit"))
		for _, part := range []string{"V", "W"} {
			n := len(ct.V)
			if part == "W" {
				n = len(ct.W)
			}
			for pos := 0; pos < n; pos++ {
				m := &ibe.Ciphertext{U: ct.U.Clone(), V: append([]byte(nil), ct.V...), W: append([]byte(nil), ct.W...)}
				if part == "V" {
					m.V[pos] ^= bit
				} else {
					m.W[pos] ^= bit
				}
				var mpt []byte
				var merr error
				if pn := safely(func() { mpt, merr = dec(s, priv, m) }); pn != "" {
					violationOrKnown(t, ev, "C04/ibe/"+c.name+"/decrypt-panic", "DecryptCCA panicked on a flipped bit in %s[%d]: %s\n%s", part, pos, pn, ctx)
					return
				}
				if merr == nil {
					violationOrKnown(t, ev, key("cca-tamper-accepted"), "bit %#x of %s[%d] (of %d) flipped: decrypts without error to %x (original %x)\n%s", bit, part, pos, n, mpt, msg, ctx)
					return
				}
			}
		}
		ev.Case(len(msg) > 0, ctx+" mut=sweep", "ibe:"+c.name, "ibe-cca-mut:sweep", "ibe-len:"+lenClass(len(msg)))
		return
	}
	m := &ibe.Ciphertext{U: ct.U.Clone(), V: append([]byte(nil), ct.V...), W: append([]byte(nil), ct.W...)}
	mpriv := priv
	applies := true
	switch mut {
	case "otherid":
		id2 := append(append([]byte(nil), id...), 1)
		mpriv = idG.G.Point().Mul(ms.S, idG.Hash(id2, nil))
	case "U":
		m.U = keyG.G.Point().Add(ct.U, basePoint(keyG))
	case "Uneg":
		m.U = keyG.G.Point().Neg(ct.U)
		applies = !m.U.Equal(ct.U)
	case "Vflip":
		if len(m.V) == 0 {
			applies = false
		} else {
			m.V = flipBits(t, m.V, "vf")
		}
	case "Wflip":
		if len(m.W) == 0 {
			applies = false
		} else {
			m.W = flipBits(t, m.W, "wf")
		}
	case "Vtrunc":
		if len(m.V) == 0 {
			applies = false
		} else {
			m.V = m.V[:uniformInt(t, 0, len(m.V)-1, "vl")]
		}
	case "Wtrunc":
		if len(m.W) == 0 {
			applies = false
		} else {
			m.W = m.W[:uniformInt(t, 0, len(m.W)-1, "wl")]
		}
	case "VWtrunc":
		if len(m.W) == 0 {
			applies = false
		} else {
			l := uniformInt(t, 0, len(m.W)-1, "l")
			m.V, m.W = m.V[:l], m.W[:l]
		}
	case "Wextend":
		ext := rapid.SliceOfN(rapid.Byte(), 1, 40).Draw(t, "ext")
		m.W = append(m.W, ext...)
		if rapid.Bool().Draw(t, "alsoV") {
			m.V = append(m.V, ext...)
		}
	}
	if applies {
		var mpt []byte
		var merr error
		if pn := safely(func() { mpt, merr = dec(s, mpriv, m) }); pn != "" {
			violationOrKnown(t, ev, "C04/ibe/"+c.name+"/decrypt-panic", "DecryptCCA panicked on %s: %s\n%s", mut, pn, ctx)
			return
		}
		// FO transform as implemented: sigma has |msg| bytes, so with another identity's key the
		// check passes with probability 2^(-8|msg|) and then yields the SAME plaintext; that is not
		// "a different plaintext" and is only tolerated for short messages
		tolerated := mut == "otherid" && len(msg) < 16 && bytes.Equal(mpt, msg)
		if merr == nil && !tolerated {
			violationOrKnown(t, ev, key("cca-tamper-accepted"), "mutation %s decrypts without error to %x (original %x)\n%s", mut, mpt, msg, ctx)
		}
		if merr == nil && tolerated {
			ev.Label("ibe-cca-otherid-short-message-same-plaintext")
		}
	}
	ev.Case(applies || len(msg) == 0 || len(msg) >= 16, ctx+" mut="+mut, "ibe:"+c.name, "ibe-cca-mut:"+mut, "ibe-len:"+lenClass(len(msg)))
}

func c16Anon(t *rapid.T, ev *evProp) {
	suites := anonSuites()
	name := rapid.SampledFrom([]string{"ed25519", "ed25519", "p256", "bn256.G1", "edvar"}).Draw(t, "suite")
	suite := anonSuiteRand{suites[name], xofStream(genSeed(t, "rand"))}
	n := rapid.IntRange(1, 6).Draw(t, "n")
	mine := rapid.IntRange(0, n-1).Draw(t, "mine")
	ks := xofStream(genSeed(t, "keys"))
	keygen := rapid.SampledFrom(keygenModes).Draw(t, "keygen")
	privs, pubs := genKeyPairs(keySuite{suite, ks}, keygen, n)
	set := anon.Set(pubs)
	msg := genPlain(t, 4200, []int{0, 1, 15, 16, 17, 32, 64, 600, 1025, 2049})
	ctx := fmt.Sprintf("anon-enc suite=%s n=%d mine=%d |msg|=%d keygen=%s", name, n, mine, len(msg), keygen)
	key := func(w string) string { return "C16/anon/" + name + "/" + w }
	if why := keyPairsValid(suite, privs, pubs); why != "" {
		violationOrKnown(t, ev, key("keypair"), "%s\n%s", why, ctx)
		return
	}
	gmsg, msgIntact := guard(msg)
	ct, err := anon.Encrypt(suite, gmsg, set)
	if why := msgIntact(); why != "" {
		violationOrKnown(t, ev, key("input-overwritten"), "anon.Encrypt wrote into its caller's memory: %s\n%s", why, ctx)
	}
	if err != nil {
		violationOrKnown(t, ev, key("encrypt"), "Encrypt failed: %v\n%s", err, ctx)
		return
	}
	pt, err := anon.Decrypt(suite, append([]byte(nil), ct...), set, mine, privs[mine])
	if err != nil || !bytes.Equal(pt, msg) {
		violationOrKnown(t, ev, key("roundtrip"), "recipient %d cannot decrypt: %v\n%s", mine, err, ctx)
		return
	}
	hdrLen := suite.PointLen() + n*suite.ScalarLen()
	if off := clearBlock(msg, ct[hdrLen:]); off >= 0 {
		violationOrKnown(t, ev, key("plaintext-in-clear"), "plaintext block at offset %d in the clear\n%s", off, ctx)
	}
	mut := rapid.SampledFrom([]string{"wrongkey", "wrongindex", "bitflip", "bitflip", "hdrflip-other-slot", "hdrflip-own-slot", "bodyflip", "macflip", "truncate", "extend"}).Draw(t, "mut")
	mct := append([]byte(nil), ct...)
	mpriv, mmine := privs[mine], mine
	applies := true
	pl, sl := suite.PointLen(), suite.ScalarLen()
	flipIn := func(lo, hi int) {
		if hi <= lo {
			applies = false
			return
		}
		pos := rapid.IntRange(lo*8, hi*8-1).Draw(t, "bit")
		mct[pos/8] ^= 1 << uint(pos%8)
	}
	switch mut {
	case "wrongkey":
		mpriv = suite.Scalar().Pick(ks)
	case "wrongindex":
		if n < 2 {
			applies = false
		} else {
			mmine = (mine + 1 + rapid.IntRange(0, n-2).Draw(t, "oi")) % n
		}
	case "bitflip":
		flipIn(0, len(ct))
	case "hdrflip-other-slot":
		if n < 2 {
			applies = false
		} else {
			o := (mine + 1 + rapid.IntRange(0, n-2).Draw(t, "os")) % n
			flipIn(pl+o*sl, pl+(o+1)*sl)
		}
	case "hdrflip-own-slot":
		flipIn(pl+mine*sl, pl+(mine+1)*sl)
	case "bodyflip":
		flipIn(hdrLen, len(ct)-16)
	case "macflip":
		flipIn(len(ct)-16, len(ct))
	case "truncate":
		mct = mct[:uniformInt(t, 0, len(ct)-1, "tl")]
	case "extend":
		mct = append(mct, rapid.SliceOfN(rapid.Byte(), 1, 20).Draw(t, "ext")...)
	}
	if applies {
		var mpt []byte
		var merr error
		in := append([]byte(nil), mct...)
		if pn := safely(func() { mpt, merr = anon.Decrypt(suite, in, set, mmine, mpriv) }); pn != "" {
			violationOrKnown(t, ev, "C04/anon/"+name+"/decrypt-panic", "anon.Decrypt panicked on %s: %s\n%s", mut, pn, ctx)
			return
		}
		if merr == nil {
			// an equivalent encoding of the ephemeral point is the only legitimate acceptance
			gi := map[string]*GroupInfo{"ed25519": groupByName("ed25519"), "p256": groupByName("p256"), "bn256.G1": groupByName("bn256.G1"), "edvar": groupByName("edvar.proj25519")}[name]
			same := bytes.Equal(mpt, msg) && len(mct) == len(ct) && bytes.Equal(mct[pl:], ct[pl:]) && samePoint(gi, mct[:pl], ct[:pl])
			if !same {
				k := "tamper-accepted"
				if mut == "hdrflip-other-slot" {
					k = "tamper-accepted-other-slot"
				}
				violationOrKnown(t, ev, key(k), "mutation %s decrypts without error (same plaintext: %v)\n%s", mut, bytes.Equal(mpt, msg), ctx)
			}
		}
	}
	ev.Case(applies, ctx+" mut="+mut, "anon-enc:"+name, "anon-enc-mut:"+mut, fmt.Sprintf("anon-enc-n:%d", n))
}

const c16Rule = "three generated families. (ECIES) the five ECIES groups (Ed25519, Edwards-vartime prime/full, P-256, QR-512) x hash {nil, SHA-256, SHA-512} x high-entropy messages of length {0,1,15..17,31..33,64,1000,4096,any<=4096}: decrypt(encrypt(m)) = m; no 16-byte plaintext block appears at its offset in the ciphertext; one mutation from {other key, the negated key, any bit flip, bit flip in the ephemeral point, the negated ephemeral point, truncation, extension, other hash} must give an error (or the same plaintext when only an equivalent encoding of the same point was produced), never a panic. " +
	"(IBE) every (suite, group assignment) whose identity group is hashable; CCA: messages up to the hash size round-trip and are hidden, longer ones are refused (or hidden), another identity's key / altered U / flipped, truncated or extended V, W are errors; CPA on G1: round trip and no plaintext block in the clear for every accepted message, lengths up to hash size + 48. " +
	"(anonymous-set) suites Ed25519/P-256/BN256-G1/Edwards-vartime, sets of 1..6 keys, every recipient index, messages 0..600: round trip on a copy, hidden plaintext; wrong key, wrong index, a bit flip anywhere / in another recipient's header slot / own slot / body / MAC, truncation, extension are errors. non-trivial = every case with an applicable negative mutation or a boundary length; distinct = distinct rendered case" +
	" Added after the sensitivity rounds: IBE-CCA sweep flipping one bit in every byte position of V and W; key pairs are picked directly, made by key.NewKeyPair, or made by ONE key.Pair regenerated per key (earlier keys must stay private*B); plaintexts are passed as canary-tailed slices."

func TestC16_ECIES(t *testing.T) {
	ev := evFor("C16")
	ev.Rule(c16Rule)
	ev.Assume("ECIES and IBE draw their nonces from crypto/rand (no injection point): the properties hold for every nonce, a replay reproduces the failure with another nonce; anon.Decrypt is given copies because it overwrites the MAC bytes of its input")
	rcheck(t, 1000, 75000, func(t *rapid.T) { c16ECIES(t, ev) })
}

func TestC16_IBE(t *testing.T) {
	ev := evFor("C16")
	rcheck(t, 500, 30000, func(t *rapid.T) { c16IBE(t, ev) })
}

func TestC16_Anon(t *testing.T) {
	ev := evFor("C16")
	rcheck(t, 1000, 75000, func(t *rapid.T) { c16Anon(t, ev) })
}
