//go:build !constantTime

package harness

// C17 (extension after the coverage survey of round 10): the hash-to-group entry points that take a
// caller-chosen domain separation tag and that no other case reached:
//   - kilic.NewBLS12381SuiteWithDST / Suite.SetDomainG1 / SetDomainG2: Hash on the suite's groups
//     must be the RFC 9380 hash under THAT tag, i.e. equal to CIRCL's and gnark's Hash2(msg, tag);
//     nil / empty tags select the default (equal to the plain suite);
//   - bn256.HashG1(msg, dst): a member of G1, a function of (msg, dst), different for different
//     messages and tags.

import (
	"bytes"
	"fmt"
	"testing"

	"go.dedis.ch/kyber/v4"
	"go.dedis.ch/kyber/v4/pairing/bls12381/kilic"
	"go.dedis.ch/kyber/v4/pairing/bn256"
	"pgregory.net/rapid"
)

func c17KilicDST(t *rapid.T, ev *evProp) {
	msg := rapid.SliceOfN(rapid.Byte(), 0, 200).Draw(t, "msg")
	genTag := func(label string) []byte {
		switch rapid.IntRange(0, 5).Draw(t, label+".kind") {
		case 0:
			return nil
		case 1:
			return []byte{}
		}
		n := rapid.SampledFrom([]int{1, 16, 43, 255}).Draw(t, label+".len")
		return rapid.SliceOfN(rapid.Byte(), n, n).Draw(t, label)
	}
	d1, d2 := genTag("dst1"), genTag("dst2")
	route := rapid.SampledFrom([]string{"constructor", "setter", "setter-after-use"}).Draw(t, "route")
	var s *kilic.Suite
	switch route {
	case "constructor":
		s = kilic.NewBLS12381SuiteWithDST(append([]byte(nil), d1...), append([]byte(nil), d2...)).(*kilic.Suite)
		if d1 == nil {
			s = kilic.NewBLS12381SuiteWithDST(nil, d2).(*kilic.Suite)
		}
	default:
		s = kilic.NewBLS12381Suite().(*kilic.Suite)
		if route == "setter-after-use" {
			// groups and points handed out before the tag changes keep working; new groups use the new tag
			_ = s.G1().Point().(kyber.HashablePoint).Hash([]byte("warm-up"))
			_ = s.G2().Point().(kyber.HashablePoint).Hash([]byte("warm-up"))
		}
		s.SetDomainG1(d1)
		s.SetDomainG2(d2)
	}
	ctx := fmt.Sprintf("kilic suite with tags G1=%x G2=%x (route %s), msg=%x", d1, d2, route, msg)
	for _, side := range []struct {
		name string
		g    kyber.Group
		dst  []byte
	}{{"G1", s.G1(), d1}, {"G2", s.G2(), d2}} {
		key := "C17/bls.kilic." + side.name + "/Hash-custom-dst"
		var p kyber.Point
		if pn := safely(func() { p = side.g.Point().(kyber.HashablePoint).Hash(append([]byte(nil), msg...)) }); pn != "" {
			violationOrKnown(t, ev, key, "Hash panicked: %s\n%s", pn, ctx)
			return
		}
		enc := mustMarshal(t, p)
		c17Member(t, ev, groupByName("bls.kilic."+side.name), p, "Hash", ctx)
		for _, other := range []string{"bls.circl.", "bls.gnark."} {
			og := groupByName(other + side.name)
			var want []byte
			if len(side.dst) == 0 {
				want = mustMarshal(t, og.Hash(msg, nil)) // the default tag of the RFC suite
			} else {
				want = mustMarshal(t, og.Hash(msg, side.dst))
			}
			if !bytes.Equal(enc, want) {
				violationOrKnown(t, ev, key, "%s: kilic hashes to %x, %s under the same tag to %x\n%s", side.name, enc, og.Name, want, ctx)
			}
		}
		if len(side.dst) == 0 {
			if def := mustMarshal(t, groupByName("bls.kilic."+side.name).Hash(msg, nil)); !bytes.Equal(def, enc) {
				violationOrKnown(t, ev, key, "%s: an empty tag does not select the default tag\n%s", side.name, ctx)
			}
		}
	}
	ev.Case(len(d1) > 0 || len(d2) > 0, ctx, "op:Hash-kilic-dst", "route:"+route)
}

func c17BN256HashG1(t *rapid.T, ev *evProp) {
	gi := groupByName("bn256.G1")
	msg := rapid.SliceOfN(rapid.Byte(), 0, 200).Draw(t, "msg")
	dst := rapid.SliceOfN(rapid.Byte(), 0, 64).Draw(t, "dst")
	ctx := fmt.Sprintf("bn256.HashG1(msg=%x, dst=%x)", msg, dst)
	key := func(w string) string { return "C17/bn256.G1/HashG1-" + w }
	var p kyber.Point
	if pn := safely(func() { p = bn256.HashG1(append([]byte(nil), msg...), append([]byte(nil), dst...)) }); pn != "" {
		violationOrKnown(t, ev, key("panic"), "HashG1 panicked: %s\n%s", pn, ctx)
		return
	}
	c17Member(t, ev, gi, p, "HashG1", ctx)
	enc := mustMarshal(t, p)
	if e2 := mustMarshal(t, bn256.HashG1(msg, dst)); !bytes.Equal(enc, e2) {
		violationOrKnown(t, ev, key("deterministic"), "two evaluations differ: %x vs %x\n%s", enc, e2, ctx)
	}
	m2 := append(append([]byte(nil), msg...), 1)
	if e3 := mustMarshal(t, bn256.HashG1(m2, dst)); bytes.Equal(enc, e3) {
		violationOrKnown(t, ev, key("injective"), "messages %x and %x hash to the same point\n%s", msg, m2, ctx)
	}
	d2 := append(append([]byte(nil), dst...), 1)
	if e4 := mustMarshal(t, bn256.HashG1(msg, d2)); bytes.Equal(enc, e4) {
		violationOrKnown(t, ev, key("dst"), "tags %x and %x give the same point\n%s", dst, d2, ctx)
	}
	// the result is an ordinary point of G1: usable with the group's arithmetic and decodable
	q := gi.G.Point()
	if err := q.UnmarshalBinary(enc); err != nil || !q.Equal(p) {
		violationOrKnown(t, ev, key("roundtrip"), "the hash result does not round-trip through its encoding: %v\n%s", err, ctx)
	}
	ev.Case(len(msg) == 0 || len(dst) == 0 || len(msg) >= 128, ctx, "op:HashG1-bn256")
}

func TestC17_TaggedHashEntryPoints(t *testing.T) {
	ev := evFor("C17")
	rcheck(t, 300, 12000, func(t *rapid.T) {
		if rapid.Bool().Draw(t, "which") {
			c17KilicDST(t, ev)
		} else {
			c17BN256HashG1(t, ev)
		}
	})
}
