//go:build !constantTime

package harness

// C17 — Pick, Embed and hash-to-group: members of the group, deterministic in the consumed bytes
// / (message, DST), injective on distinct messages; Embed is lossless up to EmbedLen; Data errors
// (never panics) on out-of-range length fields; RFC 9380 vectors and model for edwards25519.

import (
	"bytes"
	"encoding/hex"
	"fmt"
	"math/big"
	"testing"

	"go.dedis.ch/kyber/v4"
	"pgregory.net/rapid"
)

func c17Member(t *rapid.T, ev *evProp, gi *GroupInfo, p kyber.Point, what, ctx string) {
	g := gi.G
	key := fmt.Sprintf("C17/%s/%s-member", gi.Name, what)
	// library-side: (q-1)P = -P  (q = order of the group the protocols compute in)
	qm1 := scalarFromBig(g, new(big.Int).Sub(gi.Order, big1))
	var l, r kyber.Point
	if pn := safely(func() { l, r = g.Point().Mul(qm1, p), g.Point().Neg(p) }); pn != "" {
		violationOrKnown(t, ev, key, "arithmetic on the produced point panicked: %s\n%s", pn, ctx)
		return
	}
	if !l.Equal(r) {
		violationOrKnown(t, ev, key, "(q-1)P != -P for the produced point %s\n%s", pointHex(p), ctx)
	}
	// model-side membership on the decoded coordinates
	enc := mustMarshal(t, p)
	if member, why, ok := c04Member(gi, enc); ok && !member {
		violationOrKnown(t, ev, key, "produced point %x is outside the group according to the model (%s)\n%s", enc, why, ctx)
	}
	if ref := refFor(gi); ref != nil && gi.PrimeOrder {
		if mp, err := ref.Decode(enc); err == nil && !ref.InSubgroup(mp) {
			violationOrKnown(t, ev, key, "produced point %x is not in the prime-order subgroup according to the model\n%s", enc, ctx)
		}
	}
}

func c17PickEmbed(t *rapid.T, ev *evProp, gi *GroupInfo) {
	g := gi.G
	mk, sdesc := genStream(t, "st", c17FieldModulus(gi))
	embed := gi.HasEmbed && rapid.Bool().Draw(t, "embed")
	var data []byte
	if embed {
		el := g.Point().EmbedLen()
		n := rapid.SampledFrom([]int{0, 1, el - 1, el, el + 1, el + 8, -1}).Draw(t, "dlen")
		if n < 0 {
			n = rapid.IntRange(0, el+8).Draw(t, "dlen.any")
		}
		data = make([]byte, n)
		switch rapid.SampledFrom([]string{"random", "random", "random", "all-ff", "all-zero", "ff-prefix", "zero-prefix"}).Draw(t, "dkind") {
		case "random":
			copy(data, rapid.SliceOfN(rapid.Byte(), n, n).Draw(t, "data"))
		case "all-ff":
			for i := range data {
				data[i] = 0xff
			}
		case "all-zero":
		case "ff-prefix":
			copy(data, rapid.SliceOfN(rapid.Byte(), n, n).Draw(t, "data"))
			for i := 0; i < n && i < rapid.IntRange(1, 8).Draw(t, "ffn"); i++ {
				data[i] = 0xff
			}
		case "zero-prefix":
			copy(data, rapid.SliceOfN(rapid.Byte(), n, n).Draw(t, "data"))
			for i := 0; i < n && i < rapid.IntRange(1, 8).Draw(t, "zn"); i++ {
				data[i] = 0
			}
		}
	}
	what := "Pick"
	if embed {
		what = "Embed"
	}
	ctx := fmt.Sprintf("group=%s %s(data=%x, %s)", gi.Name, what, data, sdesc)
	key := func(w string) string { return fmt.Sprintf("C17/%s/%s", gi.Name, w) }
	rec := &recStream{inner: mk()}
	var p kyber.Point
	if pn := safely(func() {
		if embed {
			p = g.Point().Embed(data, rec)
		} else {
			p = g.Point().Pick(rec)
		}
	}); pn != "" {
		violationOrKnown(t, ev, key(what+"-panic"), "%s panicked: %s\n%s", what, pn, ctx)
		return
	}
	markVT(gi, p)
	c17Member(t, ev, gi, p, what, ctx)
	enc := mustMarshal(t, p)
	// determinism: same stream, and replay of exactly the consumed bytes
	again := func(s kyber.Point) []byte { return mustMarshal(t, s) }
	var p2, p3 kyber.Point
	if embed {
		p2 = g.Point().Embed(data, mk())
		p3 = g.Point().Embed(data, &replayStream{buf: rec.consumed})
	} else {
		p2 = g.Point().Pick(mk())
		p3 = g.Point().Pick(&replayStream{buf: rec.consumed})
	}
	if !bytes.Equal(again(p2), enc) {
		violationOrKnown(t, ev, key(what+"-deterministic"), "two runs on equal streams differ: %x vs %x\n%s", enc, again(p2), ctx)
	}
	if !bytes.Equal(again(p3), enc) {
		violationOrKnown(t, ev, key(what+"-consumed-only"), "result is not a function of the %d consumed bytes: %x vs %x on replay\n%s", len(rec.consumed), enc, again(p3), ctx)
	}
	retried := len(rec.consumed) > c17FirstTryBytes(gi)
	if embed {
		el := g.Point().EmbedLen()
		want := data
		if len(want) > el {
			want = want[:el]
		}
		got, err := p.Data()
		if err != nil || !bytes.Equal(got, want) {
			violationOrKnown(t, ev, key("Data"), "Data() = %x, %v; embedded %x\n%s", got, err, want, ctx)
		}
		q := g.Point()
		if err := q.UnmarshalBinary(enc); err != nil {
			violationOrKnown(t, ev, key("Data"), "embedded point does not decode: %v\n%s", err, ctx)
		} else if got, err := q.Data(); err != nil || !bytes.Equal(got, want) {
			violationOrKnown(t, ev, key("Data-after-decode"), "Data() after encode/decode = %x, %v; embedded %x\n%s", got, err, want, ctx)
		}
		ev.Case(retried || len(data) >= el || len(data) == 0, ctx, "group:"+gi.Name, "op:Embed", fmt.Sprintf("retried:%v", retried), fmt.Sprintf("dlen>=EmbedLen:%v", len(data) >= el))
		return
	}
	// picked points: Data() must return data or an error, never panic
	if gi.HasEmbed {
		var err error
		if pn := safely(func() { _, err = p.Data() }); pn != "" {
			violationOrKnown(t, ev, key("Data-panic"), "Data() on a picked point panicked: %s\n%s", pn, ctx)
		} else if err != nil {
			ev.Label("data-error-on-picked-point")
		}
	}
	ev.Case(retried, ctx, "group:"+gi.Name, "op:Pick", fmt.Sprintf("retried:%v", retried))
}

// c17FieldModulus: the value whose big-endian image makes a coordinate candidate overflow.
func c17FieldModulus(gi *GroupInfo) *big.Int {
	switch gi.Family {
	case "p256":
		return modelP256.P
	case "ed25519", "edvar":
		return modelEd25519.P
	case "bn256":
		return modelBN256.P
	case "bn254":
		return modelBN254.P
	case "qr512":
		return gi.Modulus
	}
	return gi.Order
}

func c17FirstTryBytes(gi *GroupInfo) int {
	switch gi.Family {
	case "p256":
		return 33
	case "qr512":
		return gi.G.PointLen()
	}
	return gi.G.PointLen()
}

func c17Hash(t *rapid.T, ev *evProp, gi *GroupInfo) {
	n := rapid.SampledFrom([]int{0, 1, 31, 32, 33, 64, 127, 128, 129, 300, -1}).Draw(t, "mlen")
	if n < 0 {
		n = rapid.IntRange(0, 300).Draw(t, "mlen.any")
	}
	msg := rapid.SliceOfN(rapid.Byte(), n, n).Draw(t, "msg")
	var dst []byte
	if gi.HashDST {
		dl := rapid.SampledFrom([]int{1, 16, 43, 255, 256, 300, -1}).Draw(t, "dstlen")
		if dl < 0 {
			dl = rapid.IntRange(1, 300).Draw(t, "dstlen.any")
		}
		dst = rapid.SliceOfN(rapid.Byte(), dl, dl).Draw(t, "dst")
	}
	ctx := fmt.Sprintf("group=%s Hash(msg=%x, dst=%x)", gi.Name, msg, dst)
	key := func(w string) string { return fmt.Sprintf("C17/%s/%s", gi.Name, w) }
	var p kyber.Point
	if pn := safely(func() { p = gi.Hash(msg, dst) }); pn != "" {
		violationOrKnown(t, ev, key("Hash-panic"), "hash-to-group panicked: %s\n%s", pn, ctx)
		return
	}
	markVT(gi, p)
	c17Member(t, ev, gi, p, "Hash", ctx)
	// the receiver's history does not matter: a point of this group that was cloned, decoded,
	// computed or is itself a hash result hashes like a fresh one (where the API has no explicit tag,
	// the tag is the group's)
	{
		recv := genPoint(t, gi, "recv")
		var q kyber.Point
		pn := safely(func() {
			switch h := recv.P.(type) {
			case interface {
				Hash2(msg, dst []byte) kyber.Point
			}:
				if dst != nil {
					q = h.Hash2(append([]byte(nil), msg...), append([]byte(nil), dst...))
				} else {
					q = recv.P.(kyber.HashablePoint).Hash(append([]byte(nil), msg...))
				}
			case interface {
				Hash(m []byte, dst string) kyber.Point
			}:
				q = h.Hash(append([]byte(nil), msg...), string(dst))
			case kyber.HashablePoint:
				q = h.Hash(append([]byte(nil), msg...))
			}
		})
		if pn != "" {
			violationOrKnown(t, ev, key("Hash-panic"), "Hash on a used receiver (%s) panicked: %s\n%s", recv.Desc, pn, ctx)
			return
		}
		if q != nil && !q.Equal(p) {
			violationOrKnown(t, ev, key("Hash-used-receiver"), "Hash with the used receiver %s = %s, with a fresh receiver %s\n%s", recv.Desc, q, p, ctx)
		}
	}
	enc := mustMarshal(t, p)
	if e2 := mustMarshal(t, gi.Hash(append([]byte(nil), msg...), append([]byte(nil), dst...))); !bytes.Equal(enc, e2) {
		violationOrKnown(t, ev, key("Hash-deterministic"), "two evaluations differ: %x vs %x\n%s", enc, e2, ctx)
	}
	// a different message gives a different point
	m2 := append([]byte(nil), msg...)
	if len(m2) == 0 || rapid.Bool().Draw(t, "append") {
		m2 = append(m2, rapid.Byte().Draw(t, "extra"))
	} else {
		m2[uniformInt(t, 0, len(m2)-1, "pos")] ^= byte(rapid.IntRange(1, 255).Draw(t, "xor"))
	}
	if e3 := mustMarshal(t, gi.Hash(m2, dst)); bytes.Equal(enc, e3) {
		violationOrKnown(t, ev, key("Hash-injective"), "messages %x and %x hash to the same point\n%s", msg, m2, ctx)
	}
	if gi.HashDST {
		d2 := append([]byte(nil), dst...)
		d2[uniformInt(t, 0, len(d2)-1, "dpos")] ^= byte(rapid.IntRange(1, 255).Draw(t, "dxor"))
		if e4 := mustMarshal(t, gi.Hash(msg, d2)); bytes.Equal(enc, e4) {
			violationOrKnown(t, ev, key("Hash-dst"), "domain separation tags %x and %x give the same point\n%s", dst, d2, ctx)
		}
	}
	if gi.Family == "ed25519" {
		want := modelEd25519.Encode(h2cEd25519(msg, dst), 32)
		if !bytes.Equal(enc, want) {
			violationOrKnown(t, ev, key("Hash-rfc9380"), "Hash = %x, RFC 9380 model = %x\n%s", enc, want, ctx)
		}
	}
	// BLS12-381: the three back-ends must agree (default DST route)
	if gi.Role != 0 && (gi.Family == "bls-kilic" || gi.Family == "bls-circl" || gi.Family == "bls-gnark") && buildFlavour == "default" {
		for _, other := range Suites() {
			og := other.G1
			if gi.Role == 2 {
				og = other.G2
			}
			if og == gi || og.Hash == nil || !(og.Family == "bls-kilic" || og.Family == "bls-circl" || og.Family == "bls-gnark") {
				continue
			}
			useDst := dst
			if !og.HashDST || !gi.HashDST {
				useDst = nil
			}
			a := mustMarshal(t, gi.Hash(msg, useDst))
			b := mustMarshal(t, og.Hash(msg, useDst))
			if !bytes.Equal(a, b) {
				violationOrKnown(t, ev, key("Hash-backends"), "%s and %s hash %x (dst %x) to different points: %x vs %x", gi.Name, og.Name, msg, useDst, a, b)
			}
		}
	}
	ev.Case(len(dst) > 255 || len(msg) == 0 || len(msg) >= 128, ctx, "group:"+gi.Name, "op:Hash", fmt.Sprintf("dst>255:%v", len(dst) > 255))
}

// TestC17_RFC9380Vectors: the model is validated against the RFC's vectors before it is trusted,
// and the library is compared with the vectors directly.
func TestC17_RFC9380Vectors(t *testing.T) {
	ev := evFor("C17")
	dst := []byte(edDefaultDST)
	q128 := "q128_" + string(bytes.Repeat([]byte("q"), 128))
	a512 := "a512_" + string(bytes.Repeat([]byte("a"), 512))
	vec := []struct{ msg, x, y string }{
		{"", "3c3da6925a3c3c268448dcabb47ccde5439559d9599646a8260e47b1e4822fc6", "09a6c8561a0b22bef63124c588ce4c62ea83a3c899763af26d795302e115dc21"},
		{"abc", "608040b42285cc0d72cbb3985c6b04c935370c7361f4b7fbdb1ae7f8c1a8ecad", "1a8395b88338f22e435bbd301183e7f20a5f9de643f11882fb237f88268a5531"},
		{"abcdef0123456789", "6d7fabf47a2dc03fe7d47f7dddd21082c5fb8f86743cd020f3fb147d57161472", "53060a3d140e7fbcda641ed3cf42c88a75411e648a1add71217f70ea8ec561a6"},
		{q128, "5fb0b92acedd16f3bcb0ef83f5c7b7a9466b5f1e0d8d217421878ea3686f8524", "2eca15e355fcfa39d2982f67ddb0eea138e2994f5956ed37b7f72eea5e89d2f7"},
		{a512, "0efcfde5898a839b00997fbe40d2ebe950bc81181afbd5cd6b9618aa336c1e8c", "6dc2fc04f266c5c27f236a80b14f92ccd051ef1ff027f26a07f8c0f327d8f995"},
	}
	gi := groupByName("ed25519")
	for _, v := range vec {
		xb, _ := hex.DecodeString(v.x)
		yb, _ := hex.DecodeString(v.y)
		want := modelEd25519.Encode(ePoint{new(big.Int).SetBytes(xb), new(big.Int).SetBytes(yb)}, 32)
		if got := modelEd25519.Encode(h2cEd25519([]byte(v.msg), dst), 32); !bytes.Equal(got, want) {
			fmt.Printf("HARNESS-ERROR: RFC 9380 model does not reproduce the RFC vector for msg %q: %x vs %x\n", v.msg, got, want)
			t.Fatalf("model self-check failed")
		}
		got := mustMarshal(t, gi.Hash([]byte(v.msg), dst))
		if !bytes.Equal(got, want) {
			violationOrKnown(t, ev, "C17/ed25519/Hash-rfc9380-vector", "Hash(%q) = %x, RFC 9380 vector = %x", v.msg, got, want)
		}
		ev.Case(true, fmt.Sprintf("RFC 9380 J.5.1 vector msg=%q", v.msg), "rfc-vector")
	}
}

// TestC17_DataRange: Data() on points whose length byte exceeds EmbedLen must report an error.
func TestC17_DataRange(t *testing.T) {
	ev := evFor("C17")
	for gidx, gi := range Groups(tier() == "thorough") {
		if !gi.HasEmbed || !mine(gidx) {
			continue
		}
		g := gi.G
		found, tried := 0, 0
		for i := 0; tried < 400 && found < 12; i++ {
			tried++
			p := g.Point().Pick(xofStream([]byte(fmt.Sprintf("c17-datarange-%s-%d-%d", gi.Name, i, envInt("VERIF_SEED", 1)))))
			var d []byte
			var err error
			if pn := safely(func() { d, err = p.Data() }); pn != "" {
				violationOrKnown(t, ev, "C17/"+gi.Name+"/Data-panic", "Data() panicked on picked point %s: %s", pointHex(p), pn)
				continue
			}
			if err != nil {
				found++
				ev.Case(true, fmt.Sprintf("group=%s picked point %s has an out-of-range length field: Data() error %v", gi.Name, pointHex(p), err), "group:"+gi.Name, "op:Data-out-of-range")
			}
			_ = d
		}
	}
}

const c17Rule = "case = one of: (Pick/Embed) group with the capability x stream {seeded XOF; all-00, all-ff or 'field modulus + k' prefix of 1..200 bytes followed by a seeded XOF, which forces the rejection loops to retry} x data of length {0,1,EmbedLen-1,EmbedLen,EmbedLen+1,EmbedLen+8,any}; " +
	"(Hash) group with hash-to-group x message length {0,1,31..33,64,127..129,300,any} x DST length {1,16,43,255,256,300,any} where the API takes one. Oracle: (q-1)P = -P in the library, curve/subgroup membership of the encoding in the math/big model, identical result on an equal stream and on a replay of exactly the consumed bytes, " +
	"Data() = data[:min(len,EmbedLen)] before and after encode/decode, Data() errors instead of panicking on picked points, different message / DST => different point, Ed25519 Hash = RFC 9380 model (validated on the RFC vectors), BLS12-381 hashes identical across the three back-ends. " +
	"non-trivial = the stream forced at least one retry, |data| >= EmbedLen or 0, |dst| > 255, |msg| = 0 or >= 128; distinct = distinct rendered case" +
	" Added after the sensitivity rounds: embed data classes all-ff/all-zero/ff-prefix/zero-prefix, stream class ff00; the cofactor residue group."

func TestC17_PickEmbedHash(t *testing.T) {
	ev := evFor("C17")
	ev.Rule(c17Rule)
	ev.Assume("an empty DST is outside the domain (RFC 9380 3.1: tags MUST have non-zero length; the library panics there); Embed(nil) is Pick")
	groups := Groups(tier() == "thorough")
	for i, gi := range groups {
		if !mine(i) || !(gi.HasPick || gi.HasEmbed || gi.Hash != nil) {
			continue
		}
		gi := gi
		q, th := 200, 5000
		if gi.Role == 3 {
			q, th = 40, 400
		}
		t.Run(gi.Name, func(t *testing.T) {
			rcheck(t, q*shards(), th*shards(), func(t *rapid.T) {
				if gi.Hash != nil && (!gi.HasPick || rapid.IntRange(0, 2).Draw(t, "family") == 0) {
					c17Hash(t, ev, gi)
				} else {
					c17PickEmbed(t, ev, gi)
				}
			})
		})
	}
}
