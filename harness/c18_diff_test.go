//go:build !constantTime

package harness

// C18 (i)-(iii) — independent implementations of the same mathematical object agree bit for bit.
// Straight-line programs over value registers are executed on every implementation of a family
// and on the math/big reference model; all register encodings must coincide after every step.

import (
	"bytes"
	"crypto/ed25519"
	"crypto/sha512"
	"fmt"
	"math/big"
	"strings"
	"testing"

	"go.dedis.ch/kyber/v4"
	"go.dedis.ch/kyber/v4/sign/bls"
	"pgregory.net/rapid"
)

type c18Impl struct {
	gi  *GroupInfo
	sc  []kyber.Scalar
	pt  []kyber.Point
	ref []any // model points (nil if no model)
}

const c18Regs = 4

// c18Family runs one generated program on all implementations of a family.
func c18Family(t *rapid.T, ev *evProp, fam string, gis []*GroupInfo, withModel bool) {
	order := gis[0].Order
	impls := make([]*c18Impl, len(gis))
	var ref refGroup
	if withModel {
		ref = refFor(gis[0])
	}
	modelSc := make([]*big.Int, c18Regs)
	modelPt := make([]any, c18Regs)
	for k, gi := range gis {
		im := &c18Impl{gi: gi}
		for i := 0; i < c18Regs; i++ {
			im.sc = append(im.sc, gi.G.Scalar().Zero())
			im.pt = append(im.pt, nullPoint(gi))
		}
		impls[k] = im
	}
	for i := range modelSc {
		modelSc[i] = big.NewInt(0)
		if ref != nil {
			modelPt[i] = ref.Identity()
		}
	}
	var hist []string
	nontrivial := false
	fail := func(what, format string, args ...any) {
		violationOrKnown(t, ev, "C18/"+fam+"/"+what, format+"\nprogram:\n  %s", append(args, strings.Join(hist, "\n  "))...)
	}
	nsteps := rapid.IntRange(1, 40).Draw(t, "nsteps")
	ri := func(l string) int { return rapid.IntRange(0, c18Regs-1).Draw(t, l) }
	ops := []string{"sset", "sset", "sadd", "ssub", "smul", "sneg", "sinv", "pbase", "pmulbase", "pmul", "pmul", "padd", "psub", "pneg", "pdbl", "pnull", "pdecode", "phostile"}
	// recv: the receiver of a point operation is either a fresh point or the object currently held in
	// the destination register (in place; it aliases an operand whenever r == a or r == b).  The same
	// choice is made on every implementation.
	inPlace := false
	recv := func(im *c18Impl, r int) kyber.Point {
		if inPlace {
			return im.pt[r]
		}
		return newPoint(im.gi)
	}
	for step := 0; step < nsteps; step++ {
		op := rapid.SampledFrom(ops).Draw(t, "op")
		r := ri("r")
		inPlace = rapid.IntRange(0, 2).Draw(t, "inplace") == 0
		if op == "pmulbase" {
			for _, gi := range gis {
				if !gi.MulNil {
					op = "pbase" // Mul(s, nil) is not offered by every implementation of this family
				}
			}
		}
		switch op {
		case "sset":
			v, cls := genBig(t, order, "v")
			if isEdgeClass(cls) {
				nontrivial = true
			}
			modelSc[r] = v
			for _, im := range impls {
				im.sc[r] = scalarFromBig(im.gi.G, v)
			}
			hist = append(hist, fmt.Sprintf("s%d = %x (%s)", r, v, cls))
		case "sadd", "ssub", "smul":
			a, b := ri("a"), ri("b")
			switch op {
			case "sadd":
				modelSc[r] = fadd(modelSc[a], modelSc[b], order)
			case "ssub":
				modelSc[r] = fsub(modelSc[a], modelSc[b], order)
			default:
				modelSc[r] = fmul(modelSc[a], modelSc[b], order)
			}
			for _, im := range impls {
				g := im.gi.G
				switch op {
				case "sadd":
					im.sc[r] = g.Scalar().Add(im.sc[a], im.sc[b])
				case "ssub":
					im.sc[r] = g.Scalar().Sub(im.sc[a], im.sc[b])
				default:
					im.sc[r] = g.Scalar().Mul(im.sc[a], im.sc[b])
				}
			}
			hist = append(hist, fmt.Sprintf("s%d = s%d %s s%d", r, a, op[1:], b))
		case "sneg", "sinv":
			a := ri("a")
			if op == "sinv" && modelSc[a].Sign() == 0 {
				op = "sneg"
			}
			if op == "sneg" {
				modelSc[r] = fneg(modelSc[a], order)
			} else {
				modelSc[r] = finv(modelSc[a], order)
			}
			for _, im := range impls {
				if op == "sneg" {
					im.sc[r] = im.gi.G.Scalar().Neg(im.sc[a])
				} else {
					im.sc[r] = im.gi.G.Scalar().Inv(im.sc[a])
				}
			}
			hist = append(hist, fmt.Sprintf("s%d = %s s%d", r, op[1:], a))
		case "pbase", "pnull":
			for _, im := range impls {
				if op == "pbase" {
					im.pt[r] = basePoint(im.gi)
				} else {
					im.pt[r] = nullPoint(im.gi)
				}
			}
			if ref != nil {
				if op == "pbase" {
					modelPt[r] = ref.Base()
				} else {
					modelPt[r] = ref.Identity()
				}
			}
			hist = append(hist, fmt.Sprintf("P%d = %s", r, op[1:]))
		case "pmulbase":
			k := ri("k")
			for _, im := range impls {
				im.pt[r] = (newPoint(im.gi).Mul(im.sc[k], nil))
			}
			if ref != nil {
				modelPt[r] = ref.Mul(modelSc[k], ref.Base())
			}
			nontrivial = true
			hist = append(hist, fmt.Sprintf("P%d = s%d * B (implicit base)", r, k))
		case "pmul":
			k, a := ri("k"), ri("a")
			for _, im := range impls {
				im.pt[r] = (recv(im, r).Mul(im.sc[k], im.pt[a]))
			}
			if ref != nil {
				modelPt[r] = ref.Mul(modelSc[k], modelPt[a])
			}
			nontrivial = true
			hist = append(hist, fmt.Sprintf("P%d = s%d * P%d", r, k, a))
		case "padd", "psub":
			a, b := ri("a"), ri("b")
			for _, im := range impls {
				if op == "padd" {
					im.pt[r] = (recv(im, r).Add(im.pt[a], im.pt[b]))
				} else {
					im.pt[r] = (recv(im, r).Sub(im.pt[a], im.pt[b]))
				}
			}
			if ref != nil {
				if op == "padd" {
					modelPt[r] = ref.Add(modelPt[a], modelPt[b])
				} else {
					modelPt[r] = ref.Add(modelPt[a], ref.Neg(modelPt[b]))
				}
			}
			hist = append(hist, fmt.Sprintf("P%d = P%d %s P%d", r, a, op[1:], b))
		case "pneg", "pdbl":
			a := ri("a")
			for _, im := range impls {
				if op == "pneg" {
					im.pt[r] = (recv(im, r).Neg(im.pt[a]))
				} else {
					im.pt[r] = (recv(im, r).Add(im.pt[a], im.pt[a]))
				}
			}
			if ref != nil {
				if op == "pneg" {
					modelPt[r] = ref.Neg(modelPt[a])
				} else {
					modelPt[r] = ref.Add(modelPt[a], modelPt[a])
				}
			}
			hist = append(hist, fmt.Sprintf("P%d = %s P%d", r, op[1:], a))
		case "phostile":
			// an untrusted, possibly non-canonical encoding derived from P_a: every implementation that
			// accepts it must hand back the same bytes (acceptance itself may legitimately differ and
			// is only counted); registers are not changed
			a := ri("a")
			in, hk := structuredPointInput(t, impls[0].gi, mustMarshal(t, impls[0].pt[a]))
			hist = append(hist, fmt.Sprintf("decode hostile(%s) %x everywhere", hk, in))
			var first []byte
			firstName := ""
			acc := 0
			for _, im := range impls {
				p := newPoint(im.gi)
				if pn := safely(func() {
					if p.UnmarshalBinary(append([]byte(nil), in...)) != nil {
						p = nil
					}
				}); pn != "" || p == nil {
					continue
				}
				acc++
				re := mustMarshal(t, p)
				if first == nil {
					first, firstName = re, im.gi.Name
				} else if !bytes.Equal(re, first) {
					fail("hostile-reencode", "the accepted input %x re-encodes as %x on %s but as %x on %s", in, first, firstName, re, im.gi.Name)
					return
				}
			}
			if acc > 0 && acc < len(impls) {
				ev.Label("c18-hostile-acceptance-differs:" + fam)
			} else if acc > 1 {
				nontrivial = true
			}
		case "pdecode":
			// transport through bytes: encode on one implementation, decode on every other
			a := ri("a")
			src := rapid.IntRange(0, len(impls)-1).Draw(t, "src")
			enc := mustMarshal(t, impls[src].pt[a])
			for _, im := range impls {
				p := im.gi.G.Point()
				if err := p.UnmarshalBinary(enc); err != nil {
					hist = append(hist, fmt.Sprintf("P%d = decode(encode_%s(P%d))", r, impls[src].gi.Name, a))
					fail("decode", "%s cannot decode the encoding %x produced by %s: %v", im.gi.Name, enc, impls[src].gi.Name, err)
					return
				}
				im.pt[r] = markVT(im.gi, p)
			}
			if ref != nil {
				modelPt[r] = modelPt[a]
			}
			hist = append(hist, fmt.Sprintf("P%d = decode(encode_%s(P%d))", r, impls[src].gi.Name, a))
		}
		if inPlace && (op == "pmul" || op == "padd" || op == "psub" || op == "pneg" || op == "pdbl") && len(hist) > 0 {
			hist[len(hist)-1] += "   [receiver: the object in the destination register]"
		}
		// compare all registers
		for i := 0; i < c18Regs; i++ {
			for _, im := range impls {
				if got := scalarToBig(im.sc[i]); got.Cmp(modelSc[i]) != 0 {
					fail("scalar", "after step %d: %s holds s%d = %x, reference %x", step, im.gi.Name, i, got, modelSc[i])
					return
				}
			}
			e0 := mustMarshal(t, impls[0].pt[i])
			for _, im := range impls[1:] {
				if e := mustMarshal(t, im.pt[i]); !bytes.Equal(e, e0) {
					fail("point", "after step %d: P%d encodes %x on %s but %x on %s", step, i, e0, impls[0].gi.Name, e, im.gi.Name)
					return
				}
			}
			if ref != nil {
				if want := ref.Encode(modelPt[i]); !bytes.Equal(want, e0) {
					fail("model", "after step %d: P%d encodes %x on %s, the reference model gives %x", step, i, e0, impls[0].gi.Name, want)
					return
				}
			}
		}
	}
	ev.Case(nontrivial && len(impls)+btoi(ref != nil) >= 2, fam+": "+strings.Join(hist, "; "), "diff:"+fam, fmt.Sprintf("diff-steps:%d", nsteps/10*10))
}

func btoi(b bool) int {
	if b {
		return 1
	}
	return 0
}

func groupsByName(names ...string) []*GroupInfo {
	var out []*GroupInfo
	for _, n := range names {
		out = append(out, groupByName(n))
	}
	return out
}

func c18BLS(t *rapid.T, ev *evProp) {
	// pairing / hash / signature agreement of the three BLS12-381 back-ends
	var sis []*SuiteInfo
	for _, si := range Suites() {
		if strings.HasPrefix(si.Name, "bls.") {
			sis = append(sis, si)
		}
	}
	order := ordBLS
	a, acls := genBig(t, order, "a")
	b, _ := genBig(t, order, "b")
	msg := rapid.SliceOfN(rapid.Byte(), 0, 80).Draw(t, "msg")
	var encs [][]string
	for _, si := range sis {
		sa, sb := scalarFromBig(si.G1.G, a), scalarFromBig(si.G1.G, b)
		P := si.G1.G.Point().Mul(sa, nil)
		Q := si.G2.G.Point().Mul(sb, nil)
		e := si.S.Pair(P, Q)
		h1 := si.G1.Hash(msg, nil)
		h2 := si.G2.Hash(msg, nil)
		eh := si.S.Pair(h1, Q)
		sig1, err1 := bls.NewSchemeOnG1(si.S).Sign(sa, msg)
		sig2, err2 := bls.NewSchemeOnG2(si.S).Sign(sa, msg)
		if err1 != nil || err2 != nil {
			violationOrKnown(t, ev, "C18/bls/sign", "%s: bls.Sign failed: %v %v", si.Name, err1, err2)
			return
		}
		sab, _ := si.G1.G.Scalar().Mul(sa, sb).MarshalBinary()
		encs = append(encs, []string{pointHex(P), pointHex(Q), pointHex(e), pointHex(h1), pointHex(h2), pointHex(eh),
			fmt.Sprintf("%x", sig1), fmt.Sprintf("%x", sig2), fmt.Sprintf("%x", sab),
			pointHex(si.GT.G.Point().Mul(sa, e)), pointHex(si.GT.G.Point().Add(e, eh)), pointHex(si.GT.G.Point().Neg(e))})
	}
	names := []string{"a*B1", "b*B2", "e(aB1,bB2)", "H1(msg)", "H2(msg)", "e(H1(msg),bB2)", "BLS sig on G1", "BLS sig on G2", "a*b", "a*e", "e+e'", "-e"}
	for k := range names {
		for i := 1; i < len(encs); i++ {
			if encs[i][k] != encs[0][k] {
				violationOrKnown(t, ev, "C18/bls/"+names[k], "%s and %s disagree on %s for a=%x b=%x msg=%x:\n %s\n %s", sis[0].Name, sis[i].Name, names[k], a, b, msg, encs[0][k], encs[i][k])
			}
		}
	}
	// cross verification: a signature made by one back-end verifies under every other
	si0, si1 := sis[rapid.IntRange(0, len(sis)-1).Draw(t, "signer")], sis[rapid.IntRange(0, len(sis)-1).Draw(t, "verifier")]
	if a.Sign() != 0 {
		sa := scalarFromBig(si0.G1.G, a)
		sig, _ := bls.NewSchemeOnG1(si0.S).Sign(sa, msg)
		X := si1.G2.G.Point().Mul(scalarFromBig(si1.G2.G, a), nil)
		if err := bls.NewSchemeOnG1(si1.S).Verify(X, msg, sig); err != nil {
			violationOrKnown(t, ev, "C18/bls/cross-verify", "signature by %s rejected by %s: %v", si0.Name, si1.Name, err)
		}
	}
	ev.Case(true, fmt.Sprintf("bls backends a=%x(%s) b=%x |msg|=%d", a, acls, b, len(msg)), "diff:bls-backends")
}

func c18EdKeys(t *rapid.T, ev *evProp) {
	seed := rapid.SliceOfN(rapid.Byte(), 32, 32).Draw(t, "seed")
	want := []byte(ed25519.NewKeyFromSeed(seed).Public().(ed25519.PublicKey))
	h := sha512.Sum512(seed)
	h[0] &= 248
	h[31] &= 127
	h[31] |= 64
	a := bytesToBig(h[:32], true)
	for _, name := range []string{"ed25519", "ed25519.allowvt", "edvar.proj25519", "edvar.ext25519", "edvar.proj25519.full", "edvar.ext25519.full"} {
		gi := groupByName(name)
		var got []byte
		if gi.PrimeOrder {
			got = mustMarshal(t, markVT(gi, gi.G.Point().Mul(scalarFromBig(gi.G, new(big.Int).Mod(a, gi.Order)), modelBaseOn(gi))))
		} else {
			got = mustMarshal(t, gi.G.Point().Mul(scalarFromBig(gi.G, new(big.Int).Mod(a, gi.Order)), modelBaseOn(gi)))
		}
		if !bytes.Equal(got, want) {
			violationOrKnown(t, ev, "C18/ed25519/keyderivation", "%s derives public key %x from seed %x, crypto/ed25519 gives %x", name, got, seed, want)
		}
	}
	if m := modelEd25519.Encode(modelEd25519.Mul(a, modelEd25519.Base()), 32); !bytes.Equal(m, want) {
		fmt.Printf("HARNESS-ERROR: the Edwards model disagrees with crypto/ed25519 on key derivation\n")
		t.Fatalf("model self-check failed")
	}
	ev.Case(true, fmt.Sprintf("ed25519 key derivation seed=%x", seed), "diff:ed25519-keys")
}

// modelBaseOn: the standard Ed25519 base point as a point of gi (the full-group instances use
// another generator as their Base()).
func modelBaseOn(gi *GroupInfo) kyber.Point {
	p := gi.G.Point()
	if err := p.UnmarshalBinary(modelEd25519.Encode(modelEd25519.Base(), 32)); err != nil {
		panic(err)
	}
	return markVT(gi, p)
}

const c18Rule = "(programs) straight-line programs of 1..40 steps over 4 scalar and 4 point registers from {scalar set (edge-biased value), add, sub, mul, neg, inv; point base, null, s*B (implicit base), s*P, add, sub, neg, double, transport through bytes from one implementation to all others} executed in lock step on every implementation of a family — Ed25519: constant-time, AllowVarTime, projective, extended + the math/big Edwards model; P-256, BN256-G1, BN254-G1: implementation + Weierstrass model; BLS12-381 G1: Kilic, CIRCL, gnark + model; BLS12-381 G2 and GT: the three back-ends — all scalar values and point encodings must coincide after every step. " +
	"(bls) generated scalars and messages: a*B1, b*B2, pairings, hash-to-curve, BLS signatures on both groups, GT arithmetic byte-identical across Kilic/CIRCL/gnark, and signatures cross-verify. (keys) every 32-byte seed: all six Ed25519 instances derive crypto/ed25519's public key. (variants) a seeded deterministic transcript is produced by the default, generic (pure Go field arithmetic) and constantTime builds and compared line by line by the driver. " +
	"non-trivial = a program with a scalar multiplication or an edge scalar that ran on >= 2 implementations/models; distinct = distinct program text" +
	" Added after the sensitivity rounds: receivers flagged AllowVarTime where applicable and, one step in three, the object in the destination register (in place); phostile step (structured hostile encodings decoded on every implementation, re-encodings compared); mod.Int register programs in the cross-build transcript."

func TestC18_Programs(t *testing.T) {
	ev := evFor("C18")
	ev.Rule(c18Rule)
	fams := []struct {
		name  string
		gis   []*GroupInfo
		model bool
		q, th int
	}{
		{"ed25519", groupsByName("ed25519", "ed25519.allowvt", "edvar.proj25519", "edvar.ext25519"), true, 160, 6000},
		{"p256", groupsByName("p256"), true, 60, 2000},
		{"bn256.G1", groupsByName("bn256.G1"), true, 60, 2000},
		{"bn254.G1", groupsByName("bn254.G1"), true, 60, 2000},
		{"bls.G1", groupsByName("bls.kilic.G1", "bls.circl.G1", "bls.gnark.G1"), true, 60, 2000},
		{"bls.G2", groupsByName("bls.kilic.G2", "bls.circl.G2", "bls.gnark.G2"), false, 40, 1200},
		{"bls.GT", groupsByName("bls.kilic.GT", "bls.circl.GT", "bls.gnark.GT"), false, 15, 400},
	}
	for i, f := range fams {
		if !mine(i) {
			continue
		}
		f := f
		t.Run(f.name, func(t *testing.T) {
			rcheck(t, f.q*shards(), f.th*shards(), func(t *rapid.T) { c18Family(t, ev, f.name, f.gis, f.model) })
		})
	}
}

func TestC18_BLSBackends(t *testing.T) {
	ev := evFor("C18")
	rcheck(t, 80, 2500, func(t *rapid.T) { c18BLS(t, ev) })
}

func TestC18_EdKeys(t *testing.T) {
	ev := evFor("C18")
	rcheck(t, 300, 10000, func(t *rapid.T) { c18EdKeys(t, ev) })
}
