package harness

// C18 (iv) — build variants.  A deterministic transcript (a pure function of VERIF_SEED and the
// shard number) is written by every build flavour of this test binary; the driver compares the
// lines that two flavours have in common.  No build tag: compiled in every flavour.

import (
	"bufio"
	"crypto/cipher"
	"crypto/sha256"
	"fmt"
	"hash"
	"math/big"
	"os"
	"path/filepath"
	"testing"

	"go.dedis.ch/kyber/v4"
	"go.dedis.ch/kyber/v4/compatible/compatiblemod"
	"go.dedis.ch/kyber/v4/group/edwards25519"
	"go.dedis.ch/kyber/v4/group/mod"
	"go.dedis.ch/kyber/v4/pairing/bls12381/circl"
	"go.dedis.ch/kyber/v4/share"
	"go.dedis.ch/kyber/v4/sign/eddsa"
	"go.dedis.ch/kyber/v4/sign/schnorr"
	"go.dedis.ch/kyber/v4/util/random"
	"go.dedis.ch/kyber/v4/xof/blake2xb"
	"go.dedis.ch/kyber/v4/xof/keccak"
)

type transcript struct {
	w     *bufio.Writer
	lines int
}

func (tr *transcript) put(key string, format string, args ...any) {
	fmt.Fprintf(tr.w, "%s = %s\n", key, fmt.Sprintf(format, args...))
	tr.lines++
}

// extra families only present in builds without the constantTime tag
var transcriptExtra func(tr *transcript, seed []byte, n int)

type trSuite struct {
	kyber.Group
	r cipher.Stream
}

func (s trSuite) Hash() hash.Hash             { return sha256.New() }
func (s trSuite) RandomStream() cipher.Stream { return s.r }

func hexOf(m kyber.Marshaling) string {
	b, err := m.MarshalBinary()
	if err != nil {
		return "ERR:" + err.Error()
	}
	return fmt.Sprintf("%x", b)
}

func transcriptCommon(tr *transcript, seed []byte, n int) {
	st := blake2xb.New(append([]byte("transcript-common"), seed...))
	ed := edwards25519.NewBlakeSHA256Ed25519()
	// --- Ed25519 points and scalars
	P := ed.Point().Base()
	for i := 0; i < n; i++ {
		a, b := ed.Scalar().Pick(st), ed.Scalar().Pick(st)
		switch i % 7 {
		case 0:
			a = ed.Scalar().SetInt64(int64(i))
		case 1:
			a = ed.Scalar().Neg(ed.Scalar().SetInt64(int64(i)))
		case 2:
			buf := make([]byte, 64)
			st.XORKeyStream(buf, buf)
			a = ed.Scalar().SetBytes(buf)
		}
		aB := ed.Point().Mul(a, nil)
		P = ed.Point().Add(ed.Point().Mul(b, P), aB)
		tr.put(fmt.Sprintf("ed:%d:aB", i), "%s", hexOf(aB))
		tr.put(fmt.Sprintf("ed:%d:P", i), "%s", hexOf(P))
		tr.put(fmt.Sprintf("edscalar:%d", i), "%s %s %s", hexOf(ed.Scalar().Mul(a, b)), hexOf(ed.Scalar().Div(a, ed.Scalar().Add(b, ed.Scalar().One()))), hexOf(ed.Scalar().Sub(a, b)))
		if i%10 == 0 {
			msg := make([]byte, i%97)
			st.XORKeyStream(msg, msg)
			type hasher interface {
				Hash(m []byte, dst string) kyber.Point
			}
			tr.put(fmt.Sprintf("edhash:%d", i), "%s", hexOf(ed.Point().(hasher).Hash(msg, edDefaultDST)))
			emb := ed.Point().Embed(msg[:min(len(msg), 29)], blake2xb.New(msg))
			tr.put(fmt.Sprintf("edembed:%d", i), "%s", hexOf(emb))
			tr.put(fmt.Sprintf("edpick:%d", i), "%s", hexOf(ed.Point().Pick(blake2xb.New(msg))))
		}
	}
	// --- mod.Int over several moduli (big.Int in the default build, bigmod in constantTime)
	mods := []*big.Int{big.NewInt(65537), ordEd25519, ordP256, ordBLS, new(big.Int).Sub(pow2(521), big1)}
	for i := 0; i < n; i++ {
		m := mods[i%len(mods)]
		M := compatiblemod.FromBigInt(new(big.Int).Set(m))
		buf := make([]byte, 8+i%80)
		st.XORKeyStream(buf, buf)
		a := mod.NewIntBytes(buf, M, kyber.BigEndian)
		st.XORKeyStream(buf, buf)
		b := mod.NewIntBytes(buf, M, kyber.LittleEndian)
		bb := mod.NewInt64(1, M)
		bb.Add(bb, b)
		r1 := mod.NewInt64(0, M)
		r1.Mul(a, bb)
		r2 := mod.NewInt64(0, M)
		r2.Sub(a, bb)
		r3 := mod.NewInt64(0, M)
		r3.Neg(a)
		r4 := mod.NewInt64(int64(i)-50, M)
		tr.put(fmt.Sprintf("modint:%d", i), "%s %s %s %s %s", hexOf(r1), hexOf(r2), hexOf(r3), hexOf(r4), hexOf(mod.NewInt64(0, M).Pick(blake2xb.New(buf))))
		if !a.Equal(mod.NewInt64(0, M)) {
			r5 := mod.NewInt64(0, M)
			r5.Inv(a)
			tr.put(fmt.Sprintf("modinv:%d", i), "%s", hexOf(r5))
		}
		rv := random.Int(M, blake2xb.New(buf))
		tr.put(fmt.Sprintf("randint:%d", i), "%s", rv.ToBigInt().Text(16))
	}
	// --- mod.Int register programs: value semantics must not differ between the builds either
	// (Set / Clone followed by an in-place decode or update of one of the two objects)
	for i := 0; i < n; i++ {
		m := mods[i%len(mods)]
		M := compatiblemod.FromBigInt(new(big.Int).Set(m))
		regs := []*mod.Int{mod.NewInt64(int64(i), M), mod.NewInt64(1, M), mod.NewInt64(0, M)}
		for step := 0; step < 6; step++ {
			ob := make([]byte, 3)
			st.XORKeyStream(ob, ob)
			r, a := int(ob[1])%3, int(ob[2])%3
			buf := make([]byte, 1+(int(ob[0])>>3)%40)
			st.XORKeyStream(buf, buf)
			switch ob[0] % 7 {
			case 0:
				regs[r].Set(regs[a])
			case 1:
				if c, ok := regs[a].Clone().(*mod.Int); ok {
					regs[r] = c
				}
			case 2:
				regs[r].SetBytes(buf)
			case 3:
				enc, _ := regs[a].MarshalBinary()
				_ = regs[r].UnmarshalBinary(enc)
			case 4:
				regs[r].Add(regs[r], regs[a])
			case 5:
				regs[r].SetInt64(int64(ob[1]) - 100)
			case 6:
				regs[r].Mul(regs[a], regs[a])
			}
			tr.put(fmt.Sprintf("modprog:%d:%d", i, step), "op%d r%d a%d -> %s %s %s", ob[0]%7, r, a, hexOf(regs[0]), hexOf(regs[1]), hexOf(regs[2]))
		}
	}
	// --- signatures and sharing on Ed25519
	for i := 0; i < n/4+1; i++ {
		sd := make([]byte, 32)
		st.XORKeyStream(sd, sd)
		e := eddsa.NewEdDSA(&replayStream{buf: sd})
		msg := make([]byte, i%70)
		st.XORKeyStream(msg, msg)
		sig, _ := e.Sign(msg)
		tr.put(fmt.Sprintf("eddsa:%d", i), "%s %x %v", hexOf(e.Public), sig, eddsa.Verify(e.Public, msg, sig) == nil)
		x := ed.Scalar().Pick(st)
		ssig, _ := schnorr.Sign(trSuite{ed, blake2xb.New(sd)}, x, msg)
		tr.put(fmt.Sprintf("schnorr:%d", i), "%x %v", ssig, schnorr.Verify(ed, ed.Point().Mul(x, nil), msg, ssig) == nil)
		pri := share.NewPriPoly(ed, uint32(2+i%4), x, blake2xb.New(sd))
		pub := pri.Commit(nil)
		shs := pri.Shares(uint32(6))
		rec, _ := share.RecoverSecret(ed, shs[1:], uint32(2+i%4), 6)
		tr.put(fmt.Sprintf("share:%d", i), "%s %s %s", hexOf(shs[5].V), hexOf(pub.Eval(5).V), hexOf(rec))
	}
	// --- CIRCL BLS12-381 (present in every flavour)
	cs := circl.NewSuite()
	for i := 0; i < n/8+1; i++ {
		a, b := cs.G1().Scalar().Pick(st), cs.G1().Scalar().Pick(st)
		P1 := cs.G1().Point().Mul(a, nil)
		Q2 := cs.G2().Point().Mul(b, nil)
		msg := make([]byte, i%50)
		st.XORKeyStream(msg, msg)
		h := cs.G1().Point().(kyber.HashablePoint).Hash(msg)
		tr.put(fmt.Sprintf("circl:%d", i), "%s %s %s %s %s", hexOf(P1), hexOf(Q2), hexOf(cs.Pair(P1, Q2)), hexOf(h), hexOf(cs.G1().Scalar().Mul(a, b)))
	}
	// --- XOFs
	for i := 0; i < n/4+1; i++ {
		sd := make([]byte, i*7%130)
		st.XORKeyStream(sd, sd)
		out := make([]byte, 40)
		x := blake2xb.New(sd)
		x.Read(out[:13])
		x.Read(out[13:])
		out2 := make([]byte, 40)
		k := keccak.New(sd)
		k.XORKeyStream(out2, out2)
		tr.put(fmt.Sprintf("xof:%d", i), "%x %x", out, out2)
	}
}

func TestC18_Transcript(t *testing.T) {
	ev := evFor("C18")
	dir := os.Getenv("VERIF_RUNDIR")
	if dir == "" {
		dir = t.TempDir()
	}
	n := budget(400, 20000)
	seed := []byte(fmt.Sprintf("seed-%d-shard-%d", envInt("VERIF_SEED", 1), shard()))
	f, err := os.Create(filepath.Join(dir, "transcript."+buildFlavour+".txt"))
	if err != nil {
		t.Fatalf("harness: %v", err)
	}
	tr := &transcript{w: bufio.NewWriter(f)}
	transcriptCommon(tr, seed, n)
	if transcriptExtra != nil {
		transcriptExtra(tr, seed, n)
	}
	tr.w.Flush()
	f.Close()
	// counted here; compared across flavours by the driver (./check), which owns the verdict
	ev.Case(true, fmt.Sprintf("transcript flavour=%s variant=%s seed=%s lines=%d", buildFlavour, os.Getenv("VERIF_FLAVOUR"), seed, tr.lines), "transcript:"+os.Getenv("VERIF_FLAVOUR"))
	for i := 0; i < tr.lines; i += 97 {
		ev.Label("transcript-lines-x97")
	}
}
