//go:build !constantTime

package harness

import (
	"fmt"

	"go.dedis.ch/kyber/v4"
	"go.dedis.ch/kyber/v4/sign/bls"
	"go.dedis.ch/kyber/v4/xof/blake2xb"
)

func init() {
	transcriptExtra = func(tr *transcript, seed []byte, n int) {
		st := blake2xb.New(append([]byte("transcript-extra"), seed...))
		// every registry group: a*B, a*P+Q chain (covers bn256/bn254 assembly vs generic field code)
		for _, gi := range Groups(false) {
			g := gi.G
			P := basePoint(gi)
			steps := n / 20
			if gi.Role == 3 {
				steps = n / 100
			}
			for i := 0; i <= steps; i++ {
				a, b := g.Scalar().Pick(st), g.Scalar().Pick(st)
				if i%5 == 0 {
					a = g.Scalar().SetInt64(int64(i) - 2)
				}
				aB := g.Point().Mul(a, basePoint(gi))
				P = g.Point().Add(g.Point().Mul(b, P), aB)
				tr.put(fmt.Sprintf("group:%s:%d", gi.Name, i), "%s %s %s", hexOf(aB), hexOf(P), hexOf(g.Scalar().Div(a, g.Scalar().Add(b, g.Scalar().One()))))
				if gi.Hash != nil && i%4 == 0 {
					msg := make([]byte, i%60)
					st.XORKeyStream(msg, msg)
					tr.put(fmt.Sprintf("hash:%s:%d", gi.Name, i), "%s", hexOf(gi.Hash(msg, nil)))
				}
			}
		}
		for _, si := range Suites() {
			for i := 0; i <= n/40; i++ {
				a, b := si.G1.G.Scalar().Pick(st), si.G1.G.Scalar().Pick(st)
				P1 := si.G1.G.Point().Mul(a, nil)
				Q2 := si.G2.G.Point().Mul(b, nil)
				e := si.S.Pair(P1, Q2)
				tr.put(fmt.Sprintf("pair:%s:%d", si.Name, i), "%s %v", hexOf(e), si.S.ValidatePairing(P1, Q2, si.G1.G.Point().Mul(b, nil), si.G2.G.Point().Mul(a, nil)))
				if si.G1.Hash != nil {
					msg := make([]byte, i%40)
					st.XORKeyStream(msg, msg)
					sig, err := bls.NewSchemeOnG1(si.S).Sign(a, msg)
					X := si.G2.G.Point().Mul(a, nil)
					tr.put(fmt.Sprintf("bls:%s:%d", si.Name, i), "%x %v %v", sig, err, err == nil && bls.NewSchemeOnG1(si.S).Verify(X, msg, sig) == nil)
				}
			}
		}
		var _ kyber.Point
	}
}
