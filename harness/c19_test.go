package harness

// C19 — XOFs (blake2xb, blake2xs, keccak) against a single-shot reference built directly on
// golang.org/x/crypto, as a state machine over Write/Read/XORKeyStream/Reseed/Clone/Reset; and
// util/random: random.New reader mixing (metamorphic), random.Bits / random.Int range and bias.

import (
	"bytes"
	"errors"
	"fmt"
	"io"
	"math/big"
	"strings"
	"testing"

	"go.dedis.ch/kyber/v4"
	"go.dedis.ch/kyber/v4/compatible/compatiblemod"
	"go.dedis.ch/kyber/v4/util/random"
	"go.dedis.ch/kyber/v4/xof/blake2xb"
	"go.dedis.ch/kyber/v4/xof/blake2xs"
	"go.dedis.ch/kyber/v4/xof/keccak"
	"golang.org/x/crypto/blake2b"
	"golang.org/x/crypto/blake2s"
	"golang.org/x/crypto/sha3"
	"pgregory.net/rapid"
)

type xofImpl struct {
	name string
	mk   func(seed []byte) kyber.XOF
	// ref returns the first n output bytes of a fresh instance seeded with seed that absorbed data
	ref func(seed, data []byte, n int) []byte
}

var xofImpls = []xofImpl{
	{"blake2xb", blake2xb.New, func(seed, data []byte, n int) []byte {
		k, rest := seed, []byte(nil)
		if len(seed) > blake2b.Size {
			k, rest = seed[:blake2b.Size], seed[blake2b.Size:]
		}
		x, err := blake2b.NewXOF(blake2b.OutputLengthUnknown, k)
		if err != nil {
			panic(err)
		}
		x.Write(rest)
		x.Write(data)
		out := make([]byte, n)
		io.ReadFull(x, out)
		return out
	}},
	{"blake2xs", blake2xs.New, func(seed, data []byte, n int) []byte {
		k, rest := seed, []byte(nil)
		if len(seed) > blake2s.Size {
			k, rest = seed[:blake2s.Size], seed[blake2s.Size:]
		}
		x, err := blake2s.NewXOF(blake2s.OutputLengthUnknown, k)
		if err != nil {
			panic(err)
		}
		x.Write(rest)
		x.Write(data)
		out := make([]byte, n)
		io.ReadFull(x, out)
		return out
	}},
	{"keccak", keccak.New, func(seed, data []byte, n int) []byte {
		x := sha3.NewShake256()
		x.Write(seed)
		x.Write(data)
		out := make([]byte, n)
		x.Read(out)
		return out
	}},
}

// xofModel is the logical history of one instance: the seed of its current epoch, the data
// absorbed since, and how many bytes were read in this epoch.
type xofModel struct {
	origSeed []byte
	seed     []byte
	data     []byte
	off      int
	read     bool // something (even 0 bytes) was read in the current epoch
	factory  bool // created by the factory (Reset is only specified for those)
}

func (m *xofModel) clone() *xofModel {
	return &xofModel{origSeed: append([]byte(nil), m.origSeed...), seed: append([]byte(nil), m.seed...),
		data: append([]byte(nil), m.data...), off: m.off, read: m.read, factory: false}
}

func (m *xofModel) next(impl xofImpl, n int) []byte {
	out := impl.ref(m.seed, m.data, m.off+n)[m.off:]
	m.off += n
	m.read = true
	return out
}

func c19XOFMachine(t *rapid.T, ev *evProp, impl xofImpl) {
	seedLen := rapid.SampledFrom([]int{0, 1, 16, 31, 32, 33, 63, 64, 65, 100, 127, 128, 129, 200, 300, -1}).Draw(t, "seedlen")
	if seedLen < 0 {
		seedLen = rapid.IntRange(0, 300).Draw(t, "seedlen.any")
	}
	seed := rapid.SliceOfN(rapid.Byte(), seedLen, seedLen).Draw(t, "seed")
	type inst struct {
		x kyber.XOF
		m *xofModel
	}
	// the buffer handed to New belongs to the caller, who may wipe or reuse it afterwards
	seedBuf := append([]byte(nil), seed...)
	insts := []*inst{{impl.mk(seedBuf), &xofModel{origSeed: seed, seed: seed, factory: true}}}
	history := []string{fmt.Sprintf("%s.New(seed %d bytes %x)", impl.name, seedLen, seed)}
	nsteps := rapid.IntRange(1, 30).Draw(t, "nsteps")
	chunk := func(l string) int {
		n := rapid.SampledFrom([]int{0, 1, 2, 31, 32, 33, 63, 64, 65, 127, 128, 129, 135, 136, 137, 200, 256, 600, -1, -2}).Draw(t, l)
		if n == -2 {
			// one call that is longer than any internal block or scratch buffer: 2^k + j, k in 9..13
			n = 1<<uint(rapid.IntRange(9, 13).Draw(t, l+".k")) + rapid.SampledFrom([]int{-1, 0, 1, 7, 100}).Draw(t, l+".j")
		}
		return n
	}
	var labels []string
	nontrivial := false
	fail := func(op, format string, args ...any) {
		violationOrKnown(t, ev, fmt.Sprintf("C19/%s/%s", impl.name, op), format+"\nhistory:\n  "+strings.Join(history, "\n  "), args...)
	}
	for step := 0; step < nsteps; step++ {
		i := rapid.IntRange(0, len(insts)-1).Draw(t, "inst")
		in := insts[i]
		ops := []string{"Read", "Read", "XOR", "XOR", "Reseed", "Clone"}
		if !in.m.read {
			ops = append(ops, "Write", "Write") // Write after Read (without Reseed) is a documented panic
		}
		if in.m.factory {
			ops = append(ops, "Reset")
		}
		if len(seedBuf) > 0 {
			ops = append(ops, "ScribbleSeed")
		}
		op := rapid.SampledFrom(ops).Draw(t, "op")
		switch op {
		case "ScribbleSeed":
			// the caller overwrites the slice it passed to New: no effect on any instance
			for j := range seedBuf {
				seedBuf[j] ^= 0xff
			}
			history = append(history, "caller overwrites the seed buffer it passed to New")
			nontrivial = true
		case "Write":
			n := chunk("n")
			if n < 0 {
				n = rapid.IntRange(0, 600).Draw(t, "n.any")
			}
			d := rapid.SliceOfN(rapid.Byte(), n, n).Draw(t, "data")
			history = append(history, fmt.Sprintf("x%d.Write(%d bytes)", i, n))
			wb := append([]byte(nil), d...)
			w, err := in.x.Write(wb)
			if err != nil || w != n {
				fail(op, "Write returned %d, %v", w, err)
			}
			for j := range wb { // the written buffer is the caller's again
				wb[j] ^= 0xff
			}
			in.m.data = append(in.m.data, d...)
		case "Read":
			n := chunk("n")
			if n < 0 {
				n = rapid.IntRange(0, 600).Draw(t, "n.any")
			}
			history = append(history, fmt.Sprintf("x%d.Read(%d) at offset %d", i, n, in.m.off))
			if in.m.off%64 != 0 || n%64 != 0 {
				nontrivial = nontrivial || (in.m.off/64 != (in.m.off+n)/64)
			}
			buf := make([]byte, n)
			r, err := io.ReadFull(in.x, buf)
			want := in.m.next(impl, n)
			if err != nil || r != n || !bytes.Equal(buf, want) {
				fail(op, "Read(%d) = %x (n=%d err=%v), single-shot reference gives %x", n, buf, r, err, want)
			}
		case "XOR":
			n := chunk("n")
			if n < 0 {
				n = rapid.IntRange(0, 600).Draw(t, "n.any")
			}
			src := rapid.SliceOfN(rapid.Byte(), n, n).Draw(t, "src")
			layout := rapid.SampledFrom([]string{"separate", "separate", "inplace", "inplace", "inplace-longer-dst"}).Draw(t, "layout")
			inplace := layout == "inplace"
			history = append(history, fmt.Sprintf("x%d.XORKeyStream(%d, %s) at offset %d", i, n, layout, in.m.off))
			ks := in.m.next(impl, n)
			want := make([]byte, n)
			for j := range want {
				want[j] = src[j] ^ ks[j]
			}
			var dst []byte
			if inplace {
				dst = append([]byte(nil), src...)
				in.x.XORKeyStream(dst, dst)
			} else if layout == "inplace-longer-dst" {
				// cipher.Stream: dst and src must overlap entirely or not at all; "entirely" includes a
				// message encrypted in place inside a larger buffer (same start, dst longer than src)
				extra := 1 + rapid.IntRange(0, 40).Draw(t, "extra")
				buf := append(append([]byte(nil), src...), bytes.Repeat([]byte{0x5a}, extra)...)
				in.x.XORKeyStream(buf, buf[:n])
				for _, b := range buf[n:] {
					if b != 0x5a {
						fail(op, "XORKeyStream wrote past len(src) of an in-place message inside a larger buffer")
					}
				}
				dst = buf[:n]
			} else {
				dst = make([]byte, n+rapid.IntRange(0, 3).Draw(t, "extra"))
				in.x.XORKeyStream(dst, src)
				for _, b := range dst[n:] {
					if b != 0 {
						fail(op, "XORKeyStream wrote past len(src)")
					}
				}
				dst = dst[:n]
			}
			if !bytes.Equal(dst, want) {
				fail(op, "XORKeyStream(%d) = %x, src XOR reference key stream = %x", n, dst, want)
			}
		case "Reseed":
			history = append(history, fmt.Sprintf("x%d.Reseed() at offset %d", i, in.m.off))
			in.x.Reseed()
			key := in.m.next(impl, 128)
			in.m.seed, in.m.data, in.m.off, in.m.read = key, nil, 0, false
			nontrivial = true
		case "Clone":
			history = append(history, fmt.Sprintf("x%d = x%d.Clone() at offset %d", len(insts), i, in.m.off))
			insts = append(insts, &inst{in.x.Clone(), in.m.clone()})
			nontrivial = true
		case "Reset":
			history = append(history, fmt.Sprintf("x%d.Reset()", i))
			in.x.Reset()
			in.m.seed, in.m.data, in.m.off, in.m.read = in.m.origSeed, nil, 0, false
			nontrivial = true
		}
		labels = append(labels, "xof:"+impl.name+"/"+op)
	}
	// final: every live instance continues as its model says
	for i, in := range insts {
		buf := make([]byte, 70)
		io.ReadFull(in.x, buf)
		history = append(history, fmt.Sprintf("final x%d.Read(70)", i))
		if want := in.m.next(impl, 70); !bytes.Equal(buf, want) {
			fail("final", "instance x%d continues with %x, reference %x", i, buf, want)
		}
	}
	ev.Case(nontrivial, strings.Join(history, "; "), append(labels, fmt.Sprintf("seedlen:%d", seedLen))...)
}

// ---------------------------------------------------------------- random.New

type byteReader struct {
	data []byte
	pos  int
	fail bool // return an error instead of data
}

func (b *byteReader) Read(p []byte) (int, error) {
	if b.fail {
		return 0, errors.New("entropy source failed")
	}
	if b.pos >= len(b.data) {
		return 0, io.EOF
	}
	n := copy(p, b.data[b.pos:])
	b.pos += n
	return n, nil
}

func c19RandomNew(t *rapid.T, ev *evProp) {
	nr := rapid.IntRange(1, 4).Draw(t, "readers")
	type spec struct {
		data []byte
		fail bool
	}
	specs := make([]spec, nr)
	full := 0
	for i := range specs {
		kind := rapid.SampledFrom([]string{"full", "full", "short", "failing", "exact32"}).Draw(t, fmt.Sprintf("kind%d", i))
		switch kind {
		case "full":
			specs[i].data = rapid.SliceOfN(rapid.Byte(), 33, 80).Draw(t, fmt.Sprintf("d%d", i))
			full++
		case "exact32":
			specs[i].data = rapid.SliceOfN(rapid.Byte(), 32, 32).Draw(t, fmt.Sprintf("d%d", i))
			full++
		case "short":
			specs[i].data = rapid.SliceOfN(rapid.Byte(), 0, 31).Draw(t, fmt.Sprintf("d%d", i))
		case "failing":
			specs[i].fail = true
		}
	}
	if full == 0 {
		// "works as long as one reader does": all readers failing is the documented panic
		specs[0] = spec{data: rapid.SliceOfN(rapid.Byte(), 32, 64).Draw(t, "rescue")}
	}
	n := rapid.IntRange(1, 100).Draw(t, "outlen")
	src := rapid.SliceOfN(rapid.Byte(), n, n).Draw(t, "src")
	run := func(ss []spec) ([]byte, string) {
		var rs []io.Reader
		for _, s := range ss {
			rs = append(rs, &byteReader{data: append([]byte(nil), s.data...), fail: s.fail})
		}
		dst := make([]byte, n)
		pn := safelyCT(func() { random.New(rs...).XORKeyStream(dst, src) })
		return dst, pn
	}
	desc := fmt.Sprintf("random.New readers=%v out=%d", func() []string {
		var o []string
		for _, s := range specs {
			o = append(o, fmt.Sprintf("%d/%v", len(s.data), s.fail))
		}
		return o
	}(), n)
	out1, pn := run(specs)
	if pn != "" {
		violationOrKnown(t, ev, "C19/random.New/works", "stream with at least one working reader panicked: %s\n%s", pn, desc)
		return
	}
	out2, _ := run(specs)
	if !bytes.Equal(out1, out2) {
		violationOrKnown(t, ev, "C19/random.New/deterministic", "same reader contents gave different output\n%s", desc)
	}
	// unread tail bytes do not matter
	tail := make([]spec, nr)
	copy(tail, specs)
	changedTail := false
	for i := range tail {
		if len(tail[i].data) > 32 {
			d := append([]byte(nil), tail[i].data...)
			d[len(d)-1] ^= 0x5a
			tail[i].data = d
			changedTail = true
		}
	}
	if changedTail {
		if o, _ := run(tail); !bytes.Equal(o, out1) {
			violationOrKnown(t, ev, "C19/random.New/consumed-only", "changing bytes beyond the 32 consumed per reader changed the output\n%s", desc)
		}
	}
	// every consumed byte of every reader matters
	var cands [][2]int
	for i, s := range specs {
		if !s.fail {
			for j := 0; j < len(s.data) && j < 32; j++ {
				cands = append(cands, [2]int{i, j})
			}
		}
	}
	if len(cands) > 0 {
		c := cands[rapid.IntRange(0, len(cands)-1).Draw(t, "flip")]
		mod := make([]spec, nr)
		copy(mod, specs)
		d := append([]byte(nil), mod[c[0]].data...)
		d[c[1]] ^= 1 << uint(rapid.IntRange(0, 7).Draw(t, "bit"))
		mod[c[0]].data = d
		if o, _ := run(mod); bytes.Equal(o, out1) && n >= 8 {
			violationOrKnown(t, ev, "C19/random.New/depends-on-every-reader", "flipping consumed byte %d of reader %d did not change the output\n%s", c[1], c[0], desc)
		}
	}
	ev.Case(nr > 1 || full < nr, desc, "random.New", fmt.Sprintf("readers:%d", nr))
}

// schedReader: an entropy source whose behaviour is scheduled per CALL of the stream (the harness
// advances `call` before every XORKeyStream): it delivers that call's bytes and then reports EOF
// (so a call with fewer than 32 bytes is a short read, one with none a bare EOF), or fails.
// Sources come and go in practice: a device that is not ready yet, a pipe that is refilled.
type schedReader struct {
	call  *int
	plan  [][]byte // per call: bytes delivered; nil = error
	pos   int
	pcall int
}

func (r *schedReader) Read(p []byte) (int, error) {
	if r.pcall != *r.call {
		r.pcall, r.pos = *r.call, 0
	}
	d := r.plan[*r.call]
	if d == nil {
		return 0, errors.New("entropy source failed")
	}
	if r.pos >= len(d) {
		return 0, io.EOF
	}
	n := copy(p, d[r.pos:])
	r.pos += n
	return n, nil
}

// c19RandomNewReuse: ONE stream value is used for 2..4 calls while its readers change behaviour
// from call to call.  Per call: no panic when at least one reader delivers 32 bytes; two streams
// with the same schedules agree call by call; flipping one byte consumed in call j of any reader
// changes the output of call j.
func c19RandomNewReuse(t *rapid.T, ev *evProp) {
	nr := rapid.IntRange(1, 4).Draw(t, "readers")
	calls := rapid.IntRange(2, 4).Draw(t, "calls")
	plans := make([][][]byte, nr)
	var shape []string
	for i := range plans {
		plans[i] = make([][]byte, calls)
		var sh []string
		for j := 0; j < calls; j++ {
			kind := rapid.SampledFrom([]string{"full", "full", "short", "empty", "empty", "failing"}).Draw(t, fmt.Sprintf("kind%d.%d", i, j))
			switch kind {
			case "full":
				plans[i][j] = rapid.SliceOfN(rapid.Byte(), 32, 40).Draw(t, "d")
			case "short":
				plans[i][j] = rapid.SliceOfN(rapid.Byte(), 1, 31).Draw(t, "d")
			case "empty":
				plans[i][j] = []byte{}
			}
			sh = append(sh, kind)
		}
		shape = append(shape, strings.Join(sh, ","))
	}
	// every call has a working reader (all failing is the documented panic)
	for j := 0; j < calls; j++ {
		ok := false
		for i := range plans {
			ok = ok || len(plans[i][j]) >= 32
		}
		if !ok {
			plans[rapid.IntRange(0, nr-1).Draw(t, "rescue")][j] = rapid.SliceOfN(rapid.Byte(), 32, 33).Draw(t, "rd")
		}
	}
	n := rapid.IntRange(8, 64).Draw(t, "outlen")
	desc := fmt.Sprintf("random.New reused for %d calls, readers per call %v, out=%d", calls, shape, n)
	run := func(pl [][][]byte) ([][]byte, string) {
		call := 0
		var rs []io.Reader
		for i := range pl {
			rs = append(rs, &schedReader{call: &call, plan: pl[i], pcall: -1})
		}
		st := random.New(rs...)
		outs := make([][]byte, calls)
		for call = 0; call < calls; call++ {
			dst := make([]byte, n)
			if pn := safelyCT(func() { st.XORKeyStream(dst, make([]byte, n)) }); pn != "" {
				return outs, fmt.Sprintf("call %d: %s", call, pn)
			}
			outs[call] = dst
		}
		return outs, ""
	}
	o1, pn := run(plans)
	if pn != "" {
		violationOrKnown(t, ev, "C19/random.New/reuse-works", "a stream with a working reader in every call panicked (%s)\n%s", pn, desc)
		return
	}
	o2, _ := run(plans)
	for j := range o1 {
		if !bytes.Equal(o1[j], o2[j]) {
			violationOrKnown(t, ev, "C19/random.New/reuse-deterministic", "call %d: same reader schedules, different output\n%s", j, desc)
		}
	}
	// one consumed byte of one reader in one call
	var cands [][3]int
	for i := range plans {
		for j := range plans[i] {
			for k := 0; k < len(plans[i][j]) && k < 32; k++ {
				cands = append(cands, [3]int{i, j, k})
			}
		}
	}
	c := cands[rapid.IntRange(0, len(cands)-1).Draw(t, "flip")]
	mod := make([][][]byte, nr)
	for i := range plans {
		mod[i] = append([][]byte(nil), plans[i]...)
	}
	d := append([]byte(nil), mod[c[0]][c[1]]...)
	d[c[2]] ^= 1 << uint(rapid.IntRange(0, 7).Draw(t, "bit"))
	mod[c[0]][c[1]] = d
	o3, pn := run(mod)
	if pn != "" {
		violationOrKnown(t, ev, "C19/random.New/reuse-works", "panic after flipping one delivered bit (%s)\n%s", pn, desc)
		return
	}
	if bytes.Equal(o3[c[1]], o1[c[1]]) {
		violationOrKnown(t, ev, "C19/random.New/reuse-depends-on-every-reader", "flipping byte %d that reader %d delivers in call %d did not change that call's output\n%s", c[2], c[0], c[1], desc)
	}
	ev.Case(true, desc, "random.New-reuse", fmt.Sprintf("calls:%d", calls))
}

func safelyCT(f func()) (panicked string) {
	defer func() {
		if p := recover(); p != nil {
			if isRapidPanic(p) {
				panic(p)
			}
			panicked = fmt.Sprint(p)
		}
	}()
	f()
	return ""
}

func c19BitsInt(t *rapid.T, ev *evProp) {
	if rapid.Bool().Draw(t, "bits") {
		n := rapid.IntRange(0, 1030).Draw(t, "bitlen")
		exact := rapid.Bool().Draw(t, "exact")
		if n == 0 {
			exact = false // a 0-bit number with its top bit set does not exist
		}
		mk, sdesc := genStream(t, "st", big.NewInt(251))
		b := random.Bits(uint(n), exact, mk())
		v := new(big.Int).SetBytes(b)
		desc := fmt.Sprintf("random.Bits(%d,%v,%s)", n, exact, sdesc)
		if len(b) != (n+7)/8 || v.BitLen() > n || (exact && v.BitLen() != n) {
			violationOrKnown(t, ev, "C19/random.Bits/range", "%s = %x: len %d (want %d), BitLen %d", desc, b, len(b), (n+7)/8, v.BitLen())
		}
		if b2 := random.Bits(uint(n), exact, mk()); !bytes.Equal(b, b2) {
			violationOrKnown(t, ev, "C19/random.Bits/deterministic", "%s not deterministic", desc)
		}
		ev.Case(n%8 != 0 || exact, desc, "random.Bits", fmt.Sprintf("exact:%v", exact))
		return
	}
	// modulus of 1..521 bits incl. 1, 2, 2^k, 2^k±1
	kind := rapid.SampledFrom([]string{"small", "pow2", "pow2-1", "pow2+1", "random", "random"}).Draw(t, "mkind")
	m := new(big.Int)
	switch kind {
	case "small":
		m.SetInt64(int64(rapid.IntRange(1, 300).Draw(t, "m")))
	case "pow2", "pow2-1", "pow2+1":
		k := rapid.IntRange(1, 520).Draw(t, "k")
		m = pow2(k)
		if kind == "pow2-1" {
			m.Sub(m, big1)
		} else if kind == "pow2+1" {
			m.Add(m, big1)
		}
	default:
		nb := rapid.IntRange(1, 66).Draw(t, "nbytes")
		m.SetBytes(rapid.SliceOfN(rapid.Byte(), nb, nb).Draw(t, "mbytes"))
		m.Rsh(m, uint(rapid.IntRange(0, 7).Draw(t, "shr")))
		if m.Sign() == 0 {
			m.SetInt64(1)
		}
		if m.BitLen() > 521 {
			m.Rsh(m, uint(m.BitLen()-521))
		}
	}
	mk, sdesc := genStream(t, "st", m)
	rec := &recStream{inner: mk()}
	mod := compatiblemod.FromBigInt(new(big.Int).Set(m))
	v := random.Int(mod, rec).ToBigInt()
	desc := fmt.Sprintf("random.Int(m=%x [%s], %s)", m, kind, sdesc)
	if v.Sign() < 0 || v.Cmp(m) >= 0 {
		violationOrKnown(t, ev, "C19/random.Int/range", "%s = %x is not below the modulus", desc, v)
	}
	v2 := random.Int(mod, &replayStream{buf: rec.consumed}).ToBigInt()
	if v2.Cmp(v) != 0 {
		violationOrKnown(t, ev, "C19/random.Int/consumed-only", "%s: replaying the %d consumed bytes gives %x instead of %x", desc, len(rec.consumed), v2, v)
	}
	ev.Case(kind != "pow2", desc, "random.Int", "m:"+kind)
}

// TestC19_IntBias decides modulo bias exhaustively: for a modulus m and every possible stream
// prefix of ceil(bitlen(m)/8) bytes, the calls that consumed exactly that prefix must produce every
// value of [0,m) equally often.
func TestC19_IntBias(t *testing.T) {
	ev := evFor("C19")
	var mods []int64
	for m := int64(1); m <= 64; m++ {
		mods = append(mods, m)
	}
	mods = append(mods, 65, 100, 127, 128, 129, 200, 255, 256, 257, 300, 511, 512, 513, 1000, 4095, 4097, 32767, 32768, 32769, 40000, 65535)
	if tier() == "thorough" {
		for m := int64(66); m < 2100; m += 7 {
			mods = append(mods, m)
		}
		mods = append(mods, 65536-1, 50001, 33333)
	}
	for idx, m := range mods {
		if !mine(idx) {
			continue
		}
		M := big.NewInt(m)
		mod := compatiblemod.FromBigInt(M)
		nb := (M.BitLen() + 7) / 8
		counts := make([]int, m)
		total := 1 << uint(8*nb)
		firstTry := 0
		for p := 0; p < total; p++ {
			prefix := make([]byte, nb)
			for j := 0; j < nb; j++ {
				prefix[j] = byte(p >> uint(8*(nb-1-j)))
			}
			rec := &recStream{inner: &prefixStream{prefix: prefix, tail: xofStream([]byte("bias-tail"))}}
			v := random.Int(mod, rec).ToBigInt()
			if v.Sign() < 0 || v.Cmp(M) >= 0 {
				violationOrKnown(t, ev, "C19/random.Int/range", "random.Int(m=%d) on prefix %x returned %v", m, prefix, v)
				continue
			}
			if len(rec.consumed) == nb {
				counts[v.Int64()]++
				firstTry++
			}
		}
		for v, c := range counts {
			if c != counts[0] || c == 0 {
				violationOrKnown(t, ev, "C19/random.Int/bias", "random.Int(m=%d): over all %d prefixes of %d byte(s), value %d is produced %d times but value 0 %d times (first-try results must be uniform)", m, total, nb, v, c, counts[0])
				break
			}
		}
		ev.Case(m&(m-1) != 0, fmt.Sprintf("bias m=%d prefixes=%d first-try=%d per-value=%d", m, total, firstTry, counts[0]), "random.Int.bias")
	}
	ev.Exhaustive("random.Int first-try outcome distribution over all 1- and 2-byte stream prefixes for the listed moduli")
}

const c19Rule = "three families. (XOF state machine) implementation in {blake2xb, blake2xs, keccak}, seed length from {0,1,16,31..33,63..65,100,127..129,200,300,any 0..300}, 1..30 steps over a growing set of instances from " +
	"{Write(n), Read(n), XORKeyStream(n, separate buffers / in place / in place inside a larger buffer), Reseed, Clone, Reset (factory-made instances only)}, chunk sizes from {0,1,2,31..33,63..65,127..129,135..137,200,256,600, 2^k+j for k in 9..13, any}; Write is only generated while nothing was read in the current epoch (documented panic otherwise); " +
	"every output is compared with a single-shot reference computed from scratch on golang.org/x/crypto (seed, all absorbed data, one Read of offset+n bytes); Reseed = new instance keyed with the next 128 output bytes; Reset = back to New(seed). " +
	"(random.New) 1..4 readers full/short/failing with at least one delivering 32 bytes: no panic, deterministic, unaffected by unread bytes, changed by any flipped consumed byte. (random.Bits/Int) bit lengths 0..1030, moduli of 1..521 bits incl. 1, 2, 2^k, 2^k±1, adversarial streams: range, exact bit length, function of consumed bytes; bias decided exhaustively over all 1-/2-byte prefixes. " +
	"non-trivial = a machine run containing Reseed/Clone/Reset or a read straddling a 64-byte block boundary; several or partly failing readers; non-byte-aligned or exact Bits; non-power-of-two modulus; distinct = distinct rendered case" +
	" Added after the sensitivity rounds: the caller overwrites the seed buffer passed to New and every written buffer."

func TestC19_XOF(t *testing.T) {
	ev := evFor("C19")
	ev.Rule(c19Rule)
	ev.Assume("golang.org/x/crypto blake2b/blake2s XOFs and SHAKE256 are chunk-independent and correct (they are the reference); Write after Read without Reseed and an all-failing reader set are documented panics and not generated; random.Bits(0, exact) is outside the domain")
	for _, impl := range xofImpls {
		impl := impl
		t.Run(impl.name, func(t *testing.T) {
			rcheck(t, 2400, 1200000, func(t *rapid.T) { c19XOFMachine(t, ev, impl) })
		})
	}
}

func TestC19_Random(t *testing.T) {
	ev := evFor("C19")
	rcheck(t, 3000, 1200000, func(t *rapid.T) {
		if rapid.IntRange(0, 2).Draw(t, "family") == 0 {
			if rapid.Bool().Draw(t, "reuse") {
				c19RandomNewReuse(t, ev)
			} else {
				c19RandomNew(t, ev)
			}
		} else {
			c19BitsInt(t, ev)
		}
	})
}
