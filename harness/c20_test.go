//go:build !constantTime

package harness

// C20 — shared read-only use is free of data races.  The binary is built with -race; the Go race
// detector is the oracle (it reports every unsynchronised conflicting pair of accesses that
// executes, independent of their real-time order), and every goroutine's results are compared
// with a sequential run.  (a) table: every group x every unordered pair of read-only methods on
// one shared value; (b) rapid-drawn mixes over several shared values and scheme objects.

import (
	"bytes"
	"fmt"
	"go.dedis.ch/kyber/v4/compatible/compatiblemod"
	"go.dedis.ch/kyber/v4/pairing/bn254"
	"go.dedis.ch/kyber/v4/sign/bls"
	"go.dedis.ch/kyber/v4/util/random"
	"go.dedis.ch/kyber/v4/xof/blake2xb"
	"go.dedis.ch/kyber/v4/xof/blake2xs"
	"go.dedis.ch/kyber/v4/xof/keccak"
	"math/big"
	"strings"
	"sync"
	"testing"

	"go.dedis.ch/kyber/v4"
	"go.dedis.ch/kyber/v4/group/edwards25519"
	"go.dedis.ch/kyber/v4/pairing"
	"go.dedis.ch/kyber/v4/pairing/bn256"
	"go.dedis.ch/kyber/v4/proof"
	"go.dedis.ch/kyber/v4/share"
	"go.dedis.ch/kyber/v4/share/pvss"
	"go.dedis.ch/kyber/v4/sign/bdn"
	"go.dedis.ch/kyber/v4/sign/cosi"
	"go.dedis.ch/kyber/v4/sign/eddsa"
	"go.dedis.ch/kyber/v4/sign/schnorr"
	"pgregory.net/rapid"
)

type roMethod struct {
	name string
	// f runs the read-only use of the shared objects and returns a result to compare
	f func() string
}

// c20PointMethods: read-only uses of a shared point P (and shared scalar k, other point Q).
func c20PointMethods(gi *GroupInfo, P, Q kyber.Point, k kyber.Scalar) []roMethod {
	g := gi.G
	ms := []roMethod{
		{"MarshalBinary", func() string { b, _ := P.MarshalBinary(); return fmt.Sprintf("%x", b) }},
		{"MarshalTo", func() string { var w bytes.Buffer; P.MarshalTo(&w); return fmt.Sprintf("%x", w.Bytes()) }},
		{"String", func() string { return P.String() }},
		{"Equal", func() string { return fmt.Sprint(P.Equal(Q), Q.Equal(P), P.Equal(P)) }},
		{"Clone", func() string { return pointHex(P.Clone()) }},
		{"MarshalSize", func() string { return fmt.Sprint(P.MarshalSize()) }},
		{"Add-operand", func() string { return pointHex(newPoint(gi).Add(P, Q)) }},
		{"Sub-operand", func() string { return pointHex(newPoint(gi).Sub(Q, P)) }},
		{"Neg-operand", func() string { return pointHex(newPoint(gi).Neg(P)) }},
		{"Mul-operand", func() string { return pointHex(newPoint(gi).Mul(k, P)) }},
		{"Set-source", func() string { return pointHex(newPoint(gi).Set(P)) }},
		{"scalar.MarshalBinary", func() string { b, _ := k.MarshalBinary(); return fmt.Sprintf("%x", b) }},
		{"scalar.String", func() string { return k.String() }},
		{"scalar.Clone+Equal", func() string { c := k.Clone(); return fmt.Sprint(c.Equal(k), k.Equal(c)) }},
		{"scalar.Add-operand", func() string { b, _ := g.Scalar().Add(k, k).MarshalBinary(); return fmt.Sprintf("%x", b) }},
		{"scalar.Mul-operand", func() string {
			b, _ := g.Scalar().Mul(k, g.Scalar().One()).MarshalBinary()
			return fmt.Sprintf("%x", b)
		}},
	}
	if gi.HasEmbed {
		ms = append(ms, roMethod{"Data", func() string { d, err := P.Data(); return fmt.Sprintf("%x/%v", d, err != nil) }})
	}
	if gi.MulNil {
		ms = append(ms, roMethod{"Mul(k,nil)", func() string { return pointHex(newPoint(gi).Mul(k, nil)) }})
	}
	if gi.Role == 1 {
		s := gi.Suite
		q2 := s.G2.G.Point().Base()
		ms = append(ms, roMethod{"Pair-operand", func() string { return pointHex(s.S.Pair(P, q2)) }},
			roMethod{"ValidatePairing-operand", func() string { return fmt.Sprint(s.S.ValidatePairing(P, q2, P, q2)) }})
	}
	if gi.Role == 2 {
		s := gi.Suite
		p1 := s.G1.G.Point().Base()
		ms = append(ms, roMethod{"Pair-operand", func() string { return pointHex(s.S.Pair(p1, P)) }},
			roMethod{"ValidatePairing-operand", func() string { return fmt.Sprint(s.S.ValidatePairing(p1, P, p1, P)) }})
	}
	return ms
}

// c20Shared builds the shared objects in a non-normalised state (results of arithmetic).
func c20Shared(gi *GroupInfo, seed string) (P, Q kyber.Point, k kyber.Scalar) {
	g := gi.G
	st := xofStream([]byte("c20-" + gi.Name + seed))
	k = g.Scalar().Pick(st)
	a := g.Scalar().Pick(st)
	B := basePoint(gi)
	P = g.Point().Add(g.Point().Mul(a, B), g.Point().Mul(k, B))
	Q = g.Point().Mul(g.Scalar().Add(a, g.Scalar().One()), B)
	markVT(gi, P)
	markVT(gi, Q)
	if strings.HasSuffix(seed, "/identity") {
		// the shared point is the identity: once as the result of arithmetic (P-P, internals not
		// normalised), once from Null() - normalising code paths treat it specially
		P = markVT(gi, g.Point().Sub(P, P))
		Q = markVT(gi, g.Point().Null())
		return
	}
	if strings.HasSuffix(seed, "/decoded") {
		// the other way a shared value comes into being: decoded from bytes (points in affine form;
		// the scalar, where the decoder takes it, from an UNREDUCED encoding k+q - a lazily reducing
		// accessor would write into the shared object)
		P = decodeTwin(gi, P)
		Q = decodeTwin(gi, Q)
		var kb []byte
		if kv := new(big.Int).Add(scalarToBig(k), gi.Order); kv.BitLen() <= 8*g.ScalarLen() {
			kb = bigToBytes(kv, g.ScalarLen(), gi.LE)
		}
		// accepted and denoting the same residue (judged on a throw-away decode: Equal may compare
		// representations, and the accessors under test must see an untouched object)
		probe, k2 := g.Scalar(), g.Scalar()
		want, _ := k.MarshalBinary()
		if kb != nil && safely(func() {
			if probe.UnmarshalBinary(kb) != nil || k2.UnmarshalBinary(kb) != nil {
				k2 = nil
			} else if got, _ := probe.MarshalBinary(); !bytes.Equal(got, want) {
				k2 = nil
			}
		}) == "" && k2 != nil {
			k = k2
		} else {
			k2 := g.Scalar()
			b, _ := k.MarshalBinary()
			if k2.UnmarshalBinary(b) == nil {
				k = k2
			}
		}
	}
	return
}

func decodeTwin(gi *GroupInfo, p kyber.Point) kyber.Point {
	b, err := p.MarshalBinary()
	q := gi.G.Point()
	if err != nil || q.UnmarshalBinary(b) != nil {
		return p
	}
	return markVT(gi, q)
}

func c20Iters(gi *GroupInfo) (goroutines, iters int) {
	switch {
	case gi.Role == 3:
		return 4, 2
	case gi.Role != 0 || gi.Family == "qr512" || gi.Extra:
		return 4, 3
	}
	return 8, 6
}

// runConcurrent runs the methods on the shared objects from several goroutines and compares each
// result with the sequential expectation (computed on an identical but separate set of objects).
func runConcurrent(ms []roMethod, expect []string, goroutines, iters int) (mismatch string) {
	var wg sync.WaitGroup
	var mu sync.Mutex
	start := make(chan struct{})
	for gidx := 0; gidx < goroutines; gidx++ {
		wg.Add(1)
		go func(gidx int) {
			defer wg.Done()
			<-start
			for it := 0; it < iters; it++ {
				for off := range ms {
					mi := (gidx + off) % len(ms)
					if got := ms[mi].f(); got != expect[mi] {
						mu.Lock()
						mismatch = fmt.Sprintf("%s returned %.80s, sequential run gives %.80s", ms[mi].name, got, expect[mi])
						mu.Unlock()
					}
				}
			}
		}(gidx)
	}
	close(start)
	wg.Wait()
	return mismatch
}

func TestC20_Table(t *testing.T) {
	ev := evFor("C20")
	ev.Rule(c20Rule)
	ev.Assume("the Go race detector reports an unsynchronised conflicting access pair whenever both accesses execute in the run, whatever their order; a race on a path that is only taken under a particular interleaving would be missed (the schedule is not owned by the harness)")
	groups := Groups(tier() == "thorough")
	reps := 1
	if tier() == "thorough" {
		reps = 6
	}
	for gidx, gi := range groups {
		if !mine(gidx) {
			continue
		}
		gi := gi
		for rep := 0; rep < reps; rep++ {
			seed := fmt.Sprintf("%d-%d", envInt("VERIF_SEED", 1), rep)
			// sequential expectation on a twin set of objects
			P0, Q0, k0 := c20Shared(gi, seed)
			twin := c20PointMethods(gi, P0, Q0, k0)
			expect := make([]string, len(twin))
			for i, m := range twin {
				expect[i] = m.f()
			}
			P, Q, k := c20Shared(gi, seed)
			ms := c20PointMethods(gi, P, Q, k)
			gr, it := c20Iters(gi)
			for i := 0; i < len(ms); i++ {
				for j := i; j < len(ms); j++ {
					name := fmt.Sprintf("%s/%s+%s", gi.Name, ms[i].name, ms[j].name)
					pair := []roMethod{ms[i], ms[j]}
					pexp := []string{expect[i], expect[j]}
					t.Run(name, func(t *testing.T) {
						// a fresh shared value per pair so that a detected race is attributed to this pair
						Pp, Qp, kp := c20Shared(gi, seed)
						fresh := c20PointMethods(gi, Pp, Qp, kp)
						pair = []roMethod{fresh[i], fresh[j]}
						if mm := runConcurrent(pair, pexp, gr, it); mm != "" {
							violationOrKnown(t, ev, "C20/"+gi.Name+"/result-mismatch", "concurrent read-only use changed a result: %s", mm)
						}
					})
					ev.Case(true, name, "race-table:"+gi.Name)
				}
			}
		}
	}
	// the same methods, each against itself, on shared values that were DECODED from bytes (scalar from an
	// unreduced encoding where accepted): two goroutines in the same lazily-normalising accessor race
	for _, mode := range []string{"decoded", "identity"} {
		for gidx, gi := range groups {
			if !mine(gidx) {
				continue
			}
			gi := gi
			seed := fmt.Sprintf("%d/%s", envInt("VERIF_SEED", 1), mode)
			P0, Q0, k0 := c20Shared(gi, seed)
			twin := c20PointMethods(gi, P0, Q0, k0)
			gr, it := c20Iters(gi)
			for i := range twin {
				i := i
				want := twin[i].f()
				name := fmt.Sprintf("%s/%s/%s", gi.Name, mode, twin[i].name)
				t.Run(name, func(t *testing.T) {
					Pp, Qp, kp := c20Shared(gi, seed)
					m := c20PointMethods(gi, Pp, Qp, kp)[i]
					if mm := runConcurrent([]roMethod{m, m}, []string{want, want}, gr, it); mm != "" {
						violationOrKnown(t, ev, "C20/"+gi.Name+"/result-mismatch", "concurrent read-only use changed a result: %s", mm)
					}
				})
				ev.Case(true, name, "race-table-"+mode+":"+gi.Name)
			}
		}
	}
	ev.Exhaustive("group x unordered pair of read-only methods (each pair on a fresh shared value built by arithmetic); group x method on shared values decoded from bytes and on a shared identity")
}

// c20SchemeMethods: read-only uses of shared scheme objects.
func c20SchemeMethods() []roMethod {
	ed := edwards25519.NewBlakeSHA256Ed25519()
	gi := groupByName("ed25519")
	st := xofStream([]byte("c20-schemes"))
	var ms []roMethod
	// Schnorr / EdDSA verification with a shared public key and signature
	x := ed.Scalar().Pick(st)
	X := ed.Point().Mul(x, nil)
	msg := []byte("message")
	sig, _ := schnorr.Sign(ed, x, msg)
	ms = append(ms, roMethod{"schnorr.Verify(shared key)", func() string { return fmt.Sprint(schnorr.Verify(ed, X, msg, sig)) }})
	// suite random stream
	ms = append(ms, roMethod{"suite.RandomStream", func() string {
		b := make([]byte, 16)
		ed.RandomStream().XORKeyStream(b, b)
		return "ok"
	}})
	// ONE stream value shared by all goroutines (util/random.New: "can be used in multiple threads"),
	// drawn from directly and through Pick
	shared := random.New()
	suiteStream := ed.RandomStream()
	ms = append(ms, roMethod{"random.New() shared stream: XORKeyStream", func() string {
		b := make([]byte, 48)
		shared.XORKeyStream(b, b)
		return "ok"
	}}, roMethod{"suite.RandomStream() shared stream: Scalar.Pick+Point.Pick", func() string {
		_ = ed.Scalar().Pick(suiteStream)
		_ = ed.Point().Pick(suiteStream)
		return "ok"
	}}, roMethod{"random.Bits/Int on the shared stream", func() string {
		_ = random.Bits(130, true, shared)
		if v := random.Int(compatiblemod.FromBigInt(new(big.Int).Set(ordEd25519)), shared).ToBigInt(); v.Sign() < 0 || v.Cmp(ordEd25519) >= 0 {
			return "out of range"
		}
		return "ok"
	}})
	// hash-to-curve through ONE shared suite whose domain separation tags were set by the caller
	// (tags of several lengths: an append onto the suite's stored tag is invisible in the results)
	for _, dl := range []int{5, 43, 64} {
		bs := bn254.NewSuite()
		bs.SetDomainG1(bytes.Repeat([]byte{'d'}, dl))
		bs.SetDomainG2(bytes.Repeat([]byte{'e'}, dl))
		g1p, g2p := bs.G1().Point(), bs.G2().Point()
		sch := bls.NewSchemeOnG1(bs)
		bx, bX := sch.NewKeyPair(st)
		bsig, _ := sch.Sign(bx, msg)
		ms = append(ms, roMethod{fmt.Sprintf("bn254 caller-set DST(%d): G1 Hash", dl), func() string {
			h1 := bs.G1().Point().(kyber.HashablePoint).Hash(msg)
			h2 := g1p.Clone().(kyber.HashablePoint).Hash(msg)
			return pointHex(h1) + pointHex(h2)
		}}, roMethod{fmt.Sprintf("bn254 caller-set DST(%d): G2 Hash", dl), func() string {
			if hp, ok := g2p.Clone().(kyber.HashablePoint); ok {
				return pointHex(hp.Hash(msg))
			}
			return "n/a"
		}}, roMethod{fmt.Sprintf("bn254 caller-set DST(%d): bls Sign+Verify", dl), func() string {
			s2, err := sch.Sign(bx, msg)
			return fmt.Sprintf("%x %v %v", s2, err, sch.Verify(bX, msg, bsig))
		}})
	}
	// every goroutine takes its OWN clone of one shared XOF that has been used before (so that its
	// internal scratch buffers exist) and works on the clone: only Clone touches the shared object
	for _, xi := range []struct {
		name string
		mk   func([]byte) kyber.XOF
	}{{"blake2xb", blake2xb.New}, {"blake2xs", blake2xs.New}, {"keccak", keccak.New}} {
		xi := xi
		sharedX := xi.mk([]byte("c20-xof-" + xi.name))
		warm := make([]byte, 200)
		sharedX.XORKeyStream(warm, warm)
		sharedX.Reseed()
		sharedX.XORKeyStream(warm[:64], warm[:64])
		ms = append(ms, roMethod{xi.name + " XOF: Clone of a used shared XOF, XORKeyStream+Reseed on the clone", func() string {
			c := sharedX.Clone()
			b := make([]byte, 48)
			c.XORKeyStream(b, b)
			c.Reseed()
			b2 := make([]byte, 16)
			_, _ = c.Read(b2)
			return fmt.Sprintf("%x%x", b, b2)
		}})
	}
	// public polynomial
	pri := share.NewPriPoly(ed, 3, nil, st)
	pub := pri.Commit(nil)
	sh := pri.Eval(2)
	ms = append(ms, roMethod{"PubPoly.Eval", func() string { return pointHex(pub.Eval(4).V) }},
		roMethod{"PubPoly.Check", func() string { return fmt.Sprint(pub.Check(sh)) }},
		roMethod{"PubPoly.Commit+Info", func() string { _, c := pub.Info(); return pointHex(pub.Commit()) + pointHex(c[1]) }})
	// share lists held by several goroutines: interpolation and recovery read them only
	pubShares, priShares := pub.Shares(5), pri.Shares(5)
	ms = append(ms, roMethod{"share.RecoverCommit(shared shares)", func() string {
		c, err := share.RecoverCommit(ed, pubShares, 3, 5)
		return pointHex(c) + fmt.Sprint(err)
	}}, roMethod{"share.RecoverSecret(shared shares)", func() string {
		c, err := share.RecoverSecret(ed, priShares, 3, 5)
		return fmt.Sprint(c, err)
	}}, roMethod{"share.RecoverPubPoly+RecoverPriPoly(shared shares)", func() string {
		pp, e1 := share.RecoverPubPoly(ed, pubShares, 3, 5)
		rp, e2 := share.RecoverPriPoly(ed, priShares, 3, 5)
		if e1 != nil || e2 != nil {
			return fmt.Sprint(e1, e2)
		}
		return pointHex(pp.Commit()) + fmt.Sprint(rp.Secret())
	}}, roMethod{"shared share values: Clone+Equal+Marshal", func() string {
		out := ""
		for _, sh := range pubShares {
			c := sh.V.Clone()
			out += fmt.Sprint(c.Equal(sh.V)) + pointHex(sh.V)
		}
		return out
	}})
	// PVSS on shared encrypted / decrypted shares
	{
		H := ed.Point().Pick(st)
		n, th := 4, 3
		xs, Xs := make([]kyber.Scalar, n), make([]kyber.Point, n)
		for i := range xs {
			xs[i] = ed.Scalar().Pick(st)
			Xs[i] = ed.Point().Mul(xs[i], nil)
		}
		enc, ppoly, err := pvss.EncShares(ed, H, Xs, ed.Scalar().Pick(st), uint32(th))
		if err == nil {
			sH := make([]kyber.Point, n)
			for i := range sH {
				sH[i] = ppoly.Eval(uint32(i)).V
			}
			gc := enc[0].P.C
			var dec []*pvss.PubVerShare
			for i := range enc {
				d, _ := pvss.DecShare(ed, H, Xs[i], sH[i], xs[i], gc, enc[i])
				dec = append(dec, d)
			}
			G := ed.Point().Base()
			ms = append(ms, roMethod{"pvss.VerifyEncShareBatch(shared)", func() string {
				K, E, err := pvss.VerifyEncShareBatch(ed, H, Xs, sH, ppoly, enc)
				return fmt.Sprint(len(K), len(E), err)
			}}, roMethod{"pvss.RecoverSecret(shared)", func() string {
				r, err := pvss.RecoverSecret(ed, G, Xs, enc, dec, uint32(th), uint32(n))
				return pointHex(r) + fmt.Sprint(err)
			}})
		}
	}
	// proof verification with shared predicate and points (one verifier instance per call)
	pred := proof.Rep("X", "x", "B")
	pts := map[string]kyber.Point{"X": X, "B": ed.Point().Base()}
	prf, _ := proof.HashProve(ed, "c20", pred.Prover(ed, map[string]kyber.Scalar{"x": x}, pts, nil))
	ms = append(ms, roMethod{"proof.HashVerify(shared predicate+points)", func() string {
		return fmt.Sprint(proof.HashVerify(ed, "c20", pred.Verifier(ed, pts), prf))
	}})
	// masks
	var pubs []kyber.Point
	for i := 0; i < 5; i++ {
		pubs = append(pubs, ed.Point().Mul(ed.Scalar().Pick(st), nil))
	}
	cm, _ := cosi.NewMask(cosiSuite{ed, nil}, pubs, nil)
	cm.SetBit(1, true)
	ms = append(ms, roMethod{"cosi.Mask reads", func() string {
		return fmt.Sprintf("%x %d %d %s", cm.Mask(), cm.CountEnabled(), cm.CountTotal(), pointHex(cm.AggregatePublic))
	}})
	for _, c := range blsCombos() {
		c := c
		if c.name != "bn256/sigG1" && c.name != "bls.kilic/sigG1" && c.name != "bn254/sigG1" && c.name != "bls.circl/sigG2" && c.name != "bls.gnark/sigG1" {
			continue
		}
		sch := c.bdn()
		var bp []kyber.Point
		var priv []kyber.Scalar
		for i := 0; i < 3; i++ {
			a, A := sch.NewKeyPair(st)
			priv, bp = append(priv, a), append(bp, A)
		}
		mask, err := bdn.NewMask(c.key.G, bp, nil)
		if err != nil {
			continue
		}
		mask.SetBit(0, true)
		mask.SetBit(2, true)
		s0, _ := sch.Sign(priv[0], msg)
		ms = append(ms, roMethod{"bdn.Mask.Clone " + c.name, func() string {
			m2 := mask.Clone()
			m2.SetBit(1, true)
			return fmt.Sprintf("%x/%x", mask.Mask(), m2.Mask())
		}}, roMethod{"bdn.AggregatePublicKeys(shared mask) " + c.name, func() string {
			p, err := sch.AggregatePublicKeys(mask)
			return pointHex(p) + fmt.Sprint(err)
		}}, roMethod{"bls.Verify(shared key) " + c.name, func() string {
			return fmt.Sprint(sch.Verify(bp[0], msg, s0))
		}})
	}
	_ = gi
	return ms
}

func TestC20_Schemes(t *testing.T) {
	ev := evFor("C20")
	twin := c20SchemeMethods()
	expect := make([]string, len(twin))
	for i, m := range twin {
		expect[i] = m.f()
	}
	ms := c20SchemeMethods()
	for i := range ms {
		if !mine(i) {
			continue
		}
		for j := i; j < len(ms); j++ {
			name := ms[i].name + " + " + ms[j].name
			pexp := []string{expect[i], expect[j]}
			pair := []roMethod{ms[i], ms[j]}
			t.Run(name, func(t *testing.T) {
				if mm := runConcurrent(pair, pexp, 4, 2); mm != "" {
					violationOrKnown(t, ev, "C20/schemes/result-mismatch", "concurrent read-only use changed a result: %s", mm)
				}
			})
			ev.Case(true, "schemes: "+name, "race-schemes")
		}
	}
}

// TestC20_Mixes: rapid-drawn mixes of >= 3 methods over one group's shared values.
func TestC20_Mixes(t *testing.T) {
	ev := evFor("C20")
	groups := Groups(tier() == "thorough")
	rcheck(t, 60, 2000, func(t *rapid.T) {
		gi := groups[uniformInt(t, 0, len(groups)-1, "group")]
		seed := fmt.Sprintf("mix-%x", genSeed(t, "seed"))
		P0, Q0, k0 := c20Shared(gi, seed)
		twin := c20PointMethods(gi, P0, Q0, k0)
		P, Q, k := c20Shared(gi, seed)
		all := c20PointMethods(gi, P, Q, k)
		nm := rapid.IntRange(3, min(6, len(all))).Draw(t, "nmethods")
		idx := rapid.Permutation(seqInts(len(all))).Draw(t, "methods")[:nm]
		var ms []roMethod
		var expect []string
		var names []string
		for _, i := range idx {
			ms = append(ms, all[i])
			expect = append(expect, twin[i].f())
			names = append(names, all[i].name)
		}
		gr, it := c20Iters(gi)
		// all draws happened above; now the goroutines run
		if mm := runConcurrent(ms, expect, gr, it); mm != "" {
			violationOrKnown(t, ev, "C20/"+gi.Name+"/result-mismatch", "concurrent read-only use changed a result: %s (methods %v)", mm, names)
		}
		ev.Case(true, fmt.Sprintf("mix group=%s methods=%v", gi.Name, names), "race-mix:"+gi.Name)
	})
}

const c20Rule = "the test binary is built with -race. (table) for every exposed group and every unordered pair (incl. a method with itself) out of the read-only set {MarshalBinary, MarshalTo, String, Equal, Clone, MarshalSize, Data, use as operand of Add/Sub/Neg/Mul/Set/Pair/ValidatePairing writing elsewhere, Mul(k,nil), scalar MarshalBinary/String/Clone/Equal/operand of Add/Mul} 4-8 goroutines call the two methods on ONE shared value freshly built by arithmetic (non-normalised internals); " +
	"(schemes) pairs out of {schnorr.Verify with a shared key, suite.RandomStream reads, PubPoly.Eval/Check/Commit, proof.HashVerify with shared predicate and points, CoSi mask reads, BDN Mask.Clone / AggregatePublicKeys on a shared mask / bls.Verify with a shared key for five suite combinations}; (mixes) rapid-drawn sets of 3-6 methods over one group's shared values. " +
	"Oracle: the race detector's report (any 'DATA RACE' fails the sub-test whose name is the minimal repro) and equality of every concurrent result with a sequential run on twin objects. non-trivial = every case (all run concurrently on shared, non-normalised values); distinct = distinct (group, method set)" +
	" Added after the sensitivity rounds: flagged receivers; every method against itself on shared values DECODED from bytes (scalar from k+q); one stream value shared by all goroutines; shared bn254 suites with caller-set tags; per-goroutine clones of one used XOF."

// ------------------------------------------------------------------ first use is concurrent

// c20FreshFactories: each factory builds a NEW object (or set of values) and returns read-only
// operations on it.  TestC20_FirstUse starts several goroutines on an object nobody has used yet, so
// that the very first call of every operation runs concurrently with the others: a value computed
// lazily and stored inside the object on first use (a cached encoding, a table, a pooled engine) is
// written by all of them at once.  The warmed-up objects of the other C20 tests never show that.
func c20FreshFactories() []struct {
	name string
	mk   func(round int) []roMethod
} {
	ed := edwards25519.NewBlakeSHA256Ed25519()
	msg := []byte("first use")
	type fac = struct {
		name string
		mk   func(round int) []roMethod
	}
	var out []fac
	out = append(out, fac{"eddsa.NewEdDSA: Sign", func(round int) []roMethod {
		e := eddsa.NewEdDSA(xofStream([]byte(fmt.Sprintf("c20-fresh-eddsa-%d", round))))
		return []roMethod{{"EdDSA.Sign", func() string { s, err := e.Sign(msg); return fmt.Sprintf("%x %v", s, err) }},
			{"EdDSA.MarshalBinary", func() string { b, err := e.MarshalBinary(); return fmt.Sprintf("%x %v", b, err) }}}
	}}, fac{"EdDSA restored by UnmarshalBinary: Sign", func(round int) []roMethod {
		src := eddsa.NewEdDSA(xofStream([]byte(fmt.Sprintf("c20-fresh-eddsa2-%d", round))))
		b, _ := src.MarshalBinary()
		e := &eddsa.EdDSA{}
		if err := e.UnmarshalBinary(b); err != nil {
			return nil
		}
		return []roMethod{{"restored EdDSA.Sign", func() string { s, err := e.Sign(msg); return fmt.Sprintf("%x %v", s, err) }}}
	}}, fac{"eddsa.Verify with a fresh decoded key", func(round int) []roMethod {
		src := eddsa.NewEdDSA(xofStream([]byte(fmt.Sprintf("c20-fresh-eddsa3-%d", round))))
		sig, _ := src.Sign(msg)
		pb, _ := src.Public.MarshalBinary()
		P := ed.Point()
		if P.UnmarshalBinary(pb) != nil {
			return nil
		}
		return []roMethod{{"eddsa.Verify", func() string { return fmt.Sprint(eddsa.Verify(P, msg, sig)) }},
			{"schnorr.Verify", func() string { return fmt.Sprint(schnorr.Verify(ed, P, msg, sig)) }}}
	}}, fac{"share.NewPubPoly from commitments: Eval/Check/Commit", func(round int) []roMethod {
		st := xofStream([]byte(fmt.Sprintf("c20-fresh-poly-%d", round)))
		pri := share.NewPriPoly(ed, 3, nil, st)
		_, cs := pri.Commit(nil).Info()
		pub := share.NewPubPoly(ed, nil, cs)
		sh := pri.Eval(1)
		return []roMethod{{"PubPoly.Eval", func() string { return pointHex(pub.Eval(3).V) }},
			{"PubPoly.Check", func() string { return fmt.Sprint(pub.Check(sh)) }},
			{"PubPoly.Shares+Commit", func() string { return pointHex(pub.Shares(4)[3].V) + pointHex(pub.Commit()) }}}
	}})
	for _, c := range blsCombos() {
		c := c
		if c.name != "bn256/sigG1" && c.name != "bls.kilic/sigG1" && c.name != "bn254/sigG2" && c.name != "bls.circl/sigG2" && c.name != "bls.gnark/sigG1" {
			continue
		}
		out = append(out, fac{"bdn.NewMask " + c.name + ": AggregatePublicKeys/Clone", func(round int) []roMethod {
			sch := c.bdn()
			st := xofStream([]byte(fmt.Sprintf("c20-fresh-bdn-%s-%d", c.name, round)))
			var bp []kyber.Point
			for i := 0; i < 3; i++ {
				_, A := sch.NewKeyPair(st)
				bp = append(bp, A)
			}
			mask, err := bdn.NewMask(c.key.G, bp, nil)
			if err != nil {
				return nil
			}
			_ = mask.SetBit(0, true)
			_ = mask.SetBit(2, true)
			return []roMethod{{"AggregatePublicKeys", func() string { p, err := sch.AggregatePublicKeys(mask); return pointHex(p) + fmt.Sprint(err) }},
				{"Mask.Clone+reads", func() string { m2 := mask.Clone(); return fmt.Sprintf("%x %d", m2.Mask(), mask.CountEnabled()) }}}
		}}, fac{"fresh pairing suite " + c.name + ": Pair/ValidatePairing/bls", func(round int) []roMethod {
			var s pairing.Suite
			switch c.si.Name {
			case "bn256":
				s = bn256.NewSuite()
			case "bn254":
				s = bn254.NewSuite()
			default:
				s = c.si.S // the BLS12-381 adapters are stateless values handed out by the registry
			}
			st := xofStream([]byte(fmt.Sprintf("c20-fresh-pair-%s-%d", c.name, round)))
			a := s.G1().Scalar().Pick(st)
			P, Q := s.G1().Point().Mul(a, nil), s.G2().Point().Mul(a, nil)
			B1, B2 := s.G1().Point().Base(), s.G2().Point().Base()
			return []roMethod{{"Pair", func() string { return pointHex(s.Pair(P, B2)) }},
				{"ValidatePairing", func() string { return fmt.Sprint(s.ValidatePairing(P, B2, B1, Q), s.ValidatePairing(P, Q, B1, B2)) }}}
		}})
	}
	return out
}

func TestC20_FirstUse(t *testing.T) {
	ev := evFor("C20")
	rounds := budget(20, 320)
	for fi, f := range c20FreshFactories() {
		if !mine(fi) {
			continue
		}
		f := f
		t.Run(f.name, func(t *testing.T) {
			for round := 0; round < rounds; round++ {
				twin := f.mk(round)
				if twin == nil {
					return
				}
				expect := make([]string, len(twin))
				for i, m := range twin {
					expect[i] = m.f()
				}
				if mm := runConcurrent(f.mk(round), expect, 4, 1); mm != "" {
					violationOrKnown(t, ev, "C20/first-use/result-mismatch", "first concurrent use of a fresh object changed a result: %s (%s)", mm, f.name)
				}
			}
		})
		ev.Case(true, "first use: "+f.name, "race-first-use")
	}
}
