package harness

// Evidence collection: every property check reports each generated case here; TestMain dumps the
// counters so that the driver can write /verif/evidence/<id>.json from what was really executed.

import (
	"encoding/binary"
	"encoding/json"
	"flag"
	"fmt"
	"hash/fnv"
	"os"
	"sort"
	"strconv"
	"sync"
)

type evSample struct {
	fp   uint64
	text string
}

type evProp struct {
	mu          sync.Mutex
	id          string
	rule        string
	evaluations int64
	nontrivial  map[uint64]struct{}
	labels      map[string]int64
	samples     []evSample // the maxSamples non-trivial cases with the smallest fingerprints
	excluded    map[string]int64
	knownWhat   map[string]string
	assumptions []string
	exhaustive  map[string]bool
	notes       []string
}

const maxSamples = 6

var (
	evMu    sync.Mutex
	evProps = map[string]*evProp{}
)

func evFor(id string) *evProp {
	evMu.Lock()
	defer evMu.Unlock()
	e := evProps[id]
	if e == nil {
		e = &evProp{id: id, nontrivial: map[uint64]struct{}{}, labels: map[string]int64{},
			excluded: map[string]int64{}, knownWhat: map[string]string{}, exhaustive: map[string]bool{}}
		evProps[id] = e
	}
	return e
}

func fp64(s string) uint64 {
	h := fnv.New64a()
	h.Write([]byte(s))
	return h.Sum64()
}

// Rule records the statement of how cases are generated and what counts as non-trivial.
func (e *evProp) Rule(r string) { e.mu.Lock(); e.rule = r; e.mu.Unlock() }

func (e *evProp) Assume(a string) {
	e.mu.Lock()
	defer e.mu.Unlock()
	for _, x := range e.assumptions {
		if x == a {
			return
		}
	}
	e.assumptions = append(e.assumptions, a)
}

func (e *evProp) Note(a string) {
	e.mu.Lock()
	defer e.mu.Unlock()
	for _, x := range e.notes {
		if x == a {
			return
		}
	}
	e.notes = append(e.notes, a)
}

// Case records one evaluated case. desc is a human-readable rendering of the case; it is the
// identity used for distinctness. labels feed the histograms.
func (e *evProp) Case(nontrivial bool, desc string, labels ...string) {
	e.mu.Lock()
	defer e.mu.Unlock()
	e.evaluations++
	for _, l := range labels {
		e.labels[l]++
	}
	if !nontrivial {
		e.labels["_trivial"]++
		return
	}
	f := fp64(desc)
	if _, ok := e.nontrivial[f]; ok {
		return
	}
	e.nontrivial[f] = struct{}{}
	if len(e.samples) < maxSamples || f < e.samples[len(e.samples)-1].fp {
		if len(desc) > 700 {
			desc = desc[:700] + "…"
		}
		e.samples = append(e.samples, evSample{f, desc})
		sort.Slice(e.samples, func(i, j int) bool { return e.samples[i].fp < e.samples[j].fp })
		if len(e.samples) > maxSamples {
			e.samples = e.samples[:maxSamples]
		}
	}
}

// Label bumps a histogram bucket without counting a case.
func (e *evProp) Label(l string) { e.mu.Lock(); e.labels[l]++; e.mu.Unlock() }

// Exhaustive marks a named finite sub-space as completely enumerated in this run.
func (e *evProp) Exhaustive(name string) { e.mu.Lock(); e.exhaustive[name] = true; e.mu.Unlock() }

func (e *evProp) excludedHit(key, what string) {
	e.mu.Lock()
	e.excluded[key]++
	e.knownWhat[key] = what
	e.mu.Unlock()
}

type evDump struct {
	ID          string            `json:"id"`
	Rule        string            `json:"rule"`
	Evaluations int64             `json:"evaluations"`
	Distinct    int               `json:"distinct_nontrivial"`
	Labels      map[string]int64  `json:"labels"`
	Samples     []string          `json:"samples"`
	SampleFPs   []string          `json:"sample_fps"`
	Excluded    map[string]int64  `json:"excluded"`
	KnownWhat   map[string]string `json:"known_what"`
	Assumptions []string          `json:"assumptions"`
	Exhaustive  []string          `json:"exhaustive"`
	Notes       []string          `json:"notes"`
	FPFile      string            `json:"fp_file"`
	Failed      bool              `json:"failed"`
	RapidSeed   string            `json:"rapid_seed"`
}

func evDumpAll(failed bool) {
	out := os.Getenv("VERIF_EVOUT")
	if out == "" {
		return
	}
	seed := ""
	if f := flag.Lookup("rapid.seed"); f != nil {
		seed = f.Value.String()
	}
	var dumps []evDump
	evMu.Lock()
	defer evMu.Unlock()
	ids := make([]string, 0, len(evProps))
	for id := range evProps {
		ids = append(ids, id)
	}
	sort.Strings(ids)
	for _, id := range ids {
		e := evProps[id]
		e.mu.Lock()
		d := evDump{ID: id, Rule: e.rule, Evaluations: e.evaluations, Distinct: len(e.nontrivial),
			Labels: e.labels, Excluded: e.excluded, KnownWhat: e.knownWhat, Assumptions: e.assumptions,
			Notes: e.notes, Failed: failed, RapidSeed: seed}
		for _, s := range e.samples {
			d.Samples = append(d.Samples, s.text)
			d.SampleFPs = append(d.SampleFPs, strconv.FormatUint(s.fp, 16))
		}
		for k := range e.exhaustive {
			d.Exhaustive = append(d.Exhaustive, k)
		}
		sort.Strings(d.Exhaustive)
		d.FPFile = fmt.Sprintf("%s.%s.fp", out, id)
		buf := make([]byte, 0, 8*len(e.nontrivial))
		for f := range e.nontrivial {
			buf = binary.LittleEndian.AppendUint64(buf, f)
		}
		_ = os.WriteFile(d.FPFile, buf, 0o644)
		e.mu.Unlock()
		dumps = append(dumps, d)
	}
	b, _ := json.MarshalIndent(dumps, "", " ")
	_ = os.WriteFile(out, b, 0o644)
}
