package harness

// Generators shared by all properties.  Every random choice is a rapid draw.

import (
	"bytes"
	"crypto/cipher"
	"fmt"
	"math/big"
	"sync"

	"go.dedis.ch/kyber/v4"
	"go.dedis.ch/kyber/v4/xof/blake2xb"
	"pgregory.net/rapid"
)

var (
	big0 = big.NewInt(0)
	big1 = big.NewInt(1)
	big2 = big.NewInt(2)
)

func pow2(k int) *big.Int { return new(big.Int).Lsh(big1, uint(k)) }

var edgeBits = []int{4, 8, 16, 21, 32, 42, 63, 64, 84, 105, 126, 127, 128, 168, 189, 210, 231, 248, 252, 253, 254, 255, 256}

// genBig draws a residue in [0,q) from weighted edge classes.  The class name is returned for the
// histograms and for the non-triviality rules.
func genBig(t *rapid.T, q *big.Int, label string) (*big.Int, string) {
	bl := q.BitLen()
	cls := rapid.SampledFrom([]string{"zero", "one", "two", "q-1", "q-2", "half", "pow2", "pow2-1", "pow2+1",
		"lead0", "short64", "short127", "smallneg", "small", "window", "uniform", "uniform", "uniform", "uniform"}).Draw(t, label+".class")
	v := new(big.Int)
	switch cls {
	case "zero":
	case "one":
		v.SetInt64(1)
	case "two":
		v.SetInt64(2)
	case "q-1":
		v.Sub(q, big1)
	case "q-2":
		v.Sub(q, big2)
	case "half":
		v.Rsh(q, 1)
		v.Add(v, big.NewInt(int64(rapid.IntRange(-1, 1).Draw(t, label+".d"))))
	case "pow2", "pow2-1", "pow2+1":
		var ks []int
		for _, k := range edgeBits {
			if k < bl {
				ks = append(ks, k)
			}
		}
		ks = append(ks, bl-1)
		k := rapid.SampledFrom(ks).Draw(t, label+".k")
		v = pow2(k)
		if cls == "pow2-1" {
			v.Sub(v, big1)
		} else if cls == "pow2+1" {
			v.Add(v, big1)
		}
	case "lead0":
		nb := rapid.SampledFrom([]int{1, 8, 16, (bl+7)/8 - 1}).Draw(t, label+".nb")
		v.SetBytes(rapid.SliceOfN(rapid.Byte(), nb, nb).Draw(t, label+".b"))
	case "short64":
		v.SetUint64(rapid.Uint64().Draw(t, label+".u"))
	case "short127":
		v.SetBytes(rapid.SliceOfN(rapid.Byte(), 16, 16).Draw(t, label+".b"))
		v.Rsh(v, 1)
	case "smallneg":
		v.Sub(q, big.NewInt(int64(rapid.IntRange(1, 300).Draw(t, label+".k"))))
	case "small":
		v.SetInt64(int64(rapid.IntRange(0, 300).Draw(t, label+".k")))
	case "window":
		// digits on signed-window / nibble boundaries: 8*16^k, 15*16^k, 0x88..8, 0xff..f patterns
		nb := (bl + 7) / 8
		pat := rapid.SampledFrom([]byte{0x88, 0x80, 0x0f, 0xf0, 0xff, 0x78, 0x87, 0x11, 0xee}).Draw(t, label+".pat")
		b := make([]byte, nb)
		for i := range b {
			b[i] = pat
		}
		v.SetBytes(b)
	default:
		v.SetBytes(rapid.SliceOfN(rapid.Byte(), (bl+7)/8+8, (bl+7)/8+8).Draw(t, label+".b"))
	}
	v.Mod(v, q)
	return v, cls
}

func isEdgeClass(c string) bool { return c != "uniform" && c != "" }

// bigToBytes renders v as exactly n bytes in the given byte order.
func bigToBytes(v *big.Int, n int, le bool) []byte {
	b := v.Bytes()
	if len(b) > n {
		panic("bigToBytes: value too large")
	}
	out := make([]byte, n)
	copy(out[n-len(b):], b)
	if le {
		reverseBytes(out)
	}
	return out
}

func reverseBytes(b []byte) {
	for i, j := 0, len(b)-1; i < j; i, j = i+1, j-1 {
		b[i], b[j] = b[j], b[i]
	}
}

func bytesToBig(b []byte, le bool) *big.Int {
	c := append([]byte(nil), b...)
	if le {
		reverseBytes(c)
	}
	return new(big.Int).SetBytes(c)
}

func scalarLE(s kyber.Scalar) bool { return s.ByteOrder() == kyber.LittleEndian }

// scalarFromBig creates a scalar of g holding v (0<=v<q) through SetBytes with a canonical-length
// encoding in the declared byte order.
func scalarFromBig(g kyber.Group, v *big.Int) kyber.Scalar {
	s := g.Scalar()
	return s.SetBytes(bigToBytes(v, g.ScalarLen(), scalarLE(s)))
}

// scalarToBig reads the residue back through MarshalBinary (interpreted in ByteOrder()).
func scalarToBig(s kyber.Scalar) *big.Int {
	b, err := s.MarshalBinary()
	if err != nil {
		panic(err)
	}
	return bytesToBig(b, scalarLE(s))
}

type SVal struct {
	S     kyber.Scalar
	V     *big.Int
	Class string
	Door  string
}

func (s SVal) String() string { return fmt.Sprintf("%s/%s:%x", s.Class, s.Door, s.V) }

// genScalar returns a scalar of gi holding an edge-biased residue, entered through one of the
// sound doors (canonical SetBytes, SetInt64, UnmarshalBinary, result of arithmetic).
func genScalar(t *rapid.T, gi *GroupInfo, label string) SVal {
	v, cls := genBig(t, gi.Order, label)
	g := gi.G
	doors := []string{"setbytes", "unmarshal", "arith", "setbytes-unreduced"}
	if v.IsInt64() {
		doors = append(doors, "setint64")
	}
	door := rapid.SampledFrom(doors).Draw(t, label+".door")
	var s kyber.Scalar
	switch door {
	case "setbytes":
		s = scalarFromBig(g, v)
	case "setbytes-unreduced":
		// SetBytes reduces: the same residue entered as v + k*q, at the scalar's own length when that
		// fits (k = 1, or the largest k that fits) and one byte longer otherwise.  Everything that
		// is done with the scalar afterwards - Equal, encodings, arithmetic - is done with the residue.
		le := scalarLE(g.Scalar())
		n := g.ScalarLen()
		room := new(big.Int).Sub(new(big.Int).Lsh(big1, uint(8*n)), v)
		kmax := new(big.Int).Div(new(big.Int).Sub(room, big1), gi.Order)
		k := big.NewInt(1)
		if kmax.Sign() > 0 && rapid.Bool().Draw(t, label+".kmax") {
			k = kmax
		}
		w := new(big.Int).Add(v, new(big.Int).Mul(k, gi.Order))
		if kmax.Sign() == 0 {
			n++
		}
		s = g.Scalar().SetBytes(bigToBytes(w, n, le))
	case "setint64":
		s = g.Scalar().SetInt64(v.Int64())
	case "unmarshal":
		s = g.Scalar()
		// MarshalBinary byte order equals ByteOrder() for every implementation (asserted in C02/C03)
		if err := s.UnmarshalBinary(bigToBytes(v, g.ScalarLen(), scalarLE(s))); err != nil {
			t.Fatalf("UnmarshalBinary of canonical scalar %x failed: %v", v, err)
		}
	case "arith":
		w, _ := genBig(t, gi.Order, label+".w")
		a := scalarFromBig(g, new(big.Int).Mod(new(big.Int).Add(v, w), gi.Order))
		b := scalarFromBig(g, w)
		s = g.Scalar().Sub(a, b)
	}
	return SVal{S: s, V: v, Class: cls, Door: door}
}

// xofStream is a deterministic cipher.Stream derived from rapid-drawn bytes.
func xofStream(seed []byte) cipher.Stream { return blake2xb.New(seed) }

// uniformInt draws an integer uniformly from [lo,hi].  rapid's own integer generators are biased
// towards small magnitudes (a geometric choice of the bit length), which is what one wants for
// sizes but not for a position inside a structure: the tail of a 4096-byte message or the last 16
// bytes of a ciphertext would be visited far less often than the head.  The draw is still a rapid
// draw (replayable, shrinkable - towards an arbitrary but fixed position).
func uniformInt(t *rapid.T, lo, hi int, label string) int {
	if hi <= lo {
		return lo
	}
	z := rapid.Uint64().Draw(t, label) + 0x9e3779b97f4a7c15
	z = (z ^ (z >> 30)) * 0xbf58476d1ce4e5b9
	z = (z ^ (z >> 27)) * 0x94d049bb133111eb
	z ^= z >> 31
	return lo + int(z%uint64(hi-lo+1))
}

func genSeed(t *rapid.T, label string) []byte {
	return rapid.SliceOfN(rapid.Byte(), 16, 16).Draw(t, label)
}

type PVal struct {
	P     kyber.Point
	Class string
	Desc  string
	Edge  bool // identity / ±base / small multiple
	NonN  bool // produced by arithmetic (non-normalised internals likely)
}

func markVT(gi *GroupInfo, p kyber.Point) kyber.Point {
	if gi.VarTime {
		if v, ok := p.(kyber.AllowsVarTime); ok {
			v.AllowVarTime(true)
		}
	}
	return p
}

var (
	shortCoordMu  sync.Mutex
	shortCoordTab = map[string][]int{}
)

// shortCoordMultipliers: the k in 1..3000 for which the encoding of k*B has a zero byte at the start
// of a coordinate (none for groups whose encoding layout the harness does not know, and for GT).
func shortCoordMultipliers(gi *GroupInfo) []int {
	shortCoordMu.Lock()
	defer shortCoordMu.Unlock()
	if ks, ok := shortCoordTab[gi.Name]; ok {
		return ks
	}
	var offs []int
	mask := byte(0xff)
	last := false // coordinate stored little-endian: its top byte is the LAST byte of the chunk
	n := gi.G.PointLen()
	switch {
	case gi.Role == 3 || !gi.HasBase:
	case gi.Family == "p256":
		offs = []int{1, 33}
	case gi.Family == "bn256" || gi.Family == "bn254":
		for o := 0; o < n; o += 32 {
			offs = append(offs, o)
		}
	case gi.Family == "bls-kilic" || gi.Family == "bls-circl" || gi.Family == "bls-gnark":
		mask = 0x1f // the three top bits of the first byte are flags
		for o := 0; o < n; o += 48 {
			offs = append(offs, o)
		}
	case gi.Family == "ed25519" || (gi.Family == "edvar" && n == 32):
		offs, mask, last = []int{31}, 0x7f, true
	case gi.Family == "qr512":
		offs = []int{0}
	}
	_ = last
	var ks []int
	if len(offs) > 0 {
		B := basePoint(gi)
		P := gi.G.Point().Set(B)
		for k := 1; k <= 3000 && len(ks) < 40; k++ {
			if b, err := P.MarshalBinary(); err == nil {
				for _, o := range offs {
					if o < len(b) && b[o]&mask == 0 {
						ks = append(ks, k)
						break
					}
				}
			}
			P = gi.G.Point().Add(P, B)
		}
	}
	shortCoordTab[gi.Name] = ks
	return ks
}

// guard returns a copy of b that sits at the start of a larger array (spare capacity filled with a
// canary pattern) and a function telling whether the callee wrote into the caller's memory: into the
// bytes themselves or, through an append onto the slice, into the spare capacity behind them.
func guard(b []byte) ([]byte, func() string) {
	const tail = 96
	buf := make([]byte, len(b)+tail)
	copy(buf, b)
	for i := len(b); i < len(buf); i++ {
		buf[i] = 0xc5
	}
	orig := append([]byte(nil), b...)
	return buf[:len(b):len(buf)], func() string {
		if !bytes.Equal(buf[:len(b)], orig) {
			return fmt.Sprintf("the input slice was modified: %x -> %x", orig, buf[:len(b)])
		}
		for i := len(b); i < len(buf); i++ {
			if buf[i] != 0xc5 {
				return fmt.Sprintf("byte %d behind the input slice (its spare capacity) was overwritten: %x", i-len(b), buf[len(b):min(len(buf), i+33)])
			}
		}
		return ""
	}
}

// newPoint: a fresh receiver of gi; for the AllowVarTime instance the RECEIVER carries the flag
// (the variable-time code paths are chosen by the receiver, not by the operands).
func newPoint(gi *GroupInfo) kyber.Point { return markVT(gi, gi.G.Point()) }

func basePoint(gi *GroupInfo) kyber.Point {
	if gi.HasBase {
		return markVT(gi, gi.G.Point().Base())
	}
	// Kilic GT: the only public source is a pairing.
	si := gi.Suite
	return si.S.Pair(si.G1.G.Point().Base(), si.G2.G.Point().Base())
}

func nullPoint(gi *GroupInfo) kyber.Point { return markVT(gi, gi.G.Point().Null()) }

func mulPoint(gi *GroupInfo, s kyber.Scalar, p kyber.Point) kyber.Point {
	return markVT(gi, gi.G.Point().Mul(s, p))
}

// genPoint draws a point reachable from the public API.
func genPoint(t *rapid.T, gi *GroupInfo, label string) PVal { return genPointD(t, gi, label, 2) }

func genPointD(t *rapid.T, gi *GroupInfo, label string, depth int) PVal {
	classes := []string{"null", "base", "negbase", "smallmul", "smallmul", "randmul", "randmul", "decoded"}
	if gi.HasPick {
		classes = append(classes, "pick", "pick")
	}
	if gi.HasEmbed {
		classes = append(classes, "embed")
	}
	if gi.Hash != nil {
		classes = append(classes, "hash")
	}
	if gi.Family == "p256" && gi.HasPick && gi.Order != nil && gi.Order.BitLen() == 256 {
		// a point whose x coordinate lies between the group order n and the field prime p (a band of
		// width ~2^128 that random multiples never hit): picked from a stream crafted so that every
		// 32-byte candidate starts with the leading bytes of n, the next byte one higher
		classes = append(classes, "x-in-[n,p)")
	}
	if gi.Role == 3 {
		classes = append(classes, "pair", "pair")
	}
	if depth > 0 {
		classes = append(classes, "sum", "sum", "diff", "dbl", "mulof", "clone", "setof", "negof")
	}
	if len(shortCoordMultipliers(gi)) > 0 {
		classes = append(classes, "shortcoord")
	}
	if gi.Alt != nil && gi.HasBase {
		classes = append(classes, "althandle")
	}
	cls := rapid.SampledFrom(classes).Draw(t, label+".class")
	g := gi.G
	pv := PVal{Class: cls}
	switch cls {
	case "shortcoord":
		// a multiple of the base point one of whose encoded coordinates starts with a zero byte (a
		// 1/256 event per coordinate for random points; encoders that pad and decoders that compare
		// limb-wise are wrong exactly there)
		ks := shortCoordMultipliers(gi)
		k := ks[uniformInt(t, 0, len(ks)-1, label+".sck")]
		pv.P = mulPoint(gi, g.Scalar().SetInt64(int64(k)), basePoint(gi))
		pv.Desc, pv.Edge = fmt.Sprintf("%d*B[short coordinate]", k), true
	case "althandle":
		// a value made through ANOTHER handle of the same group (a second suite instance, a second call
		// of suite.G1()): parties of one process exchange such objects, and accessors that build a new
		// group per call make every other point one
		s := genScalar(t, gi, label+".s")
		var p kyber.Point
		if gi.HasPick && rapid.Bool().Draw(t, label+".altpick") {
			seed := genSeed(t, label+".seed")
			p = gi.Alt.Point().Pick(xofStream(seed))
			pv.Desc = fmt.Sprintf("alt.Pick(%x)", seed)
		} else {
			p = gi.Alt.Point().Mul(scalarFromBig(gi.Alt, s.V), nil)
			pv.Desc = fmt.Sprintf("alt:(%s)*B", s)
			pv.Edge = isEdgeClass(s.Class)
		}
		pv.P = markVT(gi, p)
	case "null":
		pv.P, pv.Desc, pv.Edge = nullPoint(gi), "O", true
	case "base":
		pv.P, pv.Desc, pv.Edge = basePoint(gi), "B", true
	case "negbase":
		pv.P, pv.Desc, pv.Edge = markVT(gi, g.Point().Neg(basePoint(gi))), "-B", true
	case "smallmul":
		k := rapid.IntRange(-3, 16).Draw(t, label+".k")
		pv.P = mulPoint(gi, g.Scalar().SetInt64(int64(k)), basePoint(gi))
		pv.Desc, pv.Edge = fmt.Sprintf("%d*B", k), true
	case "randmul":
		s := genScalar(t, gi, label+".s")
		pv.P = mulPoint(gi, s.S, basePoint(gi))
		pv.Desc = fmt.Sprintf("(%s)*B", s)
		pv.Edge = isEdgeClass(s.Class)
	case "pick":
		seed := genSeed(t, label+".seed")
		pv.P = markVT(gi, g.Point().Pick(xofStream(seed)))
		pv.Desc = fmt.Sprintf("Pick(%x)", seed)
	case "embed":
		el := g.Point().EmbedLen()
		data := rapid.SliceOfN(rapid.Byte(), 0, el).Draw(t, label+".data")
		seed := genSeed(t, label+".seed")
		pv.P = markVT(gi, g.Point().Embed(data, xofStream(seed)))
		pv.Desc = fmt.Sprintf("Embed(%x,%x)", data, seed)
	case "x-in-[n,p)":
		seed := genSeed(t, label+".seed")
		nb := bigToBytes(gi.Order, 32, false)
		k := 16 // n = ffffffff 00000000 ffffffffffffffff bce6faad...: bytes 0..15 are shared with [n, p)
		prefix := append(append([]byte(nil), nb[:k]...), nb[k]+1+byte(rapid.IntRange(0, 0x40).Draw(t, label+".bump")))
		pv.P = markVT(gi, g.Point().Pick(&prefixBlockStream{prefix: prefix, inner: xofStream(seed)}))
		pv.Desc = fmt.Sprintf("Pick(x starting with %x, %x)", prefix, seed)
		pv.Edge = true
	case "hash":
		msg := rapid.SliceOfN(rapid.Byte(), 0, 40).Draw(t, label+".msg")
		pv.P = markVT(gi, gi.Hash(msg, nil))
		pv.Desc = fmt.Sprintf("Hash(%x)", msg)
	case "pair":
		si := gi.Suite
		a := genPointD(t, si.G1, label+".g1", 0)
		b := genPointD(t, si.G2, label+".g2", 0)
		pv.P = si.S.Pair(a.P, b.P)
		pv.Desc = fmt.Sprintf("e(%s,%s)", a.Desc, b.Desc)
		pv.NonN = true
	case "decoded":
		a := genPointD(t, gi, label+".src", depth-1)
		buf, err := a.P.MarshalBinary()
		if err != nil {
			t.Fatalf("MarshalBinary(%s): %v", a.Desc, err)
		}
		p := g.Point()
		if err := p.UnmarshalBinary(buf); err != nil {
			t.Fatalf("UnmarshalBinary(MarshalBinary(%s)=%x): %v", a.Desc, buf, err)
		}
		pv.P, pv.Desc, pv.Edge = markVT(gi, p), "dec("+a.Desc+")", a.Edge
	case "sum", "diff":
		a := genPointD(t, gi, label+".a", depth-1)
		b := genPointD(t, gi, label+".b", depth-1)
		if cls == "sum" {
			pv.P, pv.Desc = markVT(gi, g.Point().Add(a.P, b.P)), "("+a.Desc+"+"+b.Desc+")"
		} else {
			pv.P, pv.Desc = markVT(gi, g.Point().Sub(a.P, b.P)), "("+a.Desc+"-"+b.Desc+")"
		}
		pv.NonN = true
	case "clone", "setof", "negof":
		// the same value in another OBJECT: whatever an implementation keeps beside the coordinates
		// (cached squares, lazily computed encodings, a suite's domain tag) must travel with Clone
		// and Set; the negative of an affine / decoded / identity value keeps its special form
		a := genPointD(t, gi, label+".a", depth-1)
		switch cls {
		case "clone":
			pv.P, pv.Desc = markVT(gi, a.P.Clone()), "clone("+a.Desc+")"
		case "setof":
			pv.P, pv.Desc = markVT(gi, g.Point().Set(a.P)), "set("+a.Desc+")"
		default:
			pv.P, pv.Desc = markVT(gi, g.Point().Neg(a.P)), "-("+a.Desc+")"
		}
		pv.Edge, pv.NonN = a.Edge, a.NonN
	case "dbl":
		a := genPointD(t, gi, label+".a", depth-1)
		pv.P, pv.Desc, pv.NonN = markVT(gi, g.Point().Add(a.P, a.P)), "2("+a.Desc+")", true
	case "mulof":
		a := genPointD(t, gi, label+".a", depth-1)
		s := genScalar(t, gi, label+".s")
		pv.P, pv.Desc, pv.NonN = mulPoint(gi, s.S, a.P), fmt.Sprintf("(%s)*%s", s, a.Desc), true
	}
	return pv
}

func mustMarshal(t fataler, m kyber.Marshaling) []byte {
	b, err := m.MarshalBinary()
	if err != nil {
		t.Fatalf("MarshalBinary failed: %v", err)
	}
	return b
}

func pointHex(p kyber.Point) string {
	b, err := p.MarshalBinary()
	if err != nil {
		return "ERR:" + err.Error()
	}
	return fmt.Sprintf("%x", b)
}

// pickGroup draws one group of the registry (thorough tier: including the extra Edwards curves).
func pickGroup(t *rapid.T, filter func(*GroupInfo) bool) *GroupInfo {
	var gs []*GroupInfo
	for _, g := range Groups(tier() == "thorough") {
		if filter == nil || filter(g) {
			gs = append(gs, g)
		}
	}
	return gs[uniformInt(t, 0, len(gs)-1, "group")]
}

func isUnit(v, q *big.Int) bool {
	if v.Sign() == 0 {
		return false
	}
	return new(big.Int).GCD(nil, nil, v, q).Cmp(big1) == 0
}

// isRapidPanic recognises the control-flow panics of rapid itself (Fatalf, Skip, exhausted data),
// which a recover() inside a property must pass on.
func isRapidPanic(p any) bool {
	switch fmt.Sprintf("%T", p) {
	case "rapid.stopTest", "rapid.invalidData":
		return true
	}
	return false
}

// prefixBlockStream: a random stream whose every request of a whole coordinate (>= len(prefix) bytes)
// starts with a fixed prefix; shorter requests (sign bits) are passed through.
type prefixBlockStream struct {
	prefix []byte
	inner  cipher.Stream
}

func (s *prefixBlockStream) XORKeyStream(dst, src []byte) {
	var head []byte
	if len(src) >= len(s.prefix) && len(src) >= 16 {
		head = append(head, src[:len(s.prefix)]...) // dst and src may be the same slice
	}
	s.inner.XORKeyStream(dst, src)
	for i := range head {
		dst[i] = head[i] ^ s.prefix[i]
	}
}
