package harness

// Known findings: /verif/known_findings.json is read (never written).  An entry with status
// "open" makes the matching mismatch an excluded, counted case; everything else is a violation.

import (
	"encoding/json"
	"fmt"
	"os"
	"sync"
)

type knownEntry struct {
	Property string `json:"property"`
	Key      string `json:"key"`
	Status   string `json:"status"` // "open" | "fixed"
	Commit   string `json:"commit,omitempty"`
	What     string `json:"what"`
}

var (
	knownOnce sync.Once
	knownMap  map[string]knownEntry
)

func loadKnown() {
	knownMap = map[string]knownEntry{}
	p := os.Getenv("VERIF_KNOWN")
	if p == "" {
		p = "/verif/known_findings.json"
	}
	b, err := os.ReadFile(p)
	if err != nil {
		return
	}
	var doc struct {
		Findings []knownEntry `json:"findings"`
	}
	if err := json.Unmarshal(b, &doc); err != nil {
		fmt.Fprintf(os.Stderr, "HARNESS-ERROR: cannot parse %s: %v\n", p, err)
		os.Exit(3)
	}
	for _, k := range doc.Findings {
		knownMap[k.Key] = k
	}
}

// knownOpen reports whether key names an open (unrepaired, listed) finding.
func knownOpen(key string) bool {
	knownOnce.Do(loadKnown)
	k, ok := knownMap[key]
	return ok && k.Status == "open"
}

type fataler interface {
	Fatalf(format string, args ...any)
	Helper()
}

// violationOrKnown is called when a check observed a mismatch.  If key is an open known finding
// the case is counted as excluded and true is returned (the caller continues past it using the
// reference result); otherwise the test fails.
func violationOrKnown(t fataler, e *evProp, key string, format string, args ...any) bool {
	t.Helper()
	if os.Getenv("VERIF_SURVEY") != "" {
		// development aid: list every distinct mismatch key instead of stopping at the first
		e.excludedHit(key, fmt.Sprintf(format, args...))
		return true
	}
	if knownOpen(key) {
		knownOnce.Do(loadKnown)
		e.excludedHit(key, knownMap[key].What)
		return true
	}
	t.Fatalf("[%s] "+format, append([]any{key}, args...)...)
	return false
}
