package harness

import (
	"flag"
	"os"
	"strconv"
	"testing"

	"pgregory.net/rapid"
)

func TestMain(m *testing.M) {
	flag.Parse()
	code := m.Run()
	evDumpAll(code != 0)
	os.Exit(code)
}

func tier() string {
	if os.Getenv("VERIF_TIER") == "thorough" {
		return "thorough"
	}
	return "quick"
}

func envInt(k string, def int) int {
	if v, err := strconv.Atoi(os.Getenv(k)); err == nil {
		return v
	}
	return def
}

// shards / shard: the driver runs several processes of the same binary with different rapid
// seeds; case budgets are divided between them and enumerations are split by index.
func shards() int { return max(1, envInt("VERIF_SHARDS", 1)) }
func shard() int  { return envInt("VERIF_SHARD", 0) }

// budget returns this process' share of the per-run case budget of the current tier.
func budget(quick, thorough int) int {
	// the per-test quick numbers were sized for ~3 s; the quick tier runs three times that
	n := quick * envInt("VERIF_QUICK_MULT", 3)
	if tier() == "thorough" {
		n = thorough
	}
	if s := envInt("VERIF_SCALE_PCT", 100); s != 100 {
		n = n * s / 100
	}
	n = (n + shards() - 1) / shards()
	if n < 1 {
		n = 1
	}
	return n
}

// mine tells whether item i of an enumeration belongs to this shard.
func mine(i int) bool { return i%shards() == shard() }

// rcheck runs a rapid property with this shard's case budget.  When the driver replays a fail
// file (-rapid.failfile) rapid ignores the count.
func rcheck(t *testing.T, quick, thorough int, prop func(*rapid.T)) {
	t.Helper()
	_ = flag.Set("rapid.checks", strconv.Itoa(budget(quick, thorough)))
	rapid.Check(t, prop)
}
