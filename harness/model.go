package harness

// Reference models (math/big only; no kyber code): twisted-Edwards and short-Weierstrass affine
// arithmetic, and the byte encodings the library documents for them.

import (
	"errors"
	"math/big"
)

// ---------------------------------------------------------------- Fp helpers

func fmod(v, p *big.Int) *big.Int    { return v.Mod(v, p) }
func fadd(a, b, p *big.Int) *big.Int { return fmod(new(big.Int).Add(a, b), p) }
func fsub(a, b, p *big.Int) *big.Int { return fmod(new(big.Int).Sub(a, b), p) }
func fmul(a, b, p *big.Int) *big.Int { return fmod(new(big.Int).Mul(a, b), p) }
func finv(a, p *big.Int) *big.Int    { return new(big.Int).ModInverse(a, p) }
func fneg(a, p *big.Int) *big.Int    { return fmod(new(big.Int).Neg(a), p) }

// fsqrt returns a square root of a mod p (nil if none). p odd prime.
func fsqrt(a, p *big.Int) *big.Int {
	r := new(big.Int).ModSqrt(new(big.Int).Mod(a, p), p)
	return r
}

// ---------------------------------------------------------------- twisted Edwards

type eCurve struct {
	P, A, D *big.Int // a x^2 + y^2 = 1 + d x^2 y^2
	L       *big.Int // prime subgroup order
	Bx, By  *big.Int
}

type ePoint struct{ X, Y *big.Int }

func (c *eCurve) Identity() ePoint { return ePoint{big.NewInt(0), big.NewInt(1)} }
func (c *eCurve) Base() ePoint     { return ePoint{new(big.Int).Set(c.Bx), new(big.Int).Set(c.By)} }

func (c *eCurve) OnCurve(p ePoint) bool {
	x2, y2 := fmul(p.X, p.X, c.P), fmul(p.Y, p.Y, c.P)
	l := fadd(fmul(c.A, x2, c.P), y2, c.P)
	r := fadd(big1, fmul(c.D, fmul(x2, y2, c.P), c.P), c.P)
	return l.Cmp(r) == 0
}

func (c *eCurve) Add(p, q ePoint) ePoint {
	x1y2, y1x2 := fmul(p.X, q.Y, c.P), fmul(p.Y, q.X, c.P)
	y1y2, x1x2 := fmul(p.Y, q.Y, c.P), fmul(p.X, q.X, c.P)
	dxy := fmul(c.D, fmul(x1x2, y1y2, c.P), c.P)
	x3 := fmul(fadd(x1y2, y1x2, c.P), finv(fadd(big1, dxy, c.P), c.P), c.P)
	y3 := fmul(fsub(y1y2, fmul(c.A, x1x2, c.P), c.P), finv(fsub(big1, dxy, c.P), c.P), c.P)
	return ePoint{x3, y3}
}

func (c *eCurve) Neg(p ePoint) ePoint { return ePoint{fneg(p.X, c.P), new(big.Int).Set(p.Y)} }

func (c *eCurve) Mul(k *big.Int, p ePoint) ePoint {
	r := c.Identity()
	for i := k.BitLen() - 1; i >= 0; i-- {
		r = c.Add(r, r)
		if k.Bit(i) == 1 {
			r = c.Add(r, p)
		}
	}
	return r
}

func (c *eCurve) Equal(p, q ePoint) bool { return p.X.Cmp(q.X) == 0 && p.Y.Cmp(q.Y) == 0 }

// Encode: RFC 8032 style — y little-endian in ceil((bits+1)/8) bytes, top bit = x mod 2.
func (c *eCurve) Encode(p ePoint, n int) []byte {
	b := bigToBytes(p.Y, n, true)
	if p.X.Bit(0) == 1 {
		b[n-1] |= 0x80
	}
	return b
}

var errModelDecode = errors.New("model: not a valid encoding")

// Decode accepts exactly what RFC 8032 decoding accepts except that it is lenient on
// non-canonical y (y >= p is reduced), mirroring what the library documents; the canonical flag
// tells whether the encoding was canonical.
func (c *eCurve) Decode(b []byte) (p ePoint, canonical bool, err error) {
	n := len(b)
	bb := append([]byte(nil), b...)
	sign := uint(bb[n-1] >> 7)
	bb[n-1] &= 0x7f
	y := bytesToBig(bb, true)
	canonical = y.Cmp(c.P) < 0
	y.Mod(y, c.P)
	// x^2 = (1 - y^2) / (a - d y^2)
	y2 := fmul(y, y, c.P)
	num := fsub(big1, y2, c.P)
	den := fsub(c.A, fmul(c.D, y2, c.P), c.P)
	if den.Sign() == 0 {
		return p, canonical, errModelDecode
	}
	x2 := fmul(num, finv(den, c.P), c.P)
	x := fsqrt(x2, c.P)
	if x == nil {
		return p, canonical, errModelDecode
	}
	if x.Sign() == 0 && sign == 1 {
		canonical = false
	}
	if x.Bit(0) != sign {
		x = fneg(x, c.P)
	}
	return ePoint{x, y}, canonical, nil
}

var modelEd25519 = func() *eCurve {
	p := new(big.Int).Sub(pow2(255), big.NewInt(19))
	d := fmul(big.NewInt(-121665), finv(big.NewInt(121666), p), p)
	d.Mod(d, p)
	c := &eCurve{P: p, A: fneg(big1, p), D: d, L: ordEd25519}
	// base point: y = 4/5, x positive (even)
	c.By = fmul(big.NewInt(4), finv(big.NewInt(5), p), p)
	enc := bigToBytes(c.By, 32, true)
	bp, _, err := c.Decode(enc)
	if err != nil {
		panic("model: ed25519 base point")
	}
	c.Bx = bp.X
	return c
}()

// ---------------------------------------------------------------- short Weierstrass over Fp

type wCurve struct {
	P, A, B *big.Int
	N       *big.Int // subgroup order
	H       *big.Int // cofactor
	Gx, Gy  *big.Int
}

type wPoint struct {
	X, Y *big.Int
	Inf  bool
}

func (c *wCurve) Infinity() wPoint { return wPoint{Inf: true} }
func (c *wCurve) Base() wPoint     { return wPoint{X: new(big.Int).Set(c.Gx), Y: new(big.Int).Set(c.Gy)} }

func (c *wCurve) OnCurve(p wPoint) bool {
	if p.Inf {
		return true
	}
	if p.X.Sign() < 0 || p.X.Cmp(c.P) >= 0 || p.Y.Sign() < 0 || p.Y.Cmp(c.P) >= 0 {
		return false
	}
	return fmul(p.Y, p.Y, c.P).Cmp(c.rhs(p.X)) == 0
}

func (c *wCurve) rhs(x *big.Int) *big.Int {
	x3 := fmul(fmul(x, x, c.P), x, c.P)
	return fadd(fadd(x3, fmul(c.A, x, c.P), c.P), c.B, c.P)
}

func (c *wCurve) Neg(p wPoint) wPoint {
	if p.Inf {
		return p
	}
	return wPoint{X: new(big.Int).Set(p.X), Y: fneg(p.Y, c.P)}
}

func (c *wCurve) Add(p, q wPoint) wPoint {
	if p.Inf {
		return q
	}
	if q.Inf {
		return p
	}
	var lam *big.Int
	if p.X.Cmp(q.X) == 0 {
		if fadd(p.Y, q.Y, c.P).Sign() == 0 {
			return c.Infinity()
		}
		num := fadd(fmul(big.NewInt(3), fmul(p.X, p.X, c.P), c.P), c.A, c.P)
		lam = fmul(num, finv(fmul(big2, p.Y, c.P), c.P), c.P)
	} else {
		lam = fmul(fsub(q.Y, p.Y, c.P), finv(fsub(q.X, p.X, c.P), c.P), c.P)
	}
	x3 := fsub(fsub(fmul(lam, lam, c.P), p.X, c.P), q.X, c.P)
	y3 := fsub(fmul(lam, fsub(p.X, x3, c.P), c.P), p.Y, c.P)
	return wPoint{X: x3, Y: y3}
}

func (c *wCurve) Mul(k *big.Int, p wPoint) wPoint {
	r := c.Infinity()
	for i := k.BitLen() - 1; i >= 0; i-- {
		r = c.Add(r, r)
		if k.Bit(i) == 1 {
			r = c.Add(r, p)
		}
	}
	return r
}

func (c *wCurve) Equal(p, q wPoint) bool {
	if p.Inf || q.Inf {
		return p.Inf == q.Inf
	}
	return p.X.Cmp(q.X) == 0 && p.Y.Cmp(q.Y) == 0
}

// InSubgroup: N*P = O.
func (c *wCurve) InSubgroup(p wPoint) bool { return c.Mul(c.N, p).Inf }

var (
	modelP256 = &wCurve{
		P:  hexBig("ffffffff00000001000000000000000000000000ffffffffffffffffffffffff"),
		A:  hexBig("ffffffff00000001000000000000000000000000fffffffffffffffffffffffc"),
		B:  hexBig("5ac635d8aa3a93e7b3ebbd55769886bc651d06b0cc53b0f63bce3c3e27d2604b"),
		N:  ordP256,
		H:  big.NewInt(1),
		Gx: hexBig("6b17d1f2e12c4247f8bce6e563a440f277037d812deb33a0f4a13945d898c296"),
		Gy: hexBig("4fe342e2fe1a7f9b8ee7eb4a7c0f9e162bce33576b315ececbb6406837bf51f5"),
	}
	// BN curves y^2 = x^3 + 3, generator (1, -2) for bn256 (cloudflare) and (1, 2) for bn254
	modelBN256 = func() *wCurve {
		p := decBig("65000549695646603732796438742359905742825358107623003571877145026864184071783")
		return &wCurve{P: p, A: big.NewInt(0), B: big.NewInt(3), N: ordBN256, H: big.NewInt(1), Gx: big.NewInt(1), Gy: fneg(big2, p)}
	}()
	modelBN254 = func() *wCurve {
		p := decBig("21888242871839275222246405745257275088696311157297823662689037894645226208583")
		return &wCurve{P: p, A: big.NewInt(0), B: big.NewInt(3), N: ordBN254, H: big.NewInt(1), Gx: big.NewInt(1), Gy: big.NewInt(2)}
	}()
	// BLS12-381 G1: y^2 = x^3 + 4
	modelBLSG1 = &wCurve{
		P:  hexBig("1a0111ea397fe69a4b1ba7b6434bacd764774b84f38512bf6730d2a0f6b0f6241eabfffeb153ffffb9feffffffffaaab"),
		A:  big.NewInt(0),
		B:  big.NewInt(4),
		N:  ordBLS,
		H:  hexBig("396c8c005555e1568c00aaab0000aaab"),
		Gx: hexBig("17f1d3a73197d7942695638c4fa9ac0fc3688c4f9774b905a14e3a3f171bac586c55e83ff97a1aeffb3af00adb22c6bb"),
		Gy: hexBig("08b3f481e3aaa0f1a09e30ed741d8ae4fcf5e095d5d00af600db18cb2c04b3edd03cc744a2888ae40caa232946c5e7e1"),
	}
)

// --- encodings

// encXY: X || Y big-endian, n bytes each; infinity = all zero (BN256/BN254 G1).
func encXY(p wPoint, n int) []byte {
	out := make([]byte, 2*n)
	if p.Inf {
		return out
	}
	copy(out, bigToBytes(p.X, n, false))
	copy(out[n:], bigToBytes(p.Y, n, false))
	return out
}

func decXY(b []byte, n int) wPoint {
	x, y := new(big.Int).SetBytes(b[:n]), new(big.Int).SetBytes(b[n:2*n])
	if x.Sign() == 0 && y.Sign() == 0 {
		return wPoint{Inf: true}
	}
	return wPoint{X: x, Y: y}
}

// encP256: 0x04 || X || Y, identity encoded with X=Y=0 (the library's documented convention).
func encP256(p wPoint) []byte {
	out := make([]byte, 65)
	out[0] = 4
	if p.Inf {
		return out
	}
	copy(out[1:], bigToBytes(p.X, 32, false))
	copy(out[33:], bigToBytes(p.Y, 32, false))
	return out
}

func decP256(b []byte) wPoint { return decXY(b[1:], 32) }

// encBLSG1: zcash compressed format, 48 bytes.
func encBLSG1(p wPoint) []byte {
	c := modelBLSG1
	out := make([]byte, 48)
	if p.Inf {
		out[0] = 0xc0
		return out
	}
	copy(out, bigToBytes(p.X, 48, false))
	out[0] |= 0x80
	half := new(big.Int).Rsh(new(big.Int).Sub(c.P, big1), 1)
	if p.Y.Cmp(half) > 0 {
		out[0] |= 0x20
	}
	return out
}

// decBLSG1 decodes the zcash compressed format strictly (as the zkcrypto test vectors demand):
// returns ok=false for every malformed string; does NOT test subgroup membership.
func decBLSG1(b []byte) (p wPoint, ok bool) {
	c := modelBLSG1
	if len(b) != 48 {
		return p, false
	}
	comp, inf, sign := b[0]&0x80 != 0, b[0]&0x40 != 0, b[0]&0x20 != 0
	if !comp {
		return p, false
	}
	bb := append([]byte(nil), b...)
	bb[0] &= 0x1f
	x := new(big.Int).SetBytes(bb)
	if inf {
		if sign || x.Sign() != 0 {
			return p, false
		}
		return wPoint{Inf: true}, true
	}
	if x.Cmp(c.P) >= 0 {
		return p, false
	}
	y := fsqrt(c.rhs(x), c.P)
	if y == nil {
		return p, false
	}
	half := new(big.Int).Rsh(new(big.Int).Sub(c.P, big1), 1)
	if (y.Cmp(half) > 0) != sign {
		y = fneg(y, c.P)
	}
	return wPoint{X: x, Y: y}, true
}
