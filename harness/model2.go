package harness

// Reference model over Fp2 = Fp[i]/(i^2+1): short-Weierstrass curves y^2 = x^3 + b (a = 0), used
// for the G2 twists of BN256 (b = 3/(i+3)), BN254 (b = 3/(i+9)) and BLS12-381 (b = 4(1+i)).

import "math/big"

type f2 struct{ A, B *big.Int } // A + B*i

func f2new(a, b int64) f2 { return f2{big.NewInt(a), big.NewInt(b)} }

type f2Field struct{ P *big.Int }

func (f f2Field) norm(x f2) f2 {
	return f2{new(big.Int).Mod(x.A, f.P), new(big.Int).Mod(x.B, f.P)}
}
func (f f2Field) add(x, y f2) f2 { return f2{fadd(x.A, y.A, f.P), fadd(x.B, y.B, f.P)} }
func (f f2Field) sub(x, y f2) f2 { return f2{fsub(x.A, y.A, f.P), fsub(x.B, y.B, f.P)} }
func (f f2Field) neg(x f2) f2    { return f2{fneg(x.A, f.P), fneg(x.B, f.P)} }
func (f f2Field) mul(x, y f2) f2 {
	return f2{fsub(fmul(x.A, y.A, f.P), fmul(x.B, y.B, f.P), f.P), fadd(fmul(x.A, y.B, f.P), fmul(x.B, y.A, f.P), f.P)}
}
func (f f2Field) inv(x f2) f2 {
	n := finv(fadd(fmul(x.A, x.A, f.P), fmul(x.B, x.B, f.P), f.P), f.P)
	return f2{fmul(x.A, n, f.P), fmul(fneg(x.B, f.P), n, f.P)}
}
func (f f2Field) isZero(x f2) bool { return x.A.Sign() == 0 && x.B.Sign() == 0 }
func (f f2Field) eq(x, y f2) bool  { return x.A.Cmp(y.A) == 0 && x.B.Cmp(y.B) == 0 }

// sqrt in Fp2 (nil,false if x is not a square). Works for p = 3 mod 4.
func (f f2Field) sqrt(x f2) (f2, bool) {
	if f.isZero(x) {
		return f2new(0, 0), true
	}
	if x.B.Sign() == 0 {
		if r := fsqrt(x.A, f.P); r != nil {
			return f2{r, big.NewInt(0)}, true
		}
		// sqrt(a) = sqrt(-a) * i
		if r := fsqrt(fneg(x.A, f.P), f.P); r != nil {
			return f2{big.NewInt(0), r}, true
		}
		return f2{}, false
	}
	n := fadd(fmul(x.A, x.A, f.P), fmul(x.B, x.B, f.P), f.P)
	s := fsqrt(n, f.P)
	if s == nil {
		return f2{}, false
	}
	inv2 := finv(big2, f.P)
	for _, sg := range []*big.Int{s, fneg(s, f.P)} {
		t := fmul(fadd(x.A, sg, f.P), inv2, f.P)
		a := fsqrt(t, f.P)
		if a == nil || a.Sign() == 0 {
			continue
		}
		b := fmul(x.B, finv(fmul(big2, a, f.P), f.P), f.P)
		r := f2{a, b}
		if f.eq(f.mul(r, r), f.norm(x)) {
			return r, true
		}
	}
	return f2{}, false
}

type w2Curve struct {
	F f2Field
	B f2
	N *big.Int
}

type w2Point struct {
	X, Y f2
	Inf  bool
}

func (c *w2Curve) rhs(x f2) f2 { return c.F.add(c.F.mul(c.F.mul(x, x), x), c.B) }

func (c *w2Curve) OnCurve(p w2Point) bool {
	if p.Inf {
		return true
	}
	for _, v := range []*big.Int{p.X.A, p.X.B, p.Y.A, p.Y.B} {
		if v.Sign() < 0 || v.Cmp(c.F.P) >= 0 {
			return false
		}
	}
	return c.F.eq(c.F.mul(p.Y, p.Y), c.rhs(p.X))
}

func (c *w2Curve) Neg(p w2Point) w2Point {
	if p.Inf {
		return p
	}
	return w2Point{X: p.X, Y: c.F.neg(p.Y)}
}

func (c *w2Curve) Add(p, q w2Point) w2Point {
	F := c.F
	if p.Inf {
		return q
	}
	if q.Inf {
		return p
	}
	var lam f2
	if F.eq(p.X, q.X) {
		if F.isZero(F.add(p.Y, q.Y)) {
			return w2Point{Inf: true}
		}
		three := f2new(3, 0)
		lam = F.mul(F.mul(three, F.mul(p.X, p.X)), F.inv(F.add(p.Y, p.Y)))
	} else {
		lam = F.mul(F.sub(q.Y, p.Y), F.inv(F.sub(q.X, p.X)))
	}
	x3 := F.sub(F.sub(F.mul(lam, lam), p.X), q.X)
	y3 := F.sub(F.mul(lam, F.sub(p.X, x3)), p.Y)
	return w2Point{X: x3, Y: y3}
}

func (c *w2Curve) Mul(k *big.Int, p w2Point) w2Point {
	r := w2Point{Inf: true}
	for i := k.BitLen() - 1; i >= 0; i-- {
		r = c.Add(r, r)
		if k.Bit(i) == 1 {
			r = c.Add(r, p)
		}
	}
	return r
}

func (c *w2Curve) InSubgroup(p w2Point) bool { return c.Mul(c.N, p).Inf }

func bnTwist(p, n *big.Int, xiReal int64) *w2Curve {
	F := f2Field{p}
	xi := f2{big.NewInt(xiReal), big.NewInt(1)}
	return &w2Curve{F: F, B: F.mul(f2new(3, 0), F.inv(xi)), N: n}
}

var (
	modelBN256G2 = bnTwist(modelBN256.P, ordBN256, 3)
	modelBN254G2 = bnTwist(modelBN254.P, ordBN254, 9)
	modelBLSG2   = &w2Curve{F: f2Field{modelBLSG1.P}, B: f2new(4, 4), N: ordBLS}
)

// decBNG2 reads the library's BN G2 encoding: X.imag || X.real || Y.imag || Y.real (32 bytes
// each, big endian); all zero = infinity.
func decBNG2(b []byte) w2Point {
	v := func(i int) *big.Int { return new(big.Int).SetBytes(b[32*i : 32*i+32]) }
	p := w2Point{X: f2{v(1), v(0)}, Y: f2{v(3), v(2)}}
	if p.X.A.Sign() == 0 && p.X.B.Sign() == 0 && p.Y.A.Sign() == 0 && p.Y.B.Sign() == 0 {
		return w2Point{Inf: true}
	}
	return p
}

// decBLSG2 decodes the zcash compressed G2 format strictly (96 bytes: x.c1 || x.c0 with flags in
// the first byte); no subgroup test.
func decBLSG2(b []byte) (p w2Point, ok bool) {
	c := modelBLSG2
	if len(b) != 96 {
		return p, false
	}
	comp, inf, sign := b[0]&0x80 != 0, b[0]&0x40 != 0, b[0]&0x20 != 0
	if !comp {
		return p, false
	}
	bb := append([]byte(nil), b...)
	bb[0] &= 0x1f
	x1, x0 := new(big.Int).SetBytes(bb[:48]), new(big.Int).SetBytes(bb[48:])
	if inf {
		if sign || x1.Sign() != 0 || x0.Sign() != 0 {
			return p, false
		}
		return w2Point{Inf: true}, true
	}
	if x1.Cmp(c.F.P) >= 0 || x0.Cmp(c.F.P) >= 0 {
		return p, false
	}
	x := f2{x0, x1}
	y, isSq := c.F.sqrt(c.rhs(x))
	if !isSq {
		return p, false
	}
	if f2LexLargest(y, c.F.P) != sign {
		y = c.F.neg(y)
	}
	return w2Point{X: x, Y: y}, true
}

// f2LexLargest: y > -y comparing the imaginary part first, then the real part.
func f2LexLargest(y f2, p *big.Int) bool {
	half := new(big.Int).Rsh(new(big.Int).Sub(p, big1), 1)
	if y.B.Sign() != 0 {
		return y.B.Cmp(half) > 0
	}
	return y.A.Cmp(half) > 0
}

func encBLSG2(p w2Point) []byte {
	out := make([]byte, 96)
	if p.Inf {
		out[0] = 0xc0
		return out
	}
	copy(out, bigToBytes(p.X.B, 48, false))
	copy(out[48:], bigToBytes(p.X.A, 48, false))
	out[0] |= 0x80
	if f2LexLargest(p.Y, modelBLSG2.F.P) {
		out[0] |= 0x20
	}
	return out
}
