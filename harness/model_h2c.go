package harness

// RFC 9380 reference for edwards25519_XMD:SHA-512_ELL2_RO_ written from the RFC text with
// math/big and crypto/sha512 only.

import (
	"crypto/sha512"
	"math/big"
)

func h2cExpandXMDSHA512(msg, dst []byte, n int) []byte {
	const bInBytes, sInBytes = 64, 128
	if len(dst) > 255 {
		h := sha512.New()
		h.Write([]byte("H2C-OVERSIZE-DST-"))
		h.Write(dst)
		dst = h.Sum(nil)
	}
	ell := (n + bInBytes - 1) / bInBytes
	dstPrime := append(append([]byte(nil), dst...), byte(len(dst)))
	h := sha512.New()
	h.Write(make([]byte, sInBytes))
	h.Write(msg)
	h.Write([]byte{byte(n >> 8), byte(n)})
	h.Write([]byte{0})
	h.Write(dstPrime)
	b0 := h.Sum(nil)
	h.Reset()
	h.Write(b0)
	h.Write([]byte{1})
	h.Write(dstPrime)
	bi := h.Sum(nil)
	out := append([]byte(nil), bi...)
	for i := 2; i <= ell; i++ {
		x := make([]byte, len(b0))
		for j := range x {
			x[j] = b0[j] ^ bi[j]
		}
		h.Reset()
		h.Write(x)
		h.Write([]byte{byte(i)})
		h.Write(dstPrime)
		bi = h.Sum(nil)
		out = append(out, bi...)
	}
	return out[:n]
}

// h2cEd25519 returns the RFC 8032 encoding of hash_to_curve(msg) for suite
// edwards25519_XMD:SHA-512_ELL2_RO_ with the given DST.
func h2cEd25519(msg, dst []byte) ePoint {
	c := modelEd25519
	p := c.P
	const L = 48
	ub := h2cExpandXMDSHA512(msg, dst, 2*L)
	u0 := new(big.Int).Mod(new(big.Int).SetBytes(ub[:L]), p)
	u1 := new(big.Int).Mod(new(big.Int).SetBytes(ub[L:]), p)
	q0, q1 := h2cMapEll2Ed(u0), h2cMapEll2Ed(u1)
	r := c.Add(q0, q1)
	return c.Mul(big.NewInt(8), r)
}

func h2cIsSquare(v, p *big.Int) bool {
	if v.Sign() == 0 {
		return true
	}
	return big.Jacobi(v, p) == 1
}

func h2cMapEll2Ed(u *big.Int) ePoint {
	c := modelEd25519
	p := c.P
	J := big.NewInt(486662)
	Z := big.NewInt(2)
	// x1 = -J * inv0(1 + Z u^2)
	den := fadd(big1, fmul(Z, fmul(u, u, p), p), p)
	var x1 *big.Int
	if den.Sign() == 0 {
		x1 = fneg(J, p)
	} else {
		x1 = fmul(fneg(J, p), finv(den, p), p)
		if x1.Sign() == 0 {
			x1 = fneg(J, p)
		}
	}
	g := func(x *big.Int) *big.Int {
		x2 := fmul(x, x, p)
		return fadd(fadd(fmul(x2, x, p), fmul(J, x2, p), p), x, p)
	}
	gx1 := g(x1)
	x2 := fsub(fneg(x1, p), J, p)
	gx2 := g(x2)
	var x, y *big.Int
	if h2cIsSquare(gx1, p) {
		x, y = x1, fsqrt(gx1, p)
		if y.Bit(0) != 1 {
			y = fneg(y, p)
		}
	} else {
		x, y = x2, fsqrt(gx2, p)
		if y.Bit(0) != 0 {
			y = fneg(y, p)
		}
	}
	s, t := x, y
	// Montgomery -> twisted Edwards: v = c1*s/t, w = (s-1)/(s+1), c1 = sqrt(-486664), sgn0(c1)=0
	c1 := fsqrt(fneg(big.NewInt(486664), p), p)
	if c1.Bit(0) != 0 {
		c1 = fneg(c1, p)
	}
	sp1 := fadd(s, big1, p)
	if t.Sign() == 0 || sp1.Sign() == 0 {
		return ePoint{big.NewInt(0), big.NewInt(1)}
	}
	v := fmul(fmul(c1, s, p), finv(t, p), p)
	w := fmul(fsub(s, big1, p), finv(sp1, p), p)
	return ePoint{v, w}
}
