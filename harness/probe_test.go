package harness

import (
	"fmt"
	"testing"

	"pgregory.net/rapid"
)

// TestProbeRegistry: self-check of the registry (orders, capabilities).  Harness error, not a violation.
func TestProbeRegistry(t *testing.T) {
	for _, gi := range Groups(true) {
		if lo := libOrder(gi.G); lo.Cmp(gi.Order) != 0 {
			t.Errorf("%s: order mismatch lib=%v harness=%v", gi.Name, lo, gi.Order)
		}
		try := func(name string, f func()) (ok bool) {
			defer func() {
				if r := recover(); r != nil {
					ok = false
					fmt.Printf("  %s.%s panics: %v\n", gi.Name, name, r)
				}
			}()
			f()
			return true
		}
		g := gi.G
		try("Null", func() { g.Point().Null() })
		if gi.HasBase {
			try("Base", func() { g.Point().Base() })
		}
		if gi.HasPick {
			try("Pick", func() { g.Point().Pick(xofStream([]byte("x"))) })
		}
		if gi.HasEmbed {
			try("Embed", func() { g.Point().Embed([]byte("x"), xofStream([]byte("x"))) })
		}
		if gi.MulNil {
			try("MulNil", func() { g.Point().Mul(g.Scalar().One(), nil) })
		}
		if gi.Hash != nil {
			try("Hash", func() { gi.Hash([]byte("m"), nil) })
		}
		fmt.Printf("%-22s plen=%d slen=%d le=%v order=%dbit\n", gi.Name, g.PointLen(), g.ScalarLen(), scalarLE(g.Scalar()), gi.Order.BitLen())
	}
}

func TestProbeGen(t *testing.T) {
	rapid.Check(t, func(t *rapid.T) {
		gi := pickGroup(t, nil)
		p := genPoint(t, gi, "p")
		_ = pointHex(p.P)
	})
}
