package harness

// Adapters binding a reference model to the byte encoding of a registry group.

import (
	"fmt"
	"math/big"
)

type refGroup interface {
	Decode(enc []byte) (any, error)
	Encode(p any) []byte
	Add(a, b any) any
	Neg(a any) any
	Mul(k *big.Int, a any) any
	Identity() any
	Base() any
	OnCurve(a any) bool
	InSubgroup(a any) bool
	HasBase() bool // the model knows the library's standard base point
}

type refEd struct {
	c      *eCurve
	noBase bool
}

func (r refEd) HasBase() bool { return !r.noBase }
func (r refW) HasBase() bool  { return true }

func (r refEd) Decode(enc []byte) (any, error) {
	if len(enc) != 32 {
		return nil, fmt.Errorf("model: length %d", len(enc))
	}
	p, _, err := r.c.Decode(enc)
	return p, err
}
func (r refEd) Encode(p any) []byte       { return r.c.Encode(p.(ePoint), 32) }
func (r refEd) Add(a, b any) any          { return r.c.Add(a.(ePoint), b.(ePoint)) }
func (r refEd) Neg(a any) any             { return r.c.Neg(a.(ePoint)) }
func (r refEd) Mul(k *big.Int, a any) any { return r.c.Mul(k, a.(ePoint)) }
func (r refEd) Identity() any             { return r.c.Identity() }
func (r refEd) Base() any                 { return r.c.Base() }
func (r refEd) OnCurve(a any) bool        { return r.c.OnCurve(a.(ePoint)) }
func (r refEd) InSubgroup(a any) bool {
	return r.c.Equal(r.c.Mul(r.c.L, a.(ePoint)), r.c.Identity())
}

type refW struct {
	c   *wCurve
	enc func(wPoint) []byte
	dec func([]byte) (wPoint, error)
}

func (r refW) Decode(enc []byte) (any, error) {
	p, err := r.dec(enc)
	if err != nil {
		return nil, err
	}
	return p, nil
}
func (r refW) Encode(p any) []byte       { return r.enc(p.(wPoint)) }
func (r refW) Add(a, b any) any          { return r.c.Add(a.(wPoint), b.(wPoint)) }
func (r refW) Neg(a any) any             { return r.c.Neg(a.(wPoint)) }
func (r refW) Mul(k *big.Int, a any) any { return r.c.Mul(k, a.(wPoint)) }
func (r refW) Identity() any             { return r.c.Infinity() }
func (r refW) Base() any                 { return r.c.Base() }
func (r refW) OnCurve(a any) bool        { return r.c.OnCurve(a.(wPoint)) }
func (r refW) InSubgroup(a any) bool     { return r.c.InSubgroup(a.(wPoint)) }

var (
	refP256 = refW{modelP256, encP256, func(b []byte) (wPoint, error) {
		if len(b) != 65 || b[0] != 4 {
			return wPoint{}, fmt.Errorf("model: bad P-256 encoding")
		}
		return decP256(b), nil
	}}
	refBN256 = refW{modelBN256, func(p wPoint) []byte { return encXY(p, 32) }, func(b []byte) (wPoint, error) {
		if len(b) != 64 {
			return wPoint{}, fmt.Errorf("model: bad BN G1 encoding length")
		}
		return decXY(b, 32), nil
	}}
	refBN254 = refW{modelBN254, func(p wPoint) []byte { return encXY(p, 32) }, func(b []byte) (wPoint, error) {
		if len(b) != 64 {
			return wPoint{}, fmt.Errorf("model: bad BN G1 encoding length")
		}
		return decXY(b, 32), nil
	}}
	refBLSG1 = refW{modelBLSG1, encBLSG1, func(b []byte) (wPoint, error) {
		p, ok := decBLSG1(b)
		if !ok {
			return wPoint{}, fmt.Errorf("model: bad BLS12-381 G1 encoding")
		}
		return p, nil
	}}
)

// refFor returns the reference model of a registry group (nil if there is none).
func refFor(gi *GroupInfo) refGroup {
	switch {
	case gi.Family == "ed25519":
		return refEd{c: modelEd25519}
	case gi.Name == "edvar.proj25519" || gi.Name == "edvar.ext25519":
		return refEd{c: modelEd25519}
	case gi.Name == "edvar.proj25519.full" || gi.Name == "edvar.ext25519.full":
		// the full group uses another generator (of order 8q) than the model's standard base
		return refEd{c: modelEd25519, noBase: true}
	case gi.Name == "p256":
		return refP256
	case gi.Name == "bn256.G1":
		return refBN256
	case gi.Name == "bn254.G1":
		return refBN254
	case gi.Role == 1 && (gi.Family == "bls-kilic" || gi.Family == "bls-circl" || gi.Family == "bls-gnark"):
		return refBLSG1
	}
	return nil
}
