package harness

import (
	"bytes"
	"fmt"
	"math/big"
	"sync"

	"go.dedis.ch/kyber/v4"
	"go.dedis.ch/kyber/v4/pairing"
)

// GroupInfo describes one exposed group instance and the operations it documents.  Generators use
// the capability flags so that only supported operations are ever generated.
type GroupInfo struct {
	Name       string
	baseEnc    []byte // encoding of Base() taken when the registry was built (see constantsIntact)
	nullEnc    []byte
	Modulus    *big.Int // residue groups: the prime P (elements are integers mod P)
	Family     string   // ed25519, edvar, p256, qr512, bn256, bn254, bls-kilic, bls-circl, bls-gnark
	G          kyber.Group
	Order      *big.Int // order of the scalar ring (q; 8q for full Edwards groups)
	PrimeOrder bool
	LE         bool // scalar byte order of SetBytes / MarshalBinary
	HasBase    bool
	HasPick    bool
	HasEmbed   bool
	MulNil     bool                              // Mul(s, nil) supported
	Hash       func(msg, dst []byte) kyber.Point // nil if the group has no hash-to-group
	HashDST    bool                              // Hash honours dst
	VarTime    bool                              // call AllowVarTime(true) on every point produced
	Role       int                               // 0 plain, 1 G1, 2 G2, 3 GT
	Suite      *SuiteInfo
	Extra      bool // only used in the thorough tier
	// Alt: ANOTHER group object for the same group (a second suite instance, a second call of
	// suite.G1()); nil where the harness has no second constructor.  Two parties of one process, or
	// two calls of an accessor, hold different handles of one group; values made through either must
	// be interchangeable.
	Alt kyber.Group
}

type SuiteInfo struct {
	Name       string
	S          pairing.Suite
	G1, G2, GT *GroupInfo
}

func hexBig(s string) *big.Int {
	v, ok := new(big.Int).SetString(s, 16)
	if !ok {
		panic("bad hex constant")
	}
	return v
}

func decBig(s string) *big.Int {
	v, ok := new(big.Int).SetString(s, 10)
	if !ok {
		panic("bad decimal constant")
	}
	return v
}

// Published group orders (harness constants, cross-checked against the library at start-up).
var (
	ordEd25519 = decBig("7237005577332262213973186563042994240857116359379907606001950938285454250989")
	ordP256    = hexBig("FFFFFFFF00000000FFFFFFFFFFFFFFFFBCE6FAADA7179E84F3B9CAC2FC632551")
	ordBN256   = decBig("65000549695646603732796438742359905742570406053903786389881062969044166799969")
	ordBN254   = decBig("21888242871839275222246405745257275088548364400416034343698204186575808495617")
	ordBLS     = hexBig("73eda753299d7d483339d80809a1d80553bda402fffe5bfeffffffff00000001")
)

const edDefaultDST = "QUUX-V01-CS02-with-edwards25519_XMD:SHA-512_ELL2_RO_"

var (
	regOnce   sync.Once
	regGroups []*GroupInfo
	regSuites []*SuiteInfo
)

func libOrder(g kyber.Group) *big.Int {
	return new(big.Int).Set(g.Scalar().GroupOrder().ToBigInt())
}

// Groups returns the registry; extra (thorough-only) instances are included when all is set.
// snapshotConstants records the encodings of every group's constants before any test has run.
func snapshotConstants() {
	for _, gi := range regGroups {
		if gi.HasBase {
			gi.baseEnc, _ = gi.G.Point().Base().MarshalBinary()
		}
		gi.nullEnc, _ = gi.G.Point().Null().MarshalBinary()
	}
}

// constantsIntact: Base() and Null() still give what they gave when the process started.  A
// constant handed out by reference from a cache is corrupted, for every later caller, by the first
// in-place update of a value obtained from it - and an oracle that calls Base() itself is corrupted
// along with the code under test.
func constantsIntact(gi *GroupInfo) string {
	// first overwrite, in place, values obtained from the constants: a constructor that hands out the
	// group's own storage (or storage shared between its results) is exposed by the comparison below
	if gi.HasBase && gi.Role != 3 {
		b1, b2 := gi.G.Point().Base(), gi.G.Point().Base()
		b1.Null()
		b2.Set(gi.G.Point().Add(gi.G.Point().Base(), gi.G.Point().Base()))
	}
	n1 := gi.G.Point().Null()
	if gi.HasBase {
		n1.Set(gi.G.Point().Base())
	}
	if gi.HasBase {
		if b, _ := gi.G.Point().Base().MarshalBinary(); !bytes.Equal(b, gi.baseEnc) {
			return fmt.Sprintf("Base() now encodes %x, at process start it encoded %x", b, gi.baseEnc)
		}
	}
	if b, _ := gi.G.Point().Null().MarshalBinary(); !bytes.Equal(b, gi.nullEnc) {
		return fmt.Sprintf("Null() now encodes %x, at process start it encoded %x", b, gi.nullEnc)
	}
	return ""
}

func Groups(all bool) []*GroupInfo {
	regOnce.Do(func() { buildRegistry(); snapshotConstants() })
	var out []*GroupInfo
	for _, g := range regGroups {
		if g.Extra && !all {
			continue
		}
		out = append(out, g)
	}
	return out
}

func Suites() []*SuiteInfo {
	regOnce.Do(func() { buildRegistry(); snapshotConstants() })
	return regSuites
}

// groupByNameRaw: lookup while the registry is being built
func groupByNameRaw(n string) *GroupInfo {
	for _, g := range regGroups {
		if g.Name == n {
			return g
		}
	}
	panic("harness: no group " + n)
}

func groupByName(n string) *GroupInfo {
	for _, g := range Groups(true) {
		if g.Name == n {
			return g
		}
	}
	panic("no group " + n)
}
