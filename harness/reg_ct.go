//go:build constantTime

package harness

import (
	"math/big"

	"go.dedis.ch/kyber/v4"
	"go.dedis.ch/kyber/v4/group/edwards25519"
	"go.dedis.ch/kyber/v4/pairing"
	"go.dedis.ch/kyber/v4/pairing/bls12381/circl"
)

const buildFlavour = "constantTime"

// In the constantTime build only Ed25519, CIRCL's BLS12-381 and mod.Int over bigmod exist.
func buildRegistry() {
	add := func(gi *GroupInfo) *GroupInfo { regGroups = append(regGroups, gi); return gi }
	ed := edwards25519.NewBlakeSHA256Ed25519()
	edHash := func(msg, dst []byte) kyber.Point {
		type hasher interface {
			Hash(m []byte, dst string) kyber.Point
		}
		if len(dst) == 0 {
			// RFC 9380 §3.1: tags MUST have non-zero length; nil selects the harness default
			dst = []byte(edDefaultDST)
		}
		return ed.Point().(hasher).Hash(msg, string(dst))
	}
	add(&GroupInfo{Name: "ed25519", Family: "ed25519", G: ed, Order: ordEd25519, PrimeOrder: true, LE: true,
		HasBase: true, HasPick: true, HasEmbed: true, MulNil: true, Hash: edHash, HashDST: true})
	hash2Of := func(g kyber.Group) func(msg, dst []byte) kyber.Point {
		type hasher2 interface {
			Hash2(msg, dst []byte) kyber.Point
		}
		return func(msg, dst []byte) kyber.Point {
			if dst == nil {
				return g.Point().(kyber.HashablePoint).Hash(msg)
			}
			return g.Point().(hasher2).Hash2(msg, dst)
		}
	}
	suite := func(name, fam string, s pairing.Suite, ord *big.Int) *SuiteInfo {
		si := &SuiteInfo{Name: name, S: s}
		si.G1 = add(&GroupInfo{Name: name + ".G1", Family: fam, G: s.G1(), Order: ord, PrimeOrder: true, HasBase: true, HasPick: true, MulNil: true, Role: 1, Suite: si})
		si.G2 = add(&GroupInfo{Name: name + ".G2", Family: fam, G: s.G2(), Order: ord, PrimeOrder: true, HasBase: true, HasPick: true, MulNil: true, Role: 2, Suite: si})
		si.GT = add(&GroupInfo{Name: name + ".GT", Family: fam, G: s.GT(), Order: ord, PrimeOrder: true, HasBase: true, HasPick: true, MulNil: true, Role: 3, Suite: si})
		regSuites = append(regSuites, si)
		return si
	}
	ci := suite("bls.circl", "bls-circl", circl.NewSuite(), ordBLS)
	ci.G1.Hash, ci.G1.HashDST = hash2Of(ci.G1.G), true
	ci.G2.Hash, ci.G2.HashDST = hash2Of(ci.G2.G), true
	ci.GT.HasPick = false
	groupByNameRaw("ed25519").Alt = edwards25519.NewBlakeSHA256Ed25519()
	s2 := circl.NewSuite()
	ci.G1.Alt, ci.G2.Alt, ci.GT.Alt = s2.G1(), s2.G2(), s2.GT()
}
