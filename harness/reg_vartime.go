//go:build !constantTime

package harness

import (
	"math/big"

	"go.dedis.ch/kyber/v4"
	"go.dedis.ch/kyber/v4/group/edwards25519"
	"go.dedis.ch/kyber/v4/group/edwards25519vartime"
	"go.dedis.ch/kyber/v4/group/p256"
	"go.dedis.ch/kyber/v4/pairing"
	"go.dedis.ch/kyber/v4/pairing/bls12381/circl"
	"go.dedis.ch/kyber/v4/pairing/bls12381/gnark"
	"go.dedis.ch/kyber/v4/pairing/bls12381/kilic"
	"go.dedis.ch/kyber/v4/pairing/bn254"
	"go.dedis.ch/kyber/v4/pairing/bn256"
)

const buildFlavour = "default"

func buildRegistry() {
	add := func(gi *GroupInfo) *GroupInfo { regGroups = append(regGroups, gi); return gi }

	ed := edwards25519.NewBlakeSHA256Ed25519()
	edHash := func(msg, dst []byte) kyber.Point {
		type hasher interface {
			Hash(m []byte, dst string) kyber.Point
		}
		if len(dst) == 0 {
			// RFC 9380 §3.1: tags MUST have non-zero length; nil selects the harness default
			dst = []byte(edDefaultDST)
		}
		return ed.Point().(hasher).Hash(msg, string(dst))
	}
	add(&GroupInfo{Name: "ed25519", Family: "ed25519", G: ed, Order: ordEd25519, PrimeOrder: true, LE: true,
		HasBase: true, HasPick: true, HasEmbed: true, MulNil: true, Hash: edHash, HashDST: true})
	add(&GroupInfo{Name: "ed25519.allowvt", Family: "ed25519", G: ed, Order: ordEd25519, PrimeOrder: true, LE: true,
		HasBase: true, HasPick: true, HasEmbed: true, MulNil: true, Hash: edHash, HashDST: true, VarTime: true})

	edv := func(name string, p *edwards25519vartime.Param, full, ext, extra bool) {
		var g kyber.Group
		if ext {
			g = new(edwards25519vartime.ExtendedCurve).InitCurve(p, full)
		} else {
			g = new(edwards25519vartime.ProjectiveCurve).Init(p, full)
		}
		add(&GroupInfo{Name: name, Family: "edvar", G: g, Order: libOrder(g), PrimeOrder: !full,
			HasBase: true, HasPick: true, HasEmbed: true, MulNil: true, Extra: extra})
	}
	edv("edvar.proj25519", edwards25519vartime.ParamEd25519(), false, false, false)
	edv("edvar.ext25519", edwards25519vartime.ParamEd25519(), false, true, false)
	edv("edvar.proj25519.full", edwards25519vartime.ParamEd25519(), true, false, false)
	edv("edvar.ext25519.full", edwards25519vartime.ParamEd25519(), true, true, false)
	edv("edvar.ext1174", edwards25519vartime.Param1174(), false, true, true)
	edv("edvar.extE382", edwards25519vartime.ParamE382(), false, true, true)
	edv("edvar.ext41417", edwards25519vartime.Param41417(), false, true, true)
	edv("edvar.extE521", edwards25519vartime.ParamE521(), false, true, true)
	edv("edvar.proj1174", edwards25519vartime.Param1174(), false, false, true)
	edv("edvar.projE521", edwards25519vartime.ParamE521(), false, false, true)

	p := p256.NewBlakeSHA256P256()
	add(&GroupInfo{Name: "p256", Family: "p256", G: p, Order: ordP256, PrimeOrder: true,
		HasBase: true, HasPick: true, HasEmbed: true, MulNil: true})
	qr := p256.NewBlakeSHA256QR512()
	qrq := libOrder(qr)
	add(&GroupInfo{Name: "qr512", Family: "qr512", G: qr, Order: qrq, PrimeOrder: true,
		HasBase: true, HasPick: true, HasEmbed: true, MulNil: true, Modulus: new(big.Int).Add(new(big.Int).Lsh(qrq, 1), big1)})
	// a residue group with cofactor R > 2 (ResidueGroup.SetParams is public API): Q = the P-256 group
	// order, R the smallest even number >= 4 with P = Q*R+1 prime, G = h^R for the smallest h giving
	// G != 1.  With R > 2 "is a quadratic residue" and "is in the order-Q subgroup" differ.
	{
		Q := new(big.Int).Set(ordP256)
		R, P := big.NewInt(4), new(big.Int)
		for {
			P.Add(new(big.Int).Mul(Q, R), big1)
			if P.ProbablyPrime(32) {
				break
			}
			R.Add(R, big.NewInt(2))
		}
		G := new(big.Int)
		for h := int64(2); ; h++ {
			if G.Exp(big.NewInt(h), R, P); G.Cmp(big1) != 0 {
				break
			}
		}
		rg := new(p256.ResidueGroup)
		rg.SetParams(P, Q, R, G)
		if !rg.Valid() {
			panic("harness: cofactor residue group parameters are not valid")
		}
		add(&GroupInfo{Name: "qr.cofactor", Family: "qr512", G: rg, Order: Q, PrimeOrder: true,
			HasBase: true, HasPick: true, HasEmbed: true, MulNil: true, Modulus: P})
	}

	hashOf := func(g kyber.Group) func(msg, dst []byte) kyber.Point {
		return func(msg, _ []byte) kyber.Point { return g.Point().(kyber.HashablePoint).Hash(msg) }
	}
	hash2Of := func(g kyber.Group) func(msg, dst []byte) kyber.Point {
		type hasher2 interface {
			Hash2(msg, dst []byte) kyber.Point
		}
		return func(msg, dst []byte) kyber.Point {
			if dst == nil {
				return g.Point().(kyber.HashablePoint).Hash(msg)
			}
			return g.Point().(hasher2).Hash2(msg, dst)
		}
	}
	suite := func(name, fam string, s pairing.Suite, ord *big.Int) *SuiteInfo {
		si := &SuiteInfo{Name: name, S: s}
		si.G1 = add(&GroupInfo{Name: name + ".G1", Family: fam, G: s.G1(), Order: ord, PrimeOrder: true, HasBase: true, HasPick: true, MulNil: true, Role: 1, Suite: si})
		si.G2 = add(&GroupInfo{Name: name + ".G2", Family: fam, G: s.G2(), Order: ord, PrimeOrder: true, HasBase: true, HasPick: true, MulNil: true, Role: 2, Suite: si})
		si.GT = add(&GroupInfo{Name: name + ".GT", Family: fam, G: s.GT(), Order: ord, PrimeOrder: true, HasBase: true, HasPick: true, MulNil: true, Role: 3, Suite: si})
		regSuites = append(regSuites, si)
		return si
	}
	b6 := suite("bn256", "bn256", bn256.NewSuite(), ordBN256)
	b6.G1.HasEmbed = true
	b6.G1.Hash = hashOf(b6.G1.G)
	b4 := suite("bn254", "bn254", bn254.NewSuite(), ordBN254)
	b4.G1.Hash = hashOf(b4.G1.G)
	ki := suite("bls.kilic", "bls-kilic", kilic.NewBLS12381Suite(), ordBLS)
	ki.G1.Hash = hashOf(ki.G1.G)
	ki.G2.Hash = hashOf(ki.G2.G)
	ki.GT.HasBase, ki.GT.HasPick, ki.GT.MulNil = false, false, false
	ci := suite("bls.circl", "bls-circl", circl.NewSuite(), ordBLS)
	ci.G1.Hash, ci.G1.HashDST = hash2Of(ci.G1.G), true
	ci.G2.Hash, ci.G2.HashDST = hash2Of(ci.G2.G), true
	ci.GT.HasPick = false
	gn := suite("bls.gnark", "bls-gnark", gnark.NewSuite(), ordBLS)
	gn.G1.Hash, gn.G1.HashDST = hash2Of(gn.G1.G), true
	gn.G2.Hash, gn.G2.HashDST = hash2Of(gn.G2.G), true
	gn.GT.HasPick = false
	alt := func(name string, g kyber.Group) { groupByNameRaw(name).Alt = g }
	alt("ed25519", edwards25519.NewBlakeSHA256Ed25519())
	alt("ed25519.allowvt", edwards25519.NewBlakeSHA256Ed25519())
	alt("edvar.ext25519", new(edwards25519vartime.ExtendedCurve).InitCurve(edwards25519vartime.ParamEd25519(), false))
	alt("edvar.proj25519", new(edwards25519vartime.ProjectiveCurve).Init(edwards25519vartime.ParamEd25519(), false))
	alt("p256", p256.NewBlakeSHA256P256())
	alt("qr512", p256.NewBlakeSHA256QR512())
	for _, x := range []struct {
		si *SuiteInfo
		s  pairing.Suite
	}{{b6, bn256.NewSuite()}, {b4, bn254.NewSuite()}, {ki, kilic.NewBLS12381Suite()}, {ci, circl.NewSuite()}, {gn, gnark.NewSuite()}} {
		x.si.G1.Alt, x.si.G2.Alt, x.si.GT.Alt = x.s.G1(), x.s.G2(), x.s.GT()
	}
}
