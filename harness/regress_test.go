//go:build !constantTime

package harness

// Plain, library-free replays of every confirmed finding (the seconds-long replay tier).  Each
// test reproduces the minimal failing input / history found by the generated search and asserts
// the property on it.  Fixed findings pass on the repaired tree and report a VIOLATION if the
// defect ever returns; the two open findings print their KNOWN-FINDING line on every run.

import (
	"bytes"
	"fmt"
	"math/big"
	"testing"
	"time"

	"go.dedis.ch/kyber/v4"
	"go.dedis.ch/kyber/v4/encrypt/ibe"
	"go.dedis.ch/kyber/v4/group/edwards25519"
	"go.dedis.ch/kyber/v4/proof"
	"go.dedis.ch/kyber/v4/share"
	dkg "go.dedis.ch/kyber/v4/share/dkg/pedersen"
	rdkg "go.dedis.ch/kyber/v4/share/dkg/rabin"
	pvss "go.dedis.ch/kyber/v4/share/vss/pedersen"
	rvss "go.dedis.ch/kyber/v4/share/vss/rabin"
	"go.dedis.ch/kyber/v4/shuffle"
	"go.dedis.ch/kyber/v4/sign/anon"
	"go.dedis.ch/kyber/v4/sign/bdn"
	"go.dedis.ch/kyber/v4/sign/schnorr"
	"go.dedis.ch/kyber/v4/xof/blake2xb"
	"go.dedis.ch/kyber/v4/xof/blake2xs"
)

func regressCase(ev *evProp, desc string) { ev.Case(true, "regression: "+desc, "regression") }

func TestC01_Regress_GTMulNil(t *testing.T) {
	if shard() != 0 {
		return // the replay tier runs once
	}
	ev := evFor("C01")
	for _, n := range []string{"bls.circl.GT", "bls.gnark.GT"} {
		gi := groupByName(n)
		s := gi.G.Scalar().SetInt64(5)
		var a kyber.Point
		if pn := safely(func() { a = gi.G.Point().Mul(s, nil) }); pn != "" {
			violationOrKnown(t, ev, "C01/"+n+"/MulNil", "Mul(s, nil) panicked: %s", pn)
			continue
		}
		if !a.Equal(gi.G.Point().Mul(s, gi.G.Point().Base())) {
			violationOrKnown(t, ev, "C01/"+n+"/MulNil", "Mul(s, nil) != Mul(s, Base())")
		}
		regressCase(ev, n+" Mul(5, nil) = Mul(5, Base())")
	}
}

func TestC04_Regress_Decoders(t *testing.T) {
	if shard() != 0 {
		return // the replay tier runs once
	}
	ev := evFor("C04")
	for _, n := range []string{"edvar.proj25519", "edvar.ext25519", "edvar.proj25519.full"} {
		gi := groupByName(n)
		if pn := safely(func() { _ = gi.G.Point().UnmarshalBinary(nil) }); pn != "" {
			violationOrKnown(t, ev, "C04/"+n+"/decode-panic", "UnmarshalBinary(nil) panicked: %s", pn)
		}
		regressCase(ev, n+" UnmarshalBinary(empty)")
	}
	p := groupByName("p256")
	enc := mustMarshalPlain(p.G.Point().Base())
	enc[32] ^= 1 // x+-1: off the curve
	q := p.G.Point()
	if err := q.UnmarshalBinary(enc); err == nil {
		if pn := safely(func() { _ = p.G.Point().Mul(p.G.Scalar().SetInt64(2), q) }); pn != "" {
			violationOrKnown(t, ev, "C04/p256/use-panic", "P-256 accepted an off-curve point and Mul panicked: %s", pn)
		} else {
			violationOrKnown(t, ev, "C04/p256/non-member-accepted", "P-256 accepted the off-curve encoding %x", enc)
		}
	}
	regressCase(ev, "p256 off-curve point (generator with x^1)")
	for _, n := range []string{"bls.circl.G1", "bls.circl.G2"} {
		gi := groupByName(n)
		in := make([]byte, gi.G.PointLen())
		in[0] = 0x07 // compression flag clear
		if pn := safely(func() { _ = gi.G.Point().UnmarshalBinary(in) }); pn != "" {
			violationOrKnown(t, ev, "C04/"+n+"/decode-panic", "UnmarshalBinary of a compressed-size string without the compression flag panicked: %s", pn)
		}
		regressCase(ev, n+" compressed-size input without compression flag")
	}
	// fix 28: a sealed deal whose plaintext has lost its share, delivered to verifier 0 (every proper
	// suffix of the genuine plaintext, through the verif hook Dealer.SealDealBytes)
	{
		ed := edwards25519.NewBlakeSHA256Ed25519()
		st := xofStream([]byte("regress-c04-vss"))
		suite := vssSuite{ed, xofStream([]byte("regress-c04-vss-rand"))}
		x := ed.Scalar().Pick(st)
		X := ed.Point().Mul(x, nil)
		var vl []kyber.Scalar
		var vp []kyber.Point
		for i := 0; i < 3; i++ {
			l := ed.Scalar().Pick(st)
			vl, vp = append(vl, l), append(vp, ed.Point().Mul(l, nil))
		}
		if d, err := pvss.NewDealer(suite, x, ed.Scalar().Pick(st), vp, 2); err == nil {
			pd, _ := d.PlaintextDeal(0)
			raw, _ := pd.Marshal()
			for n := 1; n < len(raw); n++ {
				if pn := safely(func() {
					if enc, err := d.SealDealBytes(0, raw[n:]); err == nil {
						v, _ := pvss.NewVerifier(suite, vl[0], X, vp)
						_, _ = v.ProcessEncryptedDeal(enc)
					}
				}); pn != "" {
					violationOrKnown(t, ev, "C04/composite/pedersen.ProcessEncryptedDeal(plaintext,v0)", "pedersen verifier 0 panicked on a sealed deal that is the suffix [%d:] of the genuine plaintext: %s", n, pn)
					break
				}
			}
		}
		if d, err := rvss.NewDealer(suite, x, ed.Scalar().Pick(st), vp, 2); err == nil {
			pd, _ := d.PlaintextDeal(0)
			raw, _ := pd.Marshal()
			for n := 1; n < len(raw); n++ {
				if pn := safely(func() {
					if enc, err := d.SealDealBytes(0, raw[n:]); err == nil {
						v, _ := rvss.NewVerifier(suite, vl[0], X, vp)
						_, _ = v.ProcessEncryptedDeal(enc)
					}
				}); pn != "" {
					violationOrKnown(t, ev, "C04/composite/rabin.ProcessEncryptedDeal(plaintext,v0)", "rabin verifier 0 panicked on a sealed deal that is the suffix [%d:] of the genuine plaintext: %s", n, pn)
					break
				}
			}
		}
		regressCase(ev, "vss deals without share through the genuine transport")
	}
}

func TestC05_Regress_ValueSemantics(t *testing.T) {
	if shard() != 0 {
		return // the replay tier runs once
	}
	ev := evFor("C05")
	qr := groupByName("qr512").G
	a := qr.Point().Base()
	b := a.Clone()
	b.Null()
	if !a.Equal(qr.Point().Base()) {
		violationOrKnown(t, ev, "C05/qr512/Clone", "b := a.Clone(); b.Null() changed a")
	}
	c := qr.Point().Null().Set(a)
	c.Null()
	if !a.Equal(qr.Point().Base()) {
		violationOrKnown(t, ev, "C05/qr512/Set", "c.Set(a); c.Null() changed a")
	}
	regressCase(ev, "qr512 Clone/Set independence")
	for _, n := range []string{"bls.kilic.G1", "bls.kilic.G2"} {
		g := groupByName(n).G
		p := g.Point().Base()
		p.Null()
		if !p.Equal(g.Point().Null()) {
			violationOrKnown(t, ev, "C05/"+n+"/Null", "p.Null() left the receiver unchanged")
		}
		p.Base()
		if !p.Equal(g.Point().Base()) {
			violationOrKnown(t, ev, "C05/"+n+"/Base", "p.Base() left the receiver unchanged")
		}
		regressCase(ev, n+" Null/Base set the receiver")
	}
	ki := groupByName("bls.kilic.GT")
	e := basePoint(ki)
	k := ki.G.Point().Null()
	k.Sub(e, e)
	k2 := ki.G.Point().Null()
	k2.Sub(ki.G.Point().Add(e, e), e)
	if !k.Equal(ki.G.Point().Null()) || !k2.Equal(e) {
		violationOrKnown(t, ev, "C05/bls.kilic.GT/Sub", "k.Sub(a,b) did not store the result in k")
	}
	regressCase(ev, "kilic GT Sub stores into the receiver")
	for _, n := range []string{"bls.gnark.G1", "bls.gnark.G2"} {
		g := groupByName(n).G
		a := g.Point().Base()
		b := g.Point().Mul(g.Scalar().SetInt64(3), nil)
		want := g.Point().Add(a.Clone(), b.Clone())
		b.Add(a, b)
		if !b.Equal(want) {
			violationOrKnown(t, ev, "C05/"+n+"/Add", "b.Add(a, b) != a+b")
		}
		b2 := g.Point().Mul(g.Scalar().SetInt64(3), nil)
		want2 := g.Point().Sub(a.Clone(), b2.Clone())
		b2.Sub(a, b2)
		if !b2.Equal(want2) {
			violationOrKnown(t, ev, "C05/"+n+"/Sub", "b.Sub(a, b) != a-b")
		}
		regressCase(ev, n+" Add/Sub with receiver = second operand")
	}
}

func TestC06_Regress_Pairings(t *testing.T) {
	if shard() != 0 {
		return // the replay tier runs once
	}
	ev := evFor("C06")
	for _, si := range Suites() {
		P, Q := si.G1.G.Point().Base(), si.G2.G.Point().Base()
		if !si.S.Pair(P, si.G2.G.Point().Neg(Q)).Equal(si.GT.G.Point().Neg(si.S.Pair(P, Q))) {
			violationOrKnown(t, ev, "C06/"+si.Name+"/e(P,-Q)=-e(P,Q)", "e(B1,-B2) != -e(B1,B2)")
		}
		O := si.G1.G.Point().Null()
		if si.S.ValidatePairing(O, Q, P, Q) || si.S.ValidatePairing(P, Q, O, Q) {
			violationOrKnown(t, ev, "C06/"+si.Name+"/ValidatePairing", "ValidatePairing with an identity G1 argument returns true although the pairings differ")
		}
		regressCase(ev, si.Name+" e(B1,-B2) and ValidatePairing(O,Q,P,Q)")
	}
}

func TestC09_Regress_TBLS_BDN(t *testing.T) {
	if shard() != 0 {
		return // the replay tier runs once
	}
	ev := evFor("C09")
	for _, c := range blsCombos() {
		ts := c.tscheme()
		st := xofStream([]byte("regress-tbls"))
		pri := share.NewPriPoly(c.key.G, 2, nil, st)
		pub := pri.Commit(c.key.G.Point().Base())
		msg := []byte("m")
		p0, _ := ts.Sign(pri.Eval(0), msg)
		p1, _ := ts.Sign(pri.Eval(1), msg)
		if _, err := ts.Recover(pub, msg, [][]byte{p0, p0, p1}, 2, 3); err != nil {
			violationOrKnown(t, ev, "C09/tbls/"+c.name+"/Recover-duplicate", "Recover fails when a valid partial is presented twice: %v", err)
		}
		sch := c.bdn()
		a, A := sch.NewKeyPair(st)
		_, B := sch.NewKeyPair(st)
		var aggErr error
		if pn := safely(func() {
			m, err := bdn.NewMask(c.key.G, []kyber.Point{A, B}, A)
			if err != nil {
				aggErr = err
				return
			}
			s, _ := sch.Sign(a, msg)
			_, aggErr = sch.AggregateSignatures([][]byte{s}, m)
		}); pn != "" || aggErr != nil {
			violationOrKnown(t, ev, "C09/bdn/"+c.name+"/aggregate-ownkey", "aggregation with a mask from NewMask(ownKey) fails: %s %v", pn, aggErr)
		}
		regressCase(ev, c.name+" tbls duplicate partial, bdn NewMask(own key)")
	}
}

func TestC10_Regress_VSS(t *testing.T) {
	if shard() != 0 {
		return // the replay tier runs once
	}
	ev := evFor("C10")
	ed := edwards25519.NewBlakeSHA256Ed25519()
	suite := vssSuite{ed, xofStream([]byte("regress-vss"))}
	st := xofStream([]byte("regress-vss-keys"))
	dl := ed.Scalar().Pick(st)
	var vl []kyber.Scalar
	var vp []kyber.Point
	for i := 0; i < 3; i++ {
		l := ed.Scalar().Pick(st)
		vl, vp = append(vl, l), append(vp, ed.Point().Mul(l, nil))
	}
	rv, _ := rvss.NewVerifier(suite, vl[0], ed.Point().Mul(dl, nil), vp)
	if pn := safely(func() { _ = rv.ProcessResponse(&rvss.Response{Index: 1}); rv.SetTimeout() }); pn != "" {
		violationOrKnown(t, ev, "C10/rabin/response-before-deal-panic", "rabin verifier panicked on a response/timeout before its deal: %s", pn)
	}
	regressCase(ev, "rabin response before deal")
	// justification revealing another index' deal
	d, _ := pvss.NewDealer(suite, dl, ed.Scalar().Pick(st), vp, 2)
	v1, _ := pvss.NewVerifier(suite, vl[1], ed.Point().Mul(dl, nil), vp)
	pd, _ := d.PlaintextDeal(1)
	good := pd.SecShare.V.Clone()
	pd.SecShare.V = ed.Scalar().Add(good, ed.Scalar().One())
	enc, _ := d.EncryptedDeal(1)
	pd.SecShare.V = good
	resp, err := v1.ProcessEncryptedDeal(enc)
	if err == nil && !resp.StatusApproved {
		other, _ := d.PlaintextDeal(0)
		j := &pvss.Justification{SessionID: d.SessionID(), Index: 1, Deal: other}
		if v1.ProcessJustification(j) == nil {
			violationOrKnown(t, ev, "C10/pedersen/incorrect-justification-accepted", "a justification revealing the deal of index 0 cleared the complaint of verifier 1")
		}
	}
	regressCase(ev, "pedersen justification with another index' deal")
	// fix 27: a self-consistent deal for other commitments under the main run's session id
	for _, rabin := range []bool{false, true} {
		secret := ed.Scalar().Pick(st)
		approved, certified := c10RegressForeignDeal(suite, ed, dl, vl, vp, secret, rabin)
		name := map[bool]string{false: "pedersen", true: "rabin"}[rabin]
		// (Rabin's certification rule does not wait for a complaint to be justified - see the open C11
		// finding - so only the approval is judged there)
		if approved || (certified && !rabin) {
			violationOrKnown(t, ev, "C10/"+name+"/bad-deal-approved", "%s: a deal consistent in itself but for other commitments, announcing the session id of the main run, was approved=%v and the victim reports certified=%v after the others' approvals", name, approved, certified)
		}
		regressCase(ev, name+" foreign deal under the main session id")
	}
}

// c10RegressForeignDeal: verifier 0 gets the deal of ANOTHER dealer instance (same long-term key,
// other secret => other commitments) relabelled with the main run's session id; verifiers 1 and 2
// approve the main deal and verifier 0 receives their responses.
func c10RegressForeignDeal(suite vssSuite, ed kyber.Group, dl kyber.Scalar, vl []kyber.Scalar, vp []kyber.Point, secret kyber.Scalar, rabin bool) (approved, certified bool) {
	dpub := ed.Point().Mul(dl, nil)
	other := ed.Scalar().Add(secret, ed.Scalar().One())
	if rabin {
		main, _ := rvss.NewDealer(suite, dl, secret, vp, 2)
		foreign, _ := rvss.NewDealer(suite, dl, other, vp, 2)
		fd, _ := foreign.PlaintextDeal(0)
		fd.SessionID = main.SessionID()
		enc, err := foreign.EncryptedDeal(0)
		if err != nil {
			return false, false
		}
		v0, _ := rvss.NewVerifier(suite, vl[0], dpub, vp)
		resp, err := v0.ProcessEncryptedDeal(enc)
		approved = err == nil && resp.Approved
		for i := 1; i < 3; i++ {
			vi, _ := rvss.NewVerifier(suite, vl[i], dpub, vp)
			e, _ := main.EncryptedDeal(i)
			if ri, err := vi.ProcessEncryptedDeal(e); err == nil {
				_ = v0.ProcessResponse(ri)
			}
		}
		v0.SetTimeout()
		return approved, v0.DealCertified()
	}
	main, _ := pvss.NewDealer(suite, dl, secret, vp, 2)
	foreign, _ := pvss.NewDealer(suite, dl, other, vp, 2)
	fd, _ := foreign.PlaintextDeal(0)
	fd.SessionID = main.SessionID()
	enc, err := foreign.EncryptedDeal(0)
	if err != nil {
		return false, false
	}
	v0, _ := pvss.NewVerifier(suite, vl[0], dpub, vp)
	resp, err := v0.ProcessEncryptedDeal(enc)
	approved = err == nil && resp.StatusApproved
	for i := 1; i < 3; i++ {
		vi, _ := pvss.NewVerifier(suite, vl[i], dpub, vp)
		e, _ := main.EncryptedDeal(i)
		if ri, err := vi.ProcessEncryptedDeal(e); err == nil {
			_ = v0.ProcessResponse(ri)
		}
	}
	v0.SetTimeout()
	return approved, v0.DealCertified()
}

func TestC15_Regress_ForgedShuffle(t *testing.T) {
	if shard() != 0 {
		return // the replay tier runs once
	}
	ev := evFor("C15")
	// the fixed forgery: k=2, output = (X0+X1, X1) style sum relation, see c15Forged
	res := testing.Benchmark(func(b *testing.B) {}) // no-op: keeps the testing import used uniformly
	_ = res
	gi := groupByName("ed25519")
	g := gi.G
	st := xofStream([]byte("regress-shuffle"))
	suite := proofSuiteRand{edwards25519.NewBlakeSHA256Ed25519(), xofStream([]byte("regress-shuffle-rand"))}
	G := g.Point().Base()
	H := g.Point().Mul(g.Scalar().Pick(st), nil)
	var X, Y []kyber.Point
	for i := 0; i < 2; i++ {
		r := g.Scalar().Pick(st)
		X = append(X, g.Point().Mul(r, G))
		Y = append(Y, g.Point().Add(g.Point().Mul(r, H), g.Point().Pick(st)))
	}
	// M = [[1,1],[0,1]]: X_0 = Xb_0, X_1 = Xb_0 + Xb_1  =>  Xb_0 = X_0, Xb_1 = X_1 - X_0 (t = 0)
	xb := []kyber.Point{X[0], g.Point().Sub(X[1], X[0])}
	yb := []kyber.Point{Y[0], g.Point().Sub(Y[1], Y[0])}
	M := [][]int64{{1, 1}, {0, 1}}
	prover := func(pc proof.ProverContext) error {
		gamma, tau0 := g.Scalar().Pick(st), g.Scalar().Pick(st)
		w := []kyber.Scalar{g.Scalar().Pick(st), g.Scalar().Pick(st)}
		p1 := &fEga1{Gamma: g.Point().Mul(gamma, G), Lambda1: g.Point().Mul(g.Scalar().Neg(tau0), G), Lambda2: g.Point().Mul(g.Scalar().Neg(tau0), H)}
		for i := 0; i < 2; i++ {
			p1.A, p1.C, p1.U = append(p1.A, g.Point().Pick(st)), append(p1.C, g.Point().Pick(st)), append(p1.U, g.Point().Pick(st))
			p1.W = append(p1.W, g.Point().Mul(g.Scalar().Mul(gamma, w[i]), G))
			p1.Lambda1 = g.Point().Add(p1.Lambda1, g.Point().Mul(w[i], xb[i]))
			p1.Lambda2 = g.Point().Add(p1.Lambda2, g.Point().Mul(w[i], yb[i]))
		}
		if err := pc.Put(p1); err != nil {
			return err
		}
		v2 := &fEga2{Zrho: make([]kyber.Scalar, 2)}
		if err := pc.PubRand(v2); err != nil {
			return err
		}
		m := make([]kyber.Scalar, 2)
		p3 := &fEga3{}
		for i := 0; i < 2; i++ {
			m[i] = g.Scalar().Zero()
			for j := 0; j < 2; j++ {
				m[i] = g.Scalar().Add(m[i], g.Scalar().Mul(g.Scalar().SetInt64(M[i][j]), v2.Zrho[j]))
			}
			p3.D = append(p3.D, g.Point().Mul(g.Scalar().Mul(gamma, m[i]), G))
		}
		if err := pc.Put(p3); err != nil {
			return err
		}
		v4 := &fEga4{}
		if err := pc.PubRand(v4); err != nil {
			return err
		}
		p5 := &fEga5{Ztau: tau0}
		for i := 0; i < 2; i++ {
			p5.Zsigma = append(p5.Zsigma, g.Scalar().Add(w[i], m[i]))
		}
		if err := pc.Put(p5); err != nil {
			return err
		}
		x := []kyber.Scalar{g.Scalar().Pick(st), g.Scalar().Pick(st)}
		y := []kyber.Scalar{g.Scalar().Mul(gamma, x[1]), g.Scalar().Mul(gamma, x[0])}
		ss := shuffle.SimpleShuffle{}
		ss.Init(g, 2)
		return ss.Prove(G, gamma, x, y, st, pc)
	}
	prf, err := proof.HashProve(suite, "PairShuffle", prover)
	if err != nil {
		t.Fatalf("harness: forging prover failed: %v", err)
	}
	if proof.HashVerify(suite, "PairShuffle", shuffle.Verifier(g, G, H, X, Y, xb, yb), prf) == nil {
		violationOrKnown(t, ev, "C15/pair/ed25519/forged-transcript-accepted", "forged pair-shuffle proof for the output (X0, X1-X0) is accepted")
	}
	regressCase(ev, "forged pair-shuffle transcript, M=[[1,1],[0,1]]")
}

func TestC16_Regress_Encryption(t *testing.T) {
	if shard() != 0 {
		return // the replay tier runs once
	}
	ev := evFor("C16")
	// IBE CPA with a 48-byte message
	for _, c := range ibeCombos() {
		if !c.onG1 {
			continue
		}
		s := c.si.S
		ms := c.si.G1.G.Scalar().SetInt64(77)
		master := c.si.G1.G.Point().Mul(ms, nil)
		msg := bytes.Repeat([]byte("0123456789abcdef"), 3)
		ct, err := ibe.EncryptCPAonG1(s, c.si.G1.G.Point().Base(), master, []byte("id"), msg)
		if err == nil {
			if off := clearBlock(msg, ct.C); off >= 0 {
				violationOrKnown(t, ev, "C16/ibe/"+c.name+"/cpa-plaintext-in-clear", "48-byte message: plaintext block at offset %d in the clear", off)
			}
		}
		regressCase(ev, c.name+" IBE CPA 48-byte message")
	}
	// anon.Decrypt with a bit flipped in the other recipient's slot
	suite := anonSuiteRand{edwards25519.NewBlakeSHA256Ed25519(), xofStream([]byte("regress-anon"))}
	st := xofStream([]byte("regress-anon-keys"))
	k0, k1 := suite.Scalar().Pick(st), suite.Scalar().Pick(st)
	set := anon.Set{suite.Point().Mul(k0, nil), suite.Point().Mul(k1, nil)}
	ct, _ := anon.Encrypt(suite, []byte("hello"), set)
	ct[suite.PointLen()+suite.ScalarLen()+3] ^= 4 // inside recipient 1's slot
	if _, err := anon.Decrypt(suite, ct, set, 0, k0); err == nil {
		violationOrKnown(t, ev, "C16/anon/ed25519/tamper-accepted-other-slot", "a ciphertext with a bit flipped in the other recipient's key slot decrypts without error")
	}
	regressCase(ev, "anon.Decrypt with tampered foreign header slot")
}

func TestC17_Regress_PickHash(t *testing.T) {
	if shard() != 0 {
		return // the replay tier runs once
	}
	ev := evFor("C17")
	p := groupByName("p256")
	st := &prefixStream{prefix: bytes.Repeat([]byte{0xff}, 40), tail: xofStream([]byte("x"))}
	pt := p.G.Point().Pick(st)
	if pn := safely(func() { _ = p.G.Point().Mul(p.G.Scalar().SetInt64(2), pt) }); pn != "" {
		violationOrKnown(t, ev, "C17/p256/Pick-member", "Pick on an all-0xff stream gives a point on which Mul panics: %s", pn)
	}
	regressCase(ev, "p256 Pick on all-0xff stream")
	for _, n := range []string{"bls.gnark.G1", "bls.gnark.G2"} {
		gi := groupByName(n)
		dst := bytes.Repeat([]byte{1}, 256)
		if pn := safely(func() { _ = gi.Hash([]byte("m"), dst) }); pn != "" {
			violationOrKnown(t, ev, "C17/"+n+"/Hash-panic", "Hash2 with a 256-byte DST panicked: %s", pn)
		}
		regressCase(ev, n+" Hash2 with 256-byte DST")
	}
}

func TestC19_Regress_BlakeReset(t *testing.T) {
	if shard() != 0 {
		return // the replay tier runs once
	}
	ev := evFor("C19")
	for name, mk := range map[string]func([]byte) kyber.XOF{"blake2xb": blake2xb.New, "blake2xs": blake2xs.New} {
		seed := bytes.Repeat([]byte{9}, 31)
		x := mk(seed)
		x.Reseed()
		x.Reset()
		a, b := make([]byte, 32), make([]byte, 32)
		x.Read(a)
		mk(seed).Read(b)
		if !bytes.Equal(a, b) {
			violationOrKnown(t, ev, "C19/"+name+"/final", "New(seed); Reseed(); Reset() does not restore the seeded initial state")
		}
		regressCase(ev, name+" Reseed then Reset")
	}
}

// ---------------------------------------------------------------- open findings (always replayed)

// TestC11_Regress_FastSyncEquivocation: Pedersen Protocol driver, fast-sync, n=4 t=3; dealer 3
// signs two conflicting deal bundles; nodes 0,1 receive A first, node 2 receives A' first.
func TestC11_Regress_FastSyncEquivocation(t *testing.T) {
	if shard() != 0 {
		return // the replay tier runs once
	}
	ev := evFor("C11")
	g := edwards25519.NewBlakeSHA256Ed25519()
	suite := vssSuite{g, xofStream([]byte("regress-fastsync"))}
	st := xofStream([]byte("regress-fastsync-keys"))
	n, th := 4, uint32(3)
	var longs []kyber.Scalar
	var list []dkg.Node
	for i := 0; i < n; i++ {
		l := g.Scalar().Pick(st)
		longs = append(longs, l)
		list = append(list, dkg.Node{Index: uint32(i), Public: g.Point().Mul(l, nil)})
	}
	nonce := bytes.Repeat([]byte{5}, 32)
	run := &protoRun{}
	var nodes []*protoNode
	for i := 0; i < n; i++ {
		pn := &protoNode{idx: i, name: fmt.Sprintf("P%d", i), long: longs[i], run: run,
			dealCh: make(chan dkg.DealBundle), respCh: make(chan dkg.ResponseBundle), justCh: make(chan dkg.JustificationBundle), phaseCh: make(chan dkg.Phase)}
		pn.cfg = &dkg.Config{Suite: suite, Longterm: longs[i], NewNodes: list, Threshold: th, Nonce: nonce, Auth: schnorr.NewScheme(suite), FastSync: true}
		p, err := dkg.NewProtocol(pn.cfg, pn, pn, false)
		if err != nil {
			t.Fatalf("harness: %v", err)
		}
		pn.proto = p
		nodes = append(nodes, pn)
	}
	for _, nd := range nodes {
		nd.tick(dkg.DealPhase)
	}
	deals := map[int]*dkg.DealBundle{}
	for _, p := range run.outbox {
		if p.kind == "deal" {
			deals[p.from] = p.deal
		}
	}
	if len(deals) != n {
		t.Fatalf("harness: expected %d deal bundles, got %d", n, len(deals))
	}
	alt := *deals[3]
	alt.Public = append([]kyber.Point(nil), deals[3].Public...)
	alt.Public[0] = g.Point().Add(alt.Public[0], g.Point().Base())
	h, _ := alt.Hash()
	alt.Signature, _ = nodes[3].cfg.Auth.Sign(longs[3], h)
	taken := len(run.outbox)
	for i := 0; i < 4; i++ {
		first, second := deals[3], &alt
		if i == 2 {
			first, second = &alt, deals[3]
		}
		for _, d := range []*dkg.DealBundle{deals[0], deals[1], deals[2], first, second} {
			nodes[i].deliver(&protoPacket{kind: "deal", deal: d})
		}
	}
	// everything the honest nodes push from now on is delivered to all of them, phase by phase
	flush := func() {
		for {
			run.mu.Lock()
			fresh := run.outbox[taken:]
			taken = len(run.outbox)
			run.mu.Unlock()
			if len(fresh) == 0 {
				return
			}
			for _, p := range fresh {
				// the equivocating dealer otherwise follows the protocol (it justifies with respect to A)
				for i := 0; i < 4; i++ {
					nodes[i].deliver(p)
				}
			}
		}
	}
	flush()
	for _, ph := range []dkg.Phase{dkg.ResponsePhase, dkg.JustifPhase, dkg.FinishPhase} {
		for i := 0; i < 4; i++ {
			nodes[i].tick(ph)
		}
		flush()
	}
	var res []*dkg.Result
	for i := 0; i < 3; i++ {
		nd := nodes[i]
		if !nd.fin {
			select {
			case r := <-nd.proto.WaitEnd():
				nd.fin, nd.res = true, r
			case <-time.After(protoGuard):
				fmt.Println("HARNESS-ERROR: regression scenario did not terminate")
				t.Fatalf("guard")
			}
		}
		if nd.res.Result != nil {
			res = append(res, nd.res.Result)
		}
	}
	for i, r := range res {
		t.Logf("result %d: QUAL=[%s] key=%.16s", i, qualString(r.QUAL), pointHex(r.Key.Commits[0]))
	}
	for i := 0; i < 3; i++ {
		t.Logf("node %d: fin=%v err=%v", i, nodes[i].fin, nodes[i].res.Error)
	}
	disagree := false
	for _, r := range res[min(1, len(res)):] {
		if qualString(r.QUAL) != qualString(res[0].QUAL) || !r.Key.Commits[0].Equal(res[0].Key.Commits[0]) {
			disagree = true
		}
	}
	if disagree {
		violationOrKnown(t, ev, "C11/pedersen/protocol-fastsync-equivocating-dealer-order",
			"fast-sync, dealer 3 equivocates, P0/P1 see bundle A first and P2 sees A' first: the honest nodes that completed disagree on QUAL or on the public key")
	}
	regressCase(ev, "fast-sync equivocating dealer, opposite arrival orders")
}

// TestC11_Regress_RabinUnjustified: n=4, t=3; dealer 3 gives party 0 a share off its polynomial and
// never justifies; after the timeout every honest party still has 3 in QUAL.
func TestC11_Regress_RabinUnjustified(t *testing.T) {
	if shard() != 0 {
		return // the replay tier runs once
	}
	ev := evFor("C11")
	g := edwards25519.NewBlakeSHA256Ed25519()
	suite := vssSuite{g, xofStream([]byte("regress-rabin"))}
	st := xofStream([]byte("regress-rabin-keys"))
	n, th := 4, uint32(3)
	var longs []kyber.Scalar
	var pubs []kyber.Point
	for i := 0; i < n; i++ {
		l := g.Scalar().Pick(st)
		longs, pubs = append(longs, l), append(pubs, g.Point().Mul(l, nil))
	}
	var gens []*rdkg.DistKeyGenerator
	for i := 0; i < n; i++ {
		gen, err := rdkg.NewDistKeyGenerator(suite, longs[i], pubs, th)
		if err != nil {
			t.Fatalf("harness: %v", err)
		}
		gens = append(gens, gen)
	}
	bad, _ := rvss.NewDealer(suite, longs[3], g.Scalar().Pick(st), pubs, th)
	var resps []*rdkg.Response
	for i := 0; i < 3; i++ {
		ds, _ := gens[i].Deals()
		for j, d := range ds {
			if r, err := gens[j].ProcessDeal(d); err == nil {
				resps = append(resps, r)
			}
		}
	}
	for j := 0; j < 3; j++ {
		pd, _ := bad.PlaintextDeal(j)
		if j == 0 {
			pd.SecShare.V = g.Scalar().Add(pd.SecShare.V, g.Scalar().One())
		}
		enc, _ := bad.EncryptedDeal(j)
		if r, err := gens[j].ProcessDeal(&rdkg.Deal{Index: 3, Deal: enc}); err == nil {
			resps = append(resps, r)
		}
	}
	for _, r := range resps {
		for i := 0; i < 3; i++ {
			if int(r.Response.Index) != i {
				_, _ = gens[i].ProcessResponse(r)
			}
		}
	}
	for i := 0; i < 3; i++ {
		gens[i].SetTimeout()
	}
	for i := 0; i < 3; i++ {
		for _, q := range gens[i].QUAL() {
			if q == 3 {
				violationOrKnown(t, ev, "C11/rabin/unjustified-complaint-dealer-in-QUAL",
					"party %d keeps dealer 3 in QUAL %v although the complaint of party 0 about its invalid deal was never justified", i, gens[i].QUAL())
			}
		}
	}
	regressCase(ev, "rabin DKG n=4 t=3, dealer 3 cheats party 0 and never justifies")
	_ = big.NewInt
}
