package harness

import (
	"testing"

	"go.dedis.ch/kyber/v4/group/edwards25519"
	"pgregory.net/rapid"
)

func TestSmoke(t *testing.T) {
	rapid.Check(t, func(t *rapid.T) {
		g := edwards25519.NewBlakeSHA256Ed25519()
		_ = g.Point().Base()
		_ = rapid.Int().Draw(t, "x")
	})
}
