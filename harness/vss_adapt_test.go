//go:build !constantTime

package harness

// Uniform view of the two VSS packages (share/vss/pedersen and share/vss/rabin) for the C10
// history checker: generic message structs and thin wrappers around the public API only.

import (
	"crypto/cipher"
	"crypto/sha256"
	"hash"

	"go.dedis.ch/kyber/v4"
	"go.dedis.ch/kyber/v4/group/edwards25519"
	"go.dedis.ch/kyber/v4/share"
	pvss "go.dedis.ch/kyber/v4/share/vss/pedersen"
	rvss "go.dedis.ch/kyber/v4/share/vss/rabin"
)

type vssSuite struct {
	kyber.Group
	r cipher.Stream
}

func (s vssSuite) Hash() hash.Hash             { return sha256.New() }
func (s vssSuite) XOF(seed []byte) kyber.XOF   { return edwards25519.NewBlakeSHA256Ed25519().XOF(seed) }
func (s vssSuite) RandomStream() cipher.Stream { return s.r }

// gDeal is a plain copy of a deal's contents.
type gDeal struct {
	SID     []byte
	I       uint32
	V       kyber.Scalar
	RI      uint32       // rabin only
	RV      kyber.Scalar // rabin only
	T       uint32
	Commits []kyber.Point
}

func (d gDeal) clone() gDeal {
	c := gDeal{SID: append([]byte(nil), d.SID...), I: d.I, V: d.V.Clone(), RI: d.RI, T: d.T}
	if d.RV != nil {
		c.RV = d.RV.Clone()
	}
	for _, p := range d.Commits {
		c.Commits = append(c.Commits, p.Clone())
	}
	return c
}

type gEnc struct {
	DHKey  []byte
	Sig    []byte
	Cipher []byte
}

type gResp struct {
	SID      []byte
	Index    uint32
	Approved bool
	Sig      []byte
}

type gJust struct {
	SID   []byte
	Index uint32
	Deal  gDeal
	Sig   []byte
}

type vssDealer interface {
	GetDeal(i int) gDeal
	SetDeal(i int, d gDeal)
	Encrypt(i int) (gEnc, error)
	ProcessResponse(r gResp) (*gJust, error)
	Certified() bool
	SetTimeout()
	SecretCommit() kyber.Point
}

type vssVerifier interface {
	ProcessDeal(e gEnc) (*gResp, error)
	ProcessResponse(r gResp) error
	ProcessJustification(j gJust) error
	Certified() bool
	SetTimeout()
	CertifiedDeal() *gDeal
}

type vssImpl struct {
	name        string
	rabin       bool
	newDealer   func(s vssSuite, long, secret kyber.Scalar, vs []kyber.Point, t uint32) (vssDealer, error)
	newVerifier func(s vssSuite, long kyber.Scalar, dealer kyber.Point, vs []kyber.Point) (vssVerifier, error)
	respHash    func(s vssSuite, r gResp) []byte
	justHash    func(s vssSuite, j gJust) []byte
	recover     func(s vssSuite, deals []gDeal, n, t uint32) (kyber.Scalar, error)
	minT        func(n int) int
}

// ---------------------------------------------------------------- Pedersen

type pDealer struct{ d *pvss.Dealer }
type pVerifier struct {
	v *pvss.Verifier
	s vssSuite
}

func pToG(d *pvss.Deal) gDeal {
	return gDeal{SID: d.SessionID, I: d.SecShare.I, V: d.SecShare.V, T: d.T, Commits: d.Commitments}
}
func pFromG(g gDeal) *pvss.Deal {
	return &pvss.Deal{SessionID: g.SID, SecShare: &share.PriShare{I: g.I, V: g.V}, T: g.T, Commitments: g.Commits}
}
func (w pDealer) GetDeal(i int) gDeal { d, _ := w.d.PlaintextDeal(i); return pToG(d).clone() }
func (w pDealer) SetDeal(i int, g gDeal) {
	d, _ := w.d.PlaintextDeal(i)
	d.SessionID, d.SecShare, d.T, d.Commitments = g.SID, &share.PriShare{I: g.I, V: g.V}, g.T, g.Commits
}
func (w pDealer) Encrypt(i int) (gEnc, error) {
	e, err := w.d.EncryptedDeal(i)
	if err != nil {
		return gEnc{}, err
	}
	return gEnc{DHKey: e.DHKey, Sig: e.Signature, Cipher: e.Cipher}, nil
}
func (w pDealer) ProcessResponse(r gResp) (*gJust, error) {
	j, err := w.d.ProcessResponse(&pvss.Response{SessionID: r.SID, Index: r.Index, StatusApproved: r.Approved, Signature: r.Sig})
	if err != nil || j == nil {
		return nil, err
	}
	return &gJust{SID: j.SessionID, Index: j.Index, Deal: pToG(j.Deal).clone(), Sig: j.Signature}, nil
}
func (w pDealer) Certified() bool           { return w.d.DealCertified() }
func (w pDealer) SetTimeout()               { w.d.SetTimeout() }
func (w pDealer) SecretCommit() kyber.Point { return w.d.SecretCommit() }

func (w pVerifier) ProcessDeal(e gEnc) (*gResp, error) {
	r, err := w.v.ProcessEncryptedDeal(&pvss.EncryptedDeal{DHKey: e.DHKey, Signature: e.Sig, Cipher: e.Cipher})
	if err != nil {
		return nil, err
	}
	return &gResp{SID: r.SessionID, Index: r.Index, Approved: r.StatusApproved, Sig: r.Signature}, nil
}
func (w pVerifier) ProcessResponse(r gResp) error {
	return w.v.ProcessResponse(&pvss.Response{SessionID: r.SID, Index: r.Index, StatusApproved: r.Approved, Signature: r.Sig})
}
func (w pVerifier) ProcessJustification(j gJust) error {
	return w.v.ProcessJustification(&pvss.Justification{SessionID: j.SID, Index: j.Index, Deal: pFromG(j.Deal), Signature: j.Sig})
}
func (w pVerifier) Certified() bool { return w.v.DealCertified() }
func (w pVerifier) SetTimeout()     { w.v.SetTimeout() }
func (w pVerifier) CertifiedDeal() *gDeal {
	d := w.v.Deal()
	if d == nil {
		return nil
	}
	g := pToG(d)
	return &g
}

var vssPedersen = vssImpl{
	name: "pedersen",
	newDealer: func(s vssSuite, long, secret kyber.Scalar, vs []kyber.Point, t uint32) (vssDealer, error) {
		d, err := pvss.NewDealer(s, long, secret, vs, t)
		if err != nil {
			return nil, err
		}
		return pDealer{d}, nil
	},
	newVerifier: func(s vssSuite, long kyber.Scalar, dealer kyber.Point, vs []kyber.Point) (vssVerifier, error) {
		v, err := pvss.NewVerifier(s, long, dealer, vs)
		if err != nil {
			return nil, err
		}
		return pVerifier{v, s}, nil
	},
	respHash: func(s vssSuite, r gResp) []byte {
		return (&pvss.Response{SessionID: r.SID, Index: r.Index, StatusApproved: r.Approved}).Hash(s)
	},
	justHash: func(s vssSuite, j gJust) []byte {
		return (&pvss.Justification{SessionID: j.SID, Index: j.Index, Deal: pFromG(j.Deal)}).Hash(s)
	},
	recover: func(s vssSuite, deals []gDeal, n, t uint32) (kyber.Scalar, error) {
		var ds []*pvss.Deal
		for _, d := range deals {
			ds = append(ds, pFromG(d))
		}
		return pvss.RecoverSecret(s, ds, n, t)
	},
	minT: func(n int) int { return 2 },
}

// ---------------------------------------------------------------- Rabin

type rDealer struct{ d *rvss.Dealer }
type rVerifier struct {
	v *rvss.Verifier
	s vssSuite
}

func rToG(d *rvss.Deal) gDeal {
	return gDeal{SID: d.SessionID, I: d.SecShare.I, V: d.SecShare.V, RI: d.RndShare.I, RV: d.RndShare.V, T: d.T, Commits: d.Commitments}
}
func rFromG(g gDeal) *rvss.Deal {
	return &rvss.Deal{SessionID: g.SID, SecShare: &share.PriShare{I: g.I, V: g.V}, RndShare: &share.PriShare{I: g.RI, V: g.RV}, T: g.T, Commitments: g.Commits}
}
func (w rDealer) GetDeal(i int) gDeal { d, _ := w.d.PlaintextDeal(i); return rToG(d).clone() }
func (w rDealer) SetDeal(i int, g gDeal) {
	d, _ := w.d.PlaintextDeal(i)
	d.SessionID, d.SecShare, d.RndShare, d.T, d.Commitments = g.SID, &share.PriShare{I: g.I, V: g.V}, &share.PriShare{I: g.RI, V: g.RV}, g.T, g.Commits
}
func (w rDealer) Encrypt(i int) (gEnc, error) {
	e, err := w.d.EncryptedDeal(i)
	if err != nil {
		return gEnc{}, err
	}
	k, err := e.DHKey.MarshalBinary()
	return gEnc{DHKey: k, Sig: e.Signature, Cipher: e.Cipher}, err
}
func (w rDealer) ProcessResponse(r gResp) (*gJust, error) {
	j, err := w.d.ProcessResponse(&rvss.Response{SessionID: r.SID, Index: r.Index, Approved: r.Approved, Signature: r.Sig})
	if err != nil || j == nil {
		return nil, err
	}
	return &gJust{SID: j.SessionID, Index: j.Index, Deal: rToG(j.Deal).clone(), Sig: j.Signature}, nil
}
func (w rDealer) Certified() bool           { return w.d.DealCertified() }
func (w rDealer) SetTimeout()               { w.d.SetTimeout() }
func (w rDealer) SecretCommit() kyber.Point { return w.d.SecretCommit() }

func (w rVerifier) ProcessDeal(e gEnc) (*gResp, error) {
	k := w.s.Point()
	if err := k.UnmarshalBinary(e.DHKey); err != nil {
		return nil, err // a transport-level decoding failure of the ephemeral key
	}
	r, err := w.v.ProcessEncryptedDeal(&rvss.EncryptedDeal{DHKey: k, Signature: e.Sig, Cipher: e.Cipher})
	if err != nil {
		return nil, err
	}
	return &gResp{SID: r.SessionID, Index: r.Index, Approved: r.Approved, Sig: r.Signature}, nil
}
func (w rVerifier) ProcessResponse(r gResp) error {
	return w.v.ProcessResponse(&rvss.Response{SessionID: r.SID, Index: r.Index, Approved: r.Approved, Signature: r.Sig})
}
func (w rVerifier) ProcessJustification(j gJust) error {
	return w.v.ProcessJustification(&rvss.Justification{SessionID: j.SID, Index: j.Index, Deal: rFromG(j.Deal), Signature: j.Sig})
}
func (w rVerifier) Certified() bool { return w.v.EnoughApprovals() && w.v.DealCertified() }
func (w rVerifier) SetTimeout()     { w.v.SetTimeout() }
func (w rVerifier) CertifiedDeal() *gDeal {
	d := w.v.Deal()
	if d == nil {
		return nil
	}
	g := rToG(d)
	return &g
}

var vssRabin = vssImpl{
	name:  "rabin",
	rabin: true,
	newDealer: func(s vssSuite, long, secret kyber.Scalar, vs []kyber.Point, t uint32) (vssDealer, error) {
		d, err := rvss.NewDealer(s, long, secret, vs, t)
		if err != nil {
			return nil, err
		}
		return rDealer{d}, nil
	},
	newVerifier: func(s vssSuite, long kyber.Scalar, dealer kyber.Point, vs []kyber.Point) (vssVerifier, error) {
		v, err := rvss.NewVerifier(s, long, dealer, vs)
		if err != nil {
			return nil, err
		}
		return rVerifier{v, s}, nil
	},
	respHash: func(s vssSuite, r gResp) []byte {
		return (&rvss.Response{SessionID: r.SID, Index: r.Index, Approved: r.Approved}).Hash(s)
	},
	justHash: func(s vssSuite, j gJust) []byte {
		return (&rvss.Justification{SessionID: j.SID, Index: j.Index, Deal: rFromG(j.Deal)}).Hash(s)
	},
	recover: func(s vssSuite, deals []gDeal, n, t uint32) (kyber.Scalar, error) {
		var ds []*rvss.Deal
		for _, d := range deals {
			ds = append(ds, rFromG(d))
		}
		return rvss.RecoverSecret(s, ds, n, t)
	},
	minT: func(n int) int { return 2 },
}
