#!/bin/sh
# Builds (and thereby warms the Go build cache for) every flavour of the harness test binary, offline.
set -e
cd "$(dirname "$0")/harness"
export GOPROXY=off GOFLAGS=-mod=mod
unset GOTOOLCHAIN GOSUMDB || true
mkdir -p ../build
go test -c -vet=off -tags "verif" -o ../build/harness_default.test .
go test -c -vet=off -tags "verif constantTime" -o ../build/harness_ct.test .
go test -c -vet=off -tags "verif generic" -o ../build/harness_generic.test .
go test -c -vet=off -race -tags "verif" -o ../build/harness_race.test .
echo setup ok
